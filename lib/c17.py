"""C17 — sync bookkeeping structures behave like their simple models (engine simstruct)."""
import os, time, json, subprocess
from vlib import *
from batchcheck import *

PROP = "C17"
BIN = os.path.join(TARGET, "simstruct")

ASSUMPTIONS = [
    "operations on each structure are applied one at a time (the property quantifies over operation sequences; header-map spills are placed between operations, not concurrently with them)",
    "orphan pool: blocks that share a parent share their epoch number (on a real chain the epoch number is a function of the parent), so clean_expired_blocks, which looks at the first child in hash-map order, is deterministic; the oracle itself only demands order-independent facts",
    "orphan pool: for a parent that is itself pooled or unknown the code releases nothing; the check accepts 'nothing' or 'exactly the descendants' there, since the property speaks about parents for which a release happens",
    "in-flight table: which peers prune() evicts (its returned disconnect list, driven by the task-count/penalty arithmetic) is taken from the return value; only 'an evicted peer was tracked' is demanded. After an eviction the evicted peer's in-flight states linger until they time out (the converse of 'listed => in flight from that peer' is not part of the property)",
    "in-flight table: the slow-request time limit (low_time) is read from division_point(); the adaptive time analyzer is not re-derived. When a block arrives from a peer whose scheduler was evicted the code keeps the block's slow mark; the model follows the code there (the property's wording is about in-flight entries, not about slow marks)",
    "in-flight table: peer and timestamp of an InflightState are pub(crate); they are read from its Debug output",
    "header map: header epochs have a non-zero length (a zero-length epoch, which only the genesis header has, is rewritten to length 1 by the sled round trip and the genesis header is never put into the header map); block numbers stay below 2^40",
    "locator part: the node's real 5 s header-map timer spills at wall-clock-chosen moments; by the property this is unobservable, and the check relies on that for run isolation. The simulator never calls limit_memory concurrently with the timer (two concurrent limit_memory callers, which the product does not have, can drop a re-promoted header; outside the property, which places spills between operations)",
    "ancestor lookup (part ancestor_skip_list): the chain store, header map and main-chain index behind get_header_index_view / the main-chain shortcut are plain maps owned by the simulator and follow SyncShared::insert_valid_header / ActiveChain::get_ancestor_internal line by line",
]
REAL = [
    "ckb_chain OrphanBlockPool::{insert, remove_blocks_by_parent, clean_expired_blocks, len, clone_leaders} (via feature verif-hooks re-export)",
    "ckb_sync InflightBlocks::{insert, remove_by_block, remove_by_peer, mark_slow_block, prune, inflight_block_by_peer, inflight_state_by_block, peer_inflight_count, total_inflight_count, peer_can_fetch_count, division_point} on ckb_systemtime faketime",
    "ckb_shared HeaderMap::{insert, get, contains_key, remove} with HeaderMapKernel, MemoryMap and a real sled backend in a temp dir on tmpfs; limit_memory() through the verif_limit_memory hook",
    "ckb_shared HeaderIndexView::{new, build_skip, get_ancestor} and get_skip_height",
    "ckb_sync SyncShared::{new, insert_valid_header, get_header_index_view} and ActiveChain::{get_locator, get_ancestor} on a real Shared (SharedBuilder::with_temp_db, genesis-only RocksDB, real HeaderMap incl. its own 5 s spill timer and a ~300-header memory limit)",
]
STUB = [
    "the 5 s spill timer of HeaderMap (replaced by simulator-placed spill events)",
    "wall clock (ckb_systemtime faketime, advanced only by the simulator)",
    "part ancestor_skip_list only: chain store / header map / main-chain index behind the ancestor lookups (plain maps following SyncShared::get_header_index_view)",
    "part locator_on_sync_shared: no peers, no chain service; headers carry no proof of work (insert_valid_header does not verify); one node per worker thread is reused across runs, each run removes its own (seed-unique) headers",
    "LonelyBlockHash items are built from fake hashes (no real blocks; verify_callback None)",
    "OrphanBlockPool::get_block (needs a ChainDB) is not called",
]
LOCATOR_NOTE = (
    "ActiveChain::get_locator IS covered: part locator_on_sync_shared builds a real SyncShared (temp RocksDB with the genesis block, real Shared and HeaderMap), "
    "feeds real HeaderViews through SyncShared::insert_valid_header and compares ActiveChain::get_locator / ActiveChain::get_ancestor with a parent walk "
    "(chains up to ~27k headers so that the low-height sampling above 8192 runs). Its stored main chain is the genesis block only, so the main-chain shortcut "
    "fires at height 0 only there; shortcuts at arbitrary heights, moving tips and skip-less store views are covered by part ancestor_skip_list, which also issues "
    "get_locator's (base, index) schedule against HeaderIndexView::get_ancestor"
)


def determinism_selfcheck():
    """each kind: a few seeded scenarios, each executed twice in separate processes; the
    event-log hashes and verdicts must agree (a mismatch is a harness error, never a violation)"""
    checked = 0
    for kind in ("orphan", "inflight", "headermap", "ancestor", "locator"):
        for i in range(3):
            # `gen` pretty-prints (multi-line), so it is parsed here rather than by run_json
            r = subprocess.run([BIN, "gen", "--kind", kind, "--seed", str(seed_lo(9) + i)], env=ENV, stdout=subprocess.PIPE, stderr=subprocess.PIPE, text=True, timeout=600)
            try:
                sc = json.loads(r.stdout)
            except json.JSONDecodeError:
                raise HarnessError(f"gen --kind {kind} printed no scenario (exit {r.returncode}): {r.stderr[-500:]}")
            r1 = exec_scenario(BIN, sc)
            r2 = exec_scenario(BIN, sc)
            if r1["log_hash"] != r2["log_hash"] or bool(r1.get("violation")) != bool(r2.get("violation")):
                raise HarnessError(f"determinism self-check failed for kind {kind} seed {sc['seed']}: {r1['log_hash']} vs {r2['log_hash']}")
            checked += 1
    return checked


def run(tier, args):
    if args.replay:
        build(["simstruct"])
        return replay(PROP, args.replay, BIN)
    t0 = time.time()
    build(["simstruct"])
    q = tier == "quick"
    # (name, engine args, number of seeded runs or None, seed stream, enumeration bound or None)
    parts = [
        ("orphan_pool", ["--kind", "orphan"], 600_000 if q else 8_000_000, 0, None),
        ("inflight_blocks", ["--kind", "inflight"], 400_000 if q else 6_000_000, 1, None),
        ("header_map", ["--kind", "headermap"], 40_000 if q else 800_000, 2, None),
        ("ancestor_skip_list", ["--kind", "ancestor"], 80_000 if q else 1_000_000, 3, None),
        ("locator_on_sync_shared", ["--kind", "locator"], 12_000 if q else 250_000, 4, None),
        # bounded-exhaustive: every operation sequence up to the given length over a small alphabet
        ("orphan_pool_all_sequences", ["--kind", "orphan-enum"], None, 0, 6 if q else 7),
        ("inflight_blocks_all_sequences", ["--kind", "inflight-enum"], None, 0, 5 if q else 6),
        ("header_map_all_sequences", ["--kind", "headermap-enum"], None, 0, 4 if q else 6),
        ("ancestor_all_small_trees", ["--kind", "ancestor-enum"], None, 0, 96 if q else 220),
    ]
    if args.seeds:
        a, b = args.seeds.split("..")
        parts = [(n, x, int(b) - int(a), s, None) for (n, x, cnt, s, en) in parts if en is None]
    n_det = determinism_selfcheck()
    log(f"[{PROP}] determinism self-check: {n_det} scenarios x 2 processes agree")
    agg = Agg()
    timing = {}
    enumerated = {}
    first_samples = []
    for name, extra, n, stream, bound in parts:
        t1 = time.time()
        if bound is None:
            lo = seed_lo(stream) if not args.seeds else int(args.seeds.split("..")[0])
            argv = [BIN, "batch", "--seeds", f"{lo}..{lo+n}", "--threads", "16", *extra]
        else:
            argv = [BIN, "batch", "--enumerate", str(bound), "--threads", "16", *extra]
        doc, rc = run_json(argv, timeout=7200)
        dt = time.time() - t1
        timing[name] = {"runs": doc["runs"], "wall_s": round(dt, 2), "runs_per_hour": int(doc["runs"] / max(dt, 1e-3) * 3600)}
        if bound is not None:
            enumerated[name] = {"bound": bound, "cases": doc["runs"]}
        if doc["samples"]:
            first_samples.append(doc["samples"][0])
        log(f"[{PROP}] {name}: {doc['runs']} runs, {doc['nontrivial_runs']} non-trivial, {len(doc['violations'])} failing, {dt:.1f}s")
        agg.add(name, doc)
    if agg.harness_errors:
        log("harness errors:", agg.harness_errors[:5])
        return 2
    unknown = triage(PROP, agg, BIN)
    wall = time.time() - t0
    coverage = {
        "evaluations": agg.runs,
        "distinct_nontrivial": agg.distinct_nontrivial,
        "rule": "one evaluation = one seeded operation sequence executed against the real structure and its reference model, compared after every operation. "
        "distinct = distinct hash of the executed operation list (with all arguments). non-trivial per part: "
        "orphan_pool: at least one release returned >= 2 blocks spanning >= 2 levels below the released parent; "
        "inflight_blocks: at least one prune released an entry by time-out while at least one other entry stayed in flight; "
        "header_map: at least one get was served from the sled backend after a spill; "
        "ancestor_skip_list: at least one query >= 8 levels below its tip was answered off the main-chain shortcut with fewer header lookups than levels (skip pointers were followed); "
        "locator_on_sync_shared: at least one get_locator call returned more than 11 hashes (the exponential-step phase ran). "
        "The enumerated parts (*_all_sequences, ancestor_all_small_trees) use the rule of their structure; distinct counts of the parts are added (their operation alphabets differ)",
        "samples": first_samples[:9],
        "parts": agg.parts,
        "part_timing": timing,
        "exhaustive": False,
        "determinism_selfcheck": f"{n_det} scenarios (3 per kind) executed twice in separate processes: identical event-log hash and verdict",
        "enumeration": "parts *_all_sequences run EVERY operation sequence up to the stated length over a small alphabet (orphan: 5-block forest under two absent parents, 4 release targets, 2 clean-up epochs = 11 symbols; "
        "in-flight: 2 peers x 2 blocks inserts, 2 arrivals, 2 departures, mark-slow, prune, clock +1501 ms, clock +30001 ms = 12 symbols; header map: 2 keys (one with two values), get/remove each, spill, memory limit 1 = 8 symbols); "
        "ancestor_all_small_trees runs every trunk length up to the bound x every fork point x branch length {1,2,5} x main tip {genesis, fork point, trunk tip} and asks EVERY (tip, height) query incl. tip+1. "
        "Exhaustive within those bounds, sampled beyond: " + json.dumps(enumerated, sort_keys=True),
        "fault_kinds_fired": agg.faults,
        "probes_hit": agg.probes,
        "distinct_operation_sequences": agg.distinct_interleavings,
        "distinct_abstract_states": agg.distinct_states,
        "abstract_state_measure": "orphan: (pool size, leader count, max subtree depth); inflight: (entries, tracked peers, slow marks, states whose peer list is gone, restart number set); "
        "header map: (keys, memory-tier fill, backend size, keys present in both tiers); ancestor: (log2 nodes, log2 main tip, forks, log2 query distance, shortcut used); locator: (locator length, log2 nodes, low-height sampling used). Counted per part and added; a state reached by both the random and the enumerated part of one structure is therefore counted twice (at most 15+20+9 states)",
        "simulated_runs_per_hour": int(agg.runs / max(wall, 1e-3) * 3600),
        "steps": agg.steps,
        "simulated_time_ms": agg.sim_ms,
        "simulated_time_note": "only the in-flight table has a clock (faketime); it is process-global, so in-flight runs execute in single-threaded worker processes (16 at a time)",
        "real_components": REAL,
        "stubbed_components": STUB,
        "get_locator": LOCATOR_NOTE,
    }
    write_evidence(PROP, tier, "exploration", coverage, wall, unknown, ASSUMPTIONS)
    return 1 if unknown else 0
