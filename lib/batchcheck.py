"""Generic driver for engines that run many simulated runs per process
(`<engine> batch ...` printing a BatchResult) and can execute one explicit
scenario (`<engine> exec --scenario f` printing a RunResult)."""
import json, os, sys, time, tempfile
from vlib import *


def exec_scenario(engine_bin, scenario, extra_args=(), timeout=600):
    kind = scenario.get("kind")
    if kind == "freezer":
        doc, _ = run_json([engine_bin, "freezer-exec", "--seed", str(scenario["seed"])], timeout=timeout)
        return doc
    d = "/dev/shm" if os.path.isdir("/dev/shm") else None
    with tempfile.NamedTemporaryFile("w", suffix=".json", dir=d, delete=False) as f:
        json.dump(scenario, f)
        p = f.name
    try:
        doc, _ = run_json([engine_bin, "exec", "--scenario", p, *extra_args], timeout=timeout)
    finally:
        os.unlink(p)
    return doc


def triage(prop, agg, engine_bin, shrink_keys=("ops",), simplify=None, max_report=3, exec_fn=None):
    """returns (n_unknown_violations, lines printed)"""
    by_class = {}
    for prefix, v in agg.violations:
        by_class.setdefault(v["violation"]["class"], []).append(v)
    unknown = 0
    known_printed = set()
    ex = exec_fn or (lambda sc: exec_scenario(engine_bin, sc))
    for vclass, vs in sorted(by_class.items()):
        k = match_known(prop, vclass)
        if k is not None:
            if k["signature"] not in known_printed:
                print(f"KNOWN-FINDING: property={prop} {k['what']} [class {vclass}, {len(vs)} run(s)]", flush=True)
                known_printed.add(k["signature"])
            continue
        unknown += len(vs)
        if max_report <= 0:
            continue
        max_report -= 1
        v = min(vs, key=lambda x: len(json.dumps(x["scenario"])))
        sc = v["scenario"]
        t0 = time.time()
        try:
            small = Shrinker(ex, sc, vclass, keys=shrink_keys, simplify=simplify).run()
            r1 = ex(small)
            r2 = ex(small)
            same = (
                r1.get("violation")
                and r2.get("violation")
                and r1["violation"]["class"] == vclass
                and r2["violation"]["class"] == vclass
                and r1["log_hash"] == r2["log_hash"]
            )
            if not same:
                # fall back to the unshrunk scenario
                small = sc
                r1 = ex(small)
                same = bool(r1.get("violation")) and r1["violation"]["class"] == vclass
            viol = r1.get("violation") or v["violation"]
        except HarnessError as e:
            log(f"[shrink] harness error {e}; reporting unshrunk")
            small, viol, same = sc, v["violation"], False
        path = write_replay(
            prop,
            small,
            viol,
            engine_bin,
            {"seed": v["seed"], "replay_verified_twice": bool(same), "original_ops": len(sc.get("ops", [])), "shrunk_ops": len(small.get("ops", []))},
        )
        log(f"[violation] class={vclass} detail={viol['detail']} (shrunk in {time.time()-t0:.1f}s, {len(vs)} failing run(s))")
        print(f"VIOLATION property={prop} replay={path}", flush=True)
    return unknown


def replay(prop, path, engine_bin, exec_fn=None):
    body = json.load(open(path))
    ex = exec_fn or (lambda sc: exec_scenario(engine_bin, sc))
    res = ex(body["scenario"])
    v = res.get("violation")
    if v:
        print(f"replayed: class={v['class']} detail={v['detail']} log_hash={res['log_hash']}")
        k = match_known(prop, v["class"])
        if k:
            print(f"KNOWN-FINDING: property={prop} {k['what']}")
            return 0
        print(f"VIOLATION property={prop} replay={path}")
        return 1
    print("replayed: no violation")
    return 0
