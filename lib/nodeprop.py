"""Checks served by the E-NODE engine (simnode): C01 C02 C03 C06 C19 C20 (and C08 through E-CRASH)."""
import os, time
from vlib import *
import nodecheck as nc

PROPS = {
 "C01": dict(level="exploration", quick=900, thorough=60000,
   rule="one evaluation = one simulated run: a seeded block tree (forks, competing branches, uneven difficulty across clock-driven epochs, 0-3 single-rule-invalid blocks) delivered to the real chain stages in a seeded order (permutations, reversed, duplicates, orphan-first) with the insert/preload/verify stages stepped by the simulator and the orphan cleaner fired at arbitrary points; oracle = max-work fully-valid chain of the delivered set from the reference model, strictly-increasing-work tip history, connectedness of every connectable block, no verified block on an invalid chain. distinct = hash of the executed operation sequence; non-trivial = the run contained at least one reorganisation or one orphan-first delivery",
   assumptions=["blocks are built by the reference model (valid by construction or broken by exactly one named mutation); PoW is Pow::Dummy", "coarse scheduling granularity: each stage handler is an atomic step (the fine-grained baton mode of DESIGN.md §5 is not built)", "equal-work ties: the oracle accepts any tip of maximal work and checks 'first verified stays' through the monotone tip history"]),
 "C02": dict(level="exploration", quick=700, thorough=40000,
   rule="one evaluation = one simulated run over a block tree with rich transaction graphs (cross-fork re-commits, cells created and spent on different branches, uncles, proposals) incl. clean restarts and snapshot-reader captures at arbitrary steps; at every quiescent point, after every restart and for every captured snapshot, ALL rows of COLUMN_INDEX/CELL/CELL_DATA/CELL_DATA_HASH/TRANSACTION_INFO/UNCLES, META tip/epoch, BLOCK_EPOCH/EPOCH and BLOCK_EXT of main-chain blocks and the chain-root MMR roots are compared with the model's replay of that tip's chain. non-trivial = run with a reorganisation or orphan-first delivery",
   assumptions=["BlockExt.cycles is only checked for length (script cycle counts are not re-derived by the model)", "truncate is exercised only by the C02 thorough tier through SimChain::truncate"]),
 "C03": dict(level="exploration", quick=700, thorough=40000,
   rule="one evaluation = one simulated run; every block is valid by construction (independent builder: epoch, reward, DAO, chain root, proposals window, uncles, in half of the runs a real proof-of-work nonce mined by the model for the Eaglesong or EaglesongBlake2b engine) or carries exactly one named rule violation anywhere in the tree incl. the middle of a heavier side branch: dao c/u/ar/s, target, epoch index/length, reward +1/-1/lock, early cellbase output, missing/short/wrong chain-root extension, transactions root / proposals hash / extra hash not matching the body, a witness changed under an unchanged root, two cellbases, cellbase not first, two cellbase outputs, cellbase output data, cellbase type script, cellbase input number, garbage or missing cellbase witness, duplicate transaction, sibling/duplicate/already-included/unknown-parent/other-epoch/too-many/bad-nonce uncle, commit of an unproposed or time-locked transaction. In three runs out of five every delivery first passes the header stage exactly as the miner RPC submit_block runs it (real HeaderVerifier on the current snapshot, parent must be stored) with header-only mutants (timestamp equal to the past median, wrong number, malformed epoch fraction, nonce above target) and boundary-valid headers (timestamp = median+1, timestamp = node clock + 15 s exactly; one ms later is refused until the clock has moved). Oracle: the header stage accepts exactly the headers the model's reading of the header rules accepts at the node's clock; valid heaviest chains are attached; no block of a chain containing a mutant is ever attached or marked verified; refusal leaves the stored state equal to the replay of the old tip. non-trivial as C01, or a header-stage refusal for a rule reason",
   assumptions=["this is generated-input checking carried by the simulator; the simulation-specific parts are delivery order/stage interleaving, the node clock, and refusal atomicity under reorg", "the peer path (HeadersProcess / compact-block relay) runs the same HeaderVerifier over a different header provider; only the submit_block provider (Snapshot) is exercised here; C16 drives the peer handlers for robustness only", "block size / cycle / proposal-count limits are not among the mutants; version rules neither"]),
 "C06": dict(level="exploration", quick=700, thorough=40000,
   rule="one evaluation = one simulated run with random fees, proposer/committer assignments across blocks and uncles, re-proposals inside the window, epoch boundaries with remainder rewards and halvings; the model computes every cellbase reward (primary + secondary*U/C + committer shares + first-proposer shares) and DAO field from the property text; the node must accept every such block when it is on the heaviest chain and reject reward/DAO mutants; at the end header U == occupied capacity of the live cells actually stored and every main-chain cellbase equals the property-text reward. non-trivial as C01",
   assumptions=["NervosDAO deposits, phase-1 and phase-2 withdrawals are generated against a genesis DAO cell whose code is always_success: the node-side accounting (maximum withdraw from the two accumulated rates, fee of the withdrawal, S decreasing by the interest, occupied capacity of the 8 data bytes) is exercised and checked against the model; the on-chain NervosDAO script (since lock period, capacity equality in phase 1) is not", "blocks come from the model's builder only; the node's own block assembler is exercised by C13"]),
 "C19": dict(level="exploration", quick=600, thorough=30000,
   rule="one evaluation = one simulated run; (roots) every block's extension carries the chain root computed by a from-scratch MMR (own merge rule per RFC 0044) over its ancestors, so acceptance by the node's BlockExtensionVerifier is an equality check on every fork; after every reorganisation and restart the node's Snapshot::chain_root_mmr(tip-1/tip).get_root() must equal the naive root; wrong/short/missing root mutants must be rejected. (proofs) at every quiescent point and after every restart, for three seeded (last block L, 1-6 ancestor positions) requests, the parent chain root and proof items produced from the stored MMR exactly as the light-client server's reply_proof does (chain_root_mmr(L-1).get_root / gen_proof) are rebuilt into a proof the way a client does (mmr size from L) and must verify against the MODEL's root and header digests, must not verify a header of another block at one of the positions, and must not verify against the root of another prefix. (filters) the block-filter builder runs as explicit passes at arbitrary moments (lagging behind by blocks, reorganisations and restarts; real BlockFilter::build_filter_data through a verif hook); after every pass every main-chain block must have a filter that matches each lock and type script hash of its outputs and spent inputs (inputs resolved through the model), whose bytes equal the encoding of exactly that set, and whose filter hash equals blake2b(parent filter hash || blake2b(filter)) from a zero hash at genesis; the latest-built mark must be the tip. non-trivial as C01",
   assumptions=["the light-client protocol handler itself (message parsing, sampling of positions for GetLastStateProof, missing-item handling) is not driven here: the proof is produced by the same store calls the handler makes; its robustness against malformed requests is covered by C16's handler part", "the golomb-coded-set and ckb-merkle-mountain-range crates' encode/verify routines are used by the oracle with model-derived inputs (elements, root, leaves)", "a reorganisation racing with a builder pass (the builder reads the live store while holding an older snapshot) is not simulated: passes are atomic steps"]),
 "C07": dict(level="exploration", quick=200, thorough=10000,
   rule="(two runs out of five) one evaluation = one simulated chain of 340-4300 blocks over 2-4 epochs of 300-1800 blocks with the REAL difficulty adjustment; the miners' clock runs in per-epoch regimes (30%-250% of the ideal pace, stalls of 1 ms per block, bursts, rare jumps of an hour or a day), uncle rates from 0 to 20%, primary-reward halving every 1-3 epochs; every epoch transition computed by the node must equal the model's exact big-rational evaluation of RFC 0020 (EpochExt compared field by field, header epoch/target enforced by the node's own verifier on model-built blocks), and the node's recorded epochs must satisfy: length within [300,1800] and within x2 of the previous, non-zero difficulty, hash-rate estimate within x2 of the previous, gap-free epoch fields, per-epoch sums of block rewards equal to the scheduled primary (with halvings) and secondary issuance, compact<->target<->difficulty conversions equal to an independent implementation and monotone on every target met. (three runs out of five) short pipeline runs under a real proof-of-work engine (Eaglesong, EaglesongBlake2b): the model mines a nonce for every block and uncle by its own reading of the rule (eaglesong over pow hash and little-endian nonce, big-endian comparison with the target decoded from the compact field), the header stage must accept exactly those, refuse blocks whose only flaw is a nonce above the target, and the chain must refuse a block embedding such an uncle or carrying another target than its epoch's. non-trivial = at least one epoch transition was reached or a proof-of-work refusal happened",
   assumptions=["PARTIAL CLAIM: decided only for the epoch statistics reached by simulated histories (clock-driven durations, uncle rates, clamp boundaries); the same statements over the whole u64/U256 input space and all compact encodings are pure functions of their arguments and are not sampled here", "proof-of-work acceptance is decided for mined and deliberately missed nonces only: a header hash exactly equal to its target is not reachable by search"]),
 "C20": dict(level="exploration", quick=700, thorough=40000,
   rule="one evaluation = one simulated run with random proposal sets in blocks and uncles, reorganisations of any depth relative to the window (w_close 1..3, w_far up to 11), chains shorter than the window, and 1-3 clean restarts at arbitrary operation indexes (new OS process on the same database: init_proposal_table path); after every tip change and after every restart Snapshot::proposals().{set,gap} must equal the union over the model's window. non-trivial as C01",
   assumptions=["detached_proposal_id delivered to the pool is covered by C12's engine, not here", "commit acceptance at the window edges is covered by the model-built commits (they commit at every legal offset)"]),
}


def run(prop, tier, args):
    cfg = PROPS[prop]
    if args.replay:
        build(["simnode"])
        return nc.replay(prop, args.replay)
    t0 = time.time()
    build(["simnode"])
    n = cfg["quick"] if tier == "quick" else cfg["thorough"]
    lo = seed_lo(int(prop[1:]))
    if args.seeds:
        a, b = args.seeds.split("..")
        lo, n = int(a), int(b) - int(a)
    # determinism self-check: a few seeds twice, event-log hashes must agree
    for s in range(lo, lo + 3):
        a = nc.run_seed(prop, s)
        b = nc.run_seed(prop, s)
        if a.get("log_hash") != b.get("log_hash") or a.get("states") != b.get("states"):
            log(f"determinism self-check failed for seed {s}")
            return 2
    agg = nc.sweep(prop, lo, n)
    if agg.harness:
        log("harness errors:", agg.harness[:3])
        return 2
    # sample scenarios (first non-trivial seeds)
    try:
        sc = nc.gen_scenario(prop, lo)
        agg.samples.append({"seed": lo, "cfg": sc["cfg"], "tree_blocks": len(sc["tree"]), "tree_head": sc["tree"][:3], "ops_head": sc["ops"][:25], "store_caches": sc.get("store_caches")})
    except HarnessError:
        pass
    unknown = nc.triage(prop, agg, budget=(20 if prop == "C07" else 250))
    wall = time.time() - t0
    cov = nc.evidence_cov(agg, wall, cfg["rule"])
    write_evidence(prop, tier, cfg["level"], cov, wall, unknown, cfg["assumptions"])
    log(f"[{prop}] {agg.runs} runs, {len(agg.fail)} failing, {wall:.0f}s")
    return 1 if unknown else 0
