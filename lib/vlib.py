"""Orchestration shared by every check: build, run batches, triage against known
findings, shrink, replay-verify, write evidence.  No randomness or clock here
influences a simulated run: seeds are derived arithmetically from VERIF_SEED and
wall time is only measured for the evidence file."""
import json, os, subprocess, sys, time, shutil, hashlib, copy, re

VERIF = os.path.dirname(os.path.dirname(os.path.abspath(__file__)))
# lib/seedtest_wt.sh points this at a copy of sim/ whose path dependencies lead to a patched scratch worktree
SIM = os.environ.get("VERIF_SIM_DIR") or os.path.join(VERIF, "sim")
TARGET = os.path.join(SIM, "target", "release")
# seeded-change runs (lib/seedtest.sh) redirect both so that committed evidence only ever comes from the unchanged tree
EVID = os.environ.get("VERIF_EVIDENCE_DIR") or os.path.join(VERIF, "evidence")
REPLAYS = os.environ.get("VERIF_REPLAY_DIR") or os.path.join(VERIF, "replays")
DEFAULT_SEED = 20260924

ENV = dict(os.environ)
# engines that call SharedBuilder::with_temp_db() leave their databases under $TMPDIR (the
# TempDir is a static that is never dropped): give every check its own scratch TMPDIR and
# remove it when the check ends
SCRATCH_TMP = f"/tmp/verif-scratch-{os.getpid()}"
os.makedirs(SCRATCH_TMP, exist_ok=True)
ENV["TMPDIR"] = SCRATCH_TMP
import atexit
atexit.register(lambda: shutil.rmtree(SCRATCH_TMP, ignore_errors=True))
ENV["CARGO_NET_OFFLINE"] = "true"
ENV.setdefault("RUST_BACKTRACE", "0")
ENV["RUST_LOG"] = "off"


class HarnessError(Exception):
    pass


def log(*a):
    print(*a, file=sys.stderr, flush=True)


def base_seed():
    try:
        return int(os.environ.get("VERIF_SEED", DEFAULT_SEED))
    except ValueError:
        return DEFAULT_SEED


def seed_lo(stream=0):
    """first seed of the range used by one sub-check; distinct streams do not overlap"""
    return (base_seed() % (1 << 32)) * 1_000_000 + stream * 100_000_000_000_000


def build(packages):
    """cargo build the engines from /repo's working tree (path dependencies)"""
    lock = os.path.join(SIM, "Cargo.lock")
    if not os.path.exists(lock):
        shutil.copy("/repo/Cargo.lock", lock)
    cmd = ["cargo", "build", "--release", "--offline"]
    for p in packages:
        cmd += ["-p", p]
    t0 = time.time()
    r = subprocess.run(cmd, cwd=SIM, env=ENV, stdout=subprocess.PIPE, stderr=subprocess.STDOUT, text=True)
    if r.returncode != 0:
        log(r.stdout[-6000:])
        raise HarnessError("build failed: " + " ".join(cmd))
    log(f"[build] {' '.join(packages)} ok in {time.time()-t0:.1f}s")


def run_json(argv, timeout=None, env=None):
    """run an engine command that prints one JSON document on stdout"""
    e = dict(ENV)
    if env:
        e.update(env)
    try:
        r = subprocess.run(argv, env=e, stdout=subprocess.PIPE, stderr=subprocess.PIPE, text=True, timeout=timeout)
    except subprocess.TimeoutExpired:
        raise HarnessError("timeout: " + " ".join(argv))
    out = r.stdout.strip().splitlines()
    doc = None
    for line in reversed(out):
        line = line.strip()
        if line.startswith("{"):
            try:
                doc = json.loads(line)
                break
            except json.JSONDecodeError:
                continue
    if doc is None:
        raise HarnessError(f"no JSON from {' '.join(argv)} (exit {r.returncode}): {r.stderr[-2000:]}")
    return doc, r.returncode


def load_known():
    p = os.path.join(VERIF, "known_findings.json")
    if not os.path.exists(p):
        return []
    return json.load(open(p))["findings"]


def match_known(prop, vclass):
    """return the 'known' finding entry whose signature matches this violation class, if any.
    'fixed' entries never suppress."""
    for f in load_known():
        if f.get("property") == prop and f.get("status") == "known":
            if re.fullmatch(f["signature"], vclass):
                return f
    return None


# ------------------------------------------------------------------ shrinking

def ddmin(items, fails):
    cur = list(items)
    n = 2
    while len(cur) >= 2:
        chunk = -(-len(cur) // n)
        reduced = False
        i = 0
        while i * chunk < len(cur):
            cand = cur[: i * chunk] + cur[(i + 1) * chunk :]
            if cand and fails(cand):
                cur = cand
                n = max(n - 1, 2)
                reduced = True
                break
            i += 1
        if not reduced:
            if n >= len(cur):
                break
            n = min(n * 2, len(cur))
    i = 0
    while i < len(cur) and len(cur) > 1:
        cand = cur[:i] + cur[i + 1 :]
        if fails(cand):
            cur = cand
        else:
            i += 1
    return cur


class Shrinker:
    """delta-debugs scenario[key] lists keeping the same violation class"""

    def __init__(self, exec_fn, scenario, vclass, keys=("ops",), budget=400, simplify=None):
        self.exec_fn = exec_fn
        self.sc = copy.deepcopy(scenario)
        self.vclass = vclass
        self.keys = keys
        self.budget = budget
        self.calls = 0
        self.simplify = simplify

    def _fails(self, sc):
        if self.calls >= self.budget:
            return False
        self.calls += 1
        try:
            res = self.exec_fn(sc)
        except HarnessError:
            return False
        v = res.get("violation")
        return bool(v) and v["class"] == self.vclass

    def run(self):
        for key in self.keys:
            if key not in self.sc or not isinstance(self.sc[key], list) or len(self.sc[key]) < 2:
                continue

            def fails(cand, key=key):
                sc = copy.deepcopy(self.sc)
                sc[key] = cand
                return self._fails(sc)

            self.sc[key] = ddmin(self.sc[key], fails)
        if self.simplify:
            for cand in self.simplify(self.sc):
                if self._fails(cand):
                    self.sc = cand
        return self.sc


def write_replay(prop, scenario, violation, engine_cmd, extra=None):
    os.makedirs(REPLAYS, exist_ok=True)
    body = {
        "property": prop,
        "engine_cmd": engine_cmd,
        "violation": violation,
        "scenario": scenario,
    }
    if extra:
        body.update(extra)
    h = hashlib.sha256(json.dumps(scenario, sort_keys=True).encode()).hexdigest()[:12]
    path = os.path.join(REPLAYS, f"{prop}-{h}.json")
    json.dump(body, open(path, "w"), indent=1, sort_keys=True)
    return path


# ------------------------------------------------------------------ evidence

def write_evidence(prop, tier, level, coverage, wall_s, violations, assumptions, extra=None):
    os.makedirs(EVID, exist_ok=True)
    doc = {
        "property_id": prop,
        "tier": tier,
        "seed": base_seed(),
        "level": level,
        "coverage": coverage,
        "assumptions": assumptions,
        "wall_s": round(wall_s, 3),
        "violations": violations,
    }
    if extra:
        doc.update(extra)
    path = os.path.join(EVID, f"{prop}.json")
    tmp = path + ".tmp"
    json.dump(doc, open(tmp, "w"), indent=1, sort_keys=True)
    os.replace(tmp, path)
    return path


class Agg:
    """merge BatchResult documents from engines"""

    def __init__(self):
        self.runs = 0
        self.nontrivial_runs = 0
        self.steps = 0
        self.sim_ms = 0
        self.distinct_interleavings = 0
        self.distinct_states = 0
        self.distinct_nontrivial = 0
        self.faults = {}
        self.probes = {}
        self.violations = []  # (engine_exec_argv_prefix, failedrun)
        self.harness_errors = []
        self.samples = []
        self.parts = []

    def add(self, name, b, exec_prefix=None):
        self.runs += b["runs"]
        self.nontrivial_runs += b["nontrivial_runs"]
        self.steps += b["steps"]
        self.sim_ms += b["sim_ms"]
        # sub-batches use disjoint seed streams / kinds: distinct counts add
        self.distinct_interleavings += b["distinct_interleavings"]
        self.distinct_states += b["distinct_states"]
        self.distinct_nontrivial += b["distinct_nontrivial"]
        for k, v in b["faults"].items():
            self.faults[k] = self.faults.get(k, 0) + v
        for k, v in b["probes"].items():
            self.probes[k] = self.probes.get(k, 0) + v
        for v in b["violations"]:
            self.violations.append((exec_prefix, v))
        self.harness_errors += b["harness_errors"]
        for s in b["samples"]:
            if len(self.samples) < 6:
                self.samples.append(s)
        self.parts.append(
            {
                "part": name,
                "runs": b["runs"],
                "nontrivial_runs": b["nontrivial_runs"],
                "distinct_interleavings": b["distinct_interleavings"],
                "distinct_states": b["distinct_states"],
            }
        )
