"""Checks served by the pool task mode of E-NODE (simnode pool-*): C11 C12 C13."""
import os, time
from vlib import *
import nodecheck as nc

REAL = nc.REAL + [
    "ckb-tx-pool: TxPoolService (process, _process_tx, pre_check, submit_entry, check_rbf/process_rbf, after_process, orphan handling), TxPool, PoolMap/links/edges/entries, verify queue, update_tx_pool_for_reorg (remove_committed_txs, resolve_conflict, remove_by_detached_proposal, readd_detached_tx, remove_expired), limit_size",
    "block assembler: update_blank/full/uncles/proposals/transactions, calc_dao, TxSelector, candidate uncles, get_block_template; script verification of every submitted tx in ckb-vm",
]
STUB = [
    "the tx-pool service loops (message loop, reorg loop, block-assembler loop, verify workers): every queued item is a future the simulator polls by hand (ckb_tx_pool::verif::SimPool); reorg notifications and block-assembler messages keep their sequential order as in the real loops, controller messages and verify-worker iterations are independent tasks",
    "suspension points: ckb_tx_pool::verif::yield_point after pre_check and before submit_entry in _process_tx, and between the three steps of a reorg notification",
    "the four chain-service threads (SimChain steps; the verify stage runs on a helper thread while the simulator thread serves only UpdateIBDState)",
    "network (idle NetworkService, no peers), PoW (Dummy), wall clock (faketime), HashMap seeds (getrandom interposed), tokio helper tasks run on a single-worker runtime flushed by a FIFO barrier after every poll",
]

PROPS = {
 "C11": dict(quick=600, thorough=40000,
   rule="one evaluation = one simulated run of 20-120 pool operations (local/remote submissions over a generated tx DAG with chains, diamonds, shared cell deps, conflicting spends, RBF candidates, fees below/at/above the limits; removals; clock advances and expiry passes; block templates mined; model-built competing branches causing reorgs) with pool size 1.5-6 KB or unlimited and ancestor limit 3/5/25/125; after EVERY completed task and at every quiescent point a dump of entries/links/edges/aggregates/counters is recomputed from scratch and compared. distinct = hash of the executed op/poll sequence; non-trivial = a task was suspended at a yield point or a reorg crossed a fork point",
   assumptions=["the optional 'dep user precedes consumer' link (recorded by the pool only when the consumer arrives second) is accepted but not required", "RBF admission arithmetic (fee >= replaced fees + min_rbf_rate*size) is exercised but asserted only through pool consistency (no double spend, replaced set gone), not re-derived per replacement"]),
 "C12": dict(quick=600, thorough=40000,
   rule="one evaluation = one simulated run interleaving submissions (suspended at yield points inside _process_tx), block templates mined on the node, and model-built competing branches that commit/propose the same candidate transactions, with reorg notifications queued and processed at simulator-chosen moments; at every quiescent point (all tasks done, pool snapshot == chain tip): no pooled tx is committed on the main chain, every input/dep is live in the model's live-cell set or created by a pooled tx, no cell is spent twice in the pool, and each entry's stage equals the model's proposal-window membership (mining node). Half of the runs carry transactions with absolute block-number time locks at the boundary of the earliest commit position and transactions that spend the reward cell of a recent block (cellbase maturity zero); planted shapes: an expired proposal re-opened by a shorter heavier branch, an id that leaves the committable set in the block that proposes it again, a cell that one pooled transaction spends and another references being spent on the chain by a third one, and (clean-detach configuration) a branch that commits a WITNESS VARIANT of a detached transaction whose pooled child must stay (ExpectPooled). non-trivial as C11",
   assumptions=["'still admissible detached transactions are back in the pool' is asserted only where admissibility is unambiguous: the reorganisation starts from a pool at rest and is followed by a quiescent point with nothing in between, the pool has no size limit and an ancestor limit out of reach, every input and dep of the returning transaction is live on the new chain, it has no time lock or cellbase input, pays at least twice the minimum fee and nothing else spends its inputs (probes detached_admissible_tx_checked / detached_tx_admissibility_ambiguous)", "one run in three uses the clean-detach configuration"]),
 "C13": dict(quick=500, thorough=30000,
   rule="one evaluation = one simulated run as C12; every Mine op requests a template at that instant (block-assembler updates possibly still queued), seals it and feeds it to the node's own insert/preload/verify stages: the verdict must be Ok and, when the template names the current tip, the block must become the tip; transactions must appear parents-first; the reference model independently re-derives epoch, reward, DAO, chain root, window, uncle rules and the size / cycle / proposal limits of every template block; two runs out of five use consensus limits small enough (1.2-4 KB, 2-8 script groups, 1-6 proposals) for the block assembler's accounting to decide what fits (probes template_at_*_limit). Half of the runs carry time-locked transactions (absolute block number at / just below / one above the earliest commit position) and transactions spending recent reward cells; one run in five of those without small limits plants 'chain A into its second epoch, submit a transaction locked until A's earliest commit position (optionally mined on A), a SHORTER but heavier branch B takes over (optionally the submitter tries again), four templates mined'. non-trivial as C11",
   assumptions=["templates that name a stale parent are stored as side blocks and therefore NOT verified by the node (probes.stale_templates_not_verified); for those the reference model alone judges validity on the named parent (class stale_parent_template_invalid) - the same model is cross-checked against the node on every on-tip template", "HeaderVerifier (timestamp/PoW) is not part of the pipeline here"]),
 "C04": dict(quick=500, thorough=30000,
   rule="one evaluation = one simulated run: a pool/chain history as in C11-C13 (submissions, templates mined, model-built competing branches and reorgs, clock advances) with 8-30 PROBE operations at arbitrary points. A probe is a transaction built against the context of that moment with at most one rule-breaking field placed exactly at, one unit before or one unit after the boundary of the evaluation position: since in all six kinds (absolute/relative x block number / epoch fraction / median time) plus malformed encodings (metric 0b11, reserved flag bits, index >= length, zero-length fraction), cellbase maturity (newest mature / oldest immature cellbase output, as input and as cell dep, maturity 0, 1/2, 3/4, 1, 2+1/3 epochs), capacity (outputs = inputs + 1 shannon, an output exactly at / one shannon below its occupied size, zero fee), liveness (spent / unknown / duplicated inputs, output of a pooled, committed or unknown parent; spent / unknown cell deps), header deps (main chain / delivered side chain / unknown) and a witness-dependent lock (passing / failing program). ProbePool asks the real pool (test_accept_transaction at a quiescent point; position = earliest commit block as documented in script/src/verify_env.rs); ProbeBlock lets the model propose the probe on the tip and commit it in the first legal block, which the node's block verification accepts or rejects (position = that block). Oracle: an evaluator written from the property text and RFC 0017 over the model's live-cell set; verdicts must agree in both directions. A second part (300 runs quick) runs in chain mode: candidate transactions get conflicting twins that break exactly one rule of their own (outputs exceed inputs by one shannon, an output one shannon below its occupied size, a NervosDAO phase-2 withdrawal claiming one shannon more than deposit plus interest or carrying an output below its occupied size) and blocks anywhere in a tree with reorganisations commit such a twin, a time-locked or a never-proposed transaction: no chain containing such a block may ever be attached, while every chain of valid transactions must be. History independence follows because the oracle is a function of (transaction, context) only while contexts are reached through arbitrary histories (reorgs, pool states, caches). distinct = hash of the executed op/poll sequence; non-trivial = at least one probe was evaluated",
   assumptions=["pool policy (minimum fee rate, ancestor limit, replacement of conflicting pooled transactions) is outside C04's rules: zero-fee probes go to the block path only; probes that conflict with pooled transactions or would exceed the ancestor limit are skipped and counted", "only accept/reject is compared, not which error is reported first", "dep groups are generated (code reached through a group, a group with a member that is spent later, a cell without out-point-vector data used as group, unknown group, code missing from the deps) and one run in three has a per-transaction cycle limit that probes meet exactly / exceed by one; type scripts are not part of probes; NervosDAO rules only in the chain-mode part (maximum withdraw, occupied size of a withdrawal's outputs)", "the block path is exercised through the chain service (ContextualBlockVerifier), the pool path through TxPoolService::test_accept_tx (dry run) - real submissions of the same shapes are covered by C11-C13's engine"]),
}


def run(prop, tier, args):
    nc.set_mode("pool-")
    cfg = PROPS[prop]
    if args.replay:
        build(["simnode"])
        return nc.replay(prop, args.replay)
    t0 = time.time()
    build(["simnode"])
    n = cfg["quick"] if tier == "quick" else cfg["thorough"]
    lo = seed_lo(int(prop[1:]))
    if args.seeds:
        a, b = args.seeds.split("..")
        lo, n = int(a), int(b) - int(a)
    for s in range(lo, lo + 3):
        a = nc.run_seed(prop, s)
        b = nc.run_seed(prop, s)
        if a.get("log_hash") != b.get("log_hash") or a.get("states") != b.get("states"):
            log(f"determinism self-check failed for seed {s}")
            return 2
    agg = nc.sweep(prop, lo, n)
    if agg.harness:
        log("harness errors:", agg.harness[:3])
        return 2
    try:
        sc = nc.gen_scenario(prop, lo)
        agg.samples.append({"seed": lo, "pool": sc["pool"], "txs_head": sc["txs"][:4], "ops_head": sc["ops"][:30]})
    except HarnessError:
        pass
    unknown = nc.triage(prop, agg)
    if prop == "C04" and not args.seeds:
        # chain-mode part: rule-breaking transactions (capacity, occupied size, NervosDAO maximum
        # withdraw, time lock, missing proposal) committed by blocks anywhere in a tree with reorgs
        nc.set_mode("")
        n2 = 300 if tier == "quick" else 15000
        lo2 = seed_lo(44)
        agg2 = nc.sweep(prop, lo2, n2)
        if agg2.harness:
            log("harness errors:", agg2.harness[:3])
            return 2
        unknown += nc.triage(prop, agg2)
        # merge the counters of the two parts
        agg.runs += agg2.runs; agg.nontrivial += agg2.nontrivial; agg.steps += agg2.steps; agg.sim_ms += agg2.sim_ms
        agg.inter |= agg2.inter; agg.nontrivial_inter |= agg2.nontrivial_inter; agg.states |= agg2.states
        for k, v in agg2.faults.items():
            agg.faults[k] = agg.faults.get(k, 0) + v
        for k, v in agg2.probes.items():
            agg.probes[k] = agg.probes.get(k, 0) + v
        agg.fail += agg2.fail
        try:
            sc = nc.gen_scenario(prop, lo2)
            agg.samples.append({"part": "chain mode", "seed": lo2, "cfg": sc["cfg"], "tree_blocks": len(sc["tree"]), "tree_head": sc["tree"][:3], "ops_head": sc["ops"][:20]})
        except HarnessError:
            pass
        nc.set_mode("pool-")
    wall = time.time() - t0
    cov = nc.evidence_cov(agg, wall, cfg["rule"])
    cov["real_components"] = REAL
    cov["stubbed_components"] = STUB
    cov["abstract_state_measure"] = "fingerprint after every check of (pool entries, pending/gap/proposed counts, verify-queue length, orphan count, live simulator tasks)"
    write_evidence(prop, tier, "exploration", cov, wall, unknown, cfg["assumptions"])
    log(f"[{prop}] {agg.runs} runs, {len(agg.fail)} failing, {wall:.0f}s")
    return 1 if unknown else 0
