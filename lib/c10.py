"""C10 — freezing is invisible to every chain query and survives crashes (simnode with the freezer on).
Three parts: (A) seeded histories with freeze passes at arbitrary points, forks at heights that get
frozen and clean restarts, every query checked against the reference model after every pass;
(B) twin runs freezer on / freezer off on the same effective operation list, answers compared;
(C) for sampled histories EVERY crash point inside every freeze pass: each RocksDB write of the
wipe-out (before / after) and each freezer-file append site (head write, index write), with and
without losing the un-fsynced tail of the freezer files."""
import os, time, copy, json
from concurrent.futures import ThreadPoolExecutor
from vlib import *
import nodecheck as nc

PROP = "C10"
ASSUMPTIONS = [
    "toy epochs (2-6 blocks, or doubling from 2-4) so that a 30-90 block history reaches the two-epoch threshold many times; MAX_FREEZE_LIMIT (2000 per pass) is never the binding limit in these histories",
    "ENVELOPE: a branch that leaves the main chain below the freezer's height (a reorganisation deeper than two epochs) is outside of what the freezer is built for; the executor does not deliver such blocks and settles in-flight blocks of such a branch before a pass (counted by probes delivery_below_frozen_height_skipped / freeze_after_settling_deep_branch). With mainnet epochs this needs > 8 hours of hidden majority work.",
    "crash = process death (libc::_exit) at a RocksDB write of the wipe-out or at a ckb-freezer fail point (write-head, write-index); the 'torn' variant additionally truncates the freezer files to a seeded length between their size at the start of the interrupted pass (all fsynced) and their size at death; RocksDB itself keeps every completed write",
    "the freezer thread is replaced by explicit Freeze operations (Shared::verif_freeze = one pass of the loop body); the stop flag is never set",
]


def strip_restarts(sc):
    c = copy.deepcopy(sc)
    c["ops"] = [o for o in c["ops"] if o["op"] not in ("Restart", "Crash")]
    return c


def digest(res):
    return (res.get("extra") or {}).get("c14")


def diff_digest(a, b, what):
    if a is None or b is None:
        return {"property": PROP, "class": f"{what}:no_answers", "detail": "a twin produced no digest"}
    am = dict((k, v) for k, v in a)
    bm = dict((k, v) for k, v in b)
    if am.get("tip") != bm.get("tip"):
        # equal-work tie at the top (first seen wins; the order in which an orphan subtree is released
        # is hash-map order): not comparable. A lighter tip after a crash is caught by the executor's own oracles.
        if what.startswith("crash") or am.get("tip_td") == bm.get("tip_td"):
            return None
        return {"property": PROP, "class": f"{what}:tip", "detail": f"tip {am.get('tip')} vs {bm.get('tip')} with different total difficulty"}
    for k in am:
        if k in bm and am[k] != bm[k]:
            kind = k.split("#")[0].split("[")[0]
            return {"property": PROP, "class": f"{what}:{kind}", "detail": f"{k}: {am[k]} vs {bm[k]}"}
    missing = [k for k in am if k not in bm] + [k for k in bm if k not in am]
    if missing:
        return {"property": PROP, "class": f"{what}:shape", "detail": f"answers only on one side: {missing[:4]}"}
    return None


def twin(seed):
    sc = strip_restarts(nc.gen_scenario(PROP, seed))
    on = nc.exec_scenario(sc)
    if on.get("violation") or on.get("harness_error"):
        return sc, [sc], [on], on.get("violation")
    off = copy.deepcopy(sc)
    off["freezer"] = False
    off["ops"] = (on.get("extra") or {}).get("eff_ops") or sc["ops"]
    r_off = nc.exec_scenario(off)
    v = r_off.get("violation") or diff_digest(digest(on), digest(r_off), "freezer_on_vs_off")
    return sc, [sc, off], [on, r_off], v


def crash_jobs(r0):
    jobs = []
    for (w0, w1, h0, h1, i0, i1) in (r0.get("extra") or {}).get("freeze_windows", []):
        for k in range(w0 + 1, w1 + 1):
            for after in (False, True):
                jobs.append({"op": "Crash", "write": k, "after": after})
        for k in range(h0 + 1, h1 + 1):
            for torn in (False, True):
                jobs.append({"op": "Crash", "write": k, "after": False, "site": "write-head", "torn": torn})
        for k in range(i0 + 1, i1 + 1):
            for torn in (False, True):
                jobs.append({"op": "Crash", "write": k, "after": False, "site": "write-index", "torn": torn})
    return jobs


def report(failing, exec_fn, shrink_keys=("ops",)):
    """failing: list of (scenario-or-twins, violation, kind)"""
    unknown = 0
    by_class = {}
    for item in failing:
        by_class.setdefault(item[1]["class"], []).append(item)
    reported = 0
    for vclass, vs in sorted(by_class.items()):
        k = match_known(PROP, vclass)
        if k:
            print(f"KNOWN-FINDING: property={PROP} {k['what']} [class {vclass}, {len(vs)} run(s)]", flush=True)
            continue
        unknown += len(vs)
        if reported >= 3:
            continue
        reported += 1
        sc, v, kind = vs[0]
        if kind == "single":
            small = Shrinker(nc.exec_scenario, sc, vclass, keys=("ops",), budget=150, simplify=nc.simplify).run()
            small = nc.prune_tree(small)
            r1 = nc.exec_scenario(small); r2 = nc.exec_scenario(small)
            same = bool(r1.get("violation")) and bool(r2.get("violation")) and r1["violation"]["class"] == vclass == r2["violation"]["class"] and r1.get("log_hash") == r2.get("log_hash")
            if not same:
                small = sc
            path = write_replay(PROP, small, v, nc.BIN, {"seed": sc["seed"], "kind": kind, "replay_verified_twice": same})
        else:
            path = write_replay(PROP, {"seed": sc[0]["seed"], "twins": sc}, v, nc.BIN, {"seed": sc[0]["seed"], "kind": kind})
        log(f"[violation] class={vclass} detail={v['detail'][:400]} ({len(vs)} run(s))")
        print(f"VIOLATION property={PROP} replay={path}", flush=True)
    return unknown


def replay(path):
    body = json.load(open(path))
    sc = body["scenario"]
    if "twins" in sc:
        res = [nc.exec_scenario(t) for t in sc["twins"]]
        v = None
        for r in res:
            v = v or r.get("violation")
        if not v and len(res) == 2:
            v = diff_digest(digest(res[0]), digest(res[1]), body["violation"]["class"].split(":")[0])
    else:
        r = nc.exec_scenario(sc)
        v = r.get("violation")
    if v:
        print(f"replayed: class={v['class']} detail={v['detail'][:400]}")
        if match_known(PROP, v["class"]):
            print(f"KNOWN-FINDING: property={PROP} {match_known(PROP, v['class'])['what']}")
            return 0
        print(f"VIOLATION property={PROP} replay={path}")
        return 1
    print("replayed: no violation")
    return 0


def run(tier, args):
    build(["simnode"])
    if args.replay:
        return replay(args.replay)
    t0 = time.time()
    n_a, n_b, n_c = (260, 40, 5) if tier == "quick" else (30000, 4000, 400)
    lo = seed_lo(10)
    if args.seeds:
        a, b = args.seeds.split("..")
        lo, n_a = int(a), int(b) - int(a)
        n_b = max(1, n_a // 6); n_c = max(1, n_a // 50)
    for s in range(lo, lo + 3):
        a = nc.run_seed(PROP, s); b = nc.run_seed(PROP, s)
        if a.get("log_hash") != b.get("log_hash") or a.get("states") != b.get("states"):
            log(f"determinism self-check failed for seed {s}")
            return 2
    failing = []
    # ---- A
    agg = nc.sweep(PROP, lo, n_a)
    for seed, v in agg.fail:
        try:
            failing.append((nc.gen_scenario(PROP, seed), v, "single"))
        except HarnessError:
            failing.append(({"seed": seed, "prop": PROP, "ops": []}, v, "single"))
    try:
        sc = nc.gen_scenario(PROP, lo)
        agg.samples.append({"seed": lo, "cfg": sc["cfg"], "tree_blocks": len(sc["tree"]), "ops_head": sc["ops"][:25]})
    except HarnessError:
        pass
    # ---- A2: long main chains (270-420 blocks: heights above 255, whose little-endian key bytes no longer
    # sort like the numbers), constant toy epochs, the same operations and oracles
    n_long = 0 if args.seeds else (16 if tier == "quick" else 1500)
    fails_before = len(agg.fail)
    nc.sweep("C10L", lo + 30_000_000, n_long, agg=agg)
    for seed, v in agg.fail[fails_before:]:
        try:
            failing.append((nc.gen_scenario("C10L", seed), v, "single"))
        except HarnessError:
            failing.append(({"seed": seed, "prop": PROP, "ops": []}, v, "single"))
    # ---- B
    twins = 0
    answers = 0
    with ThreadPoolExecutor(8) as ex:
        for sc, scs, res, v in ex.map(twin, range(lo + 10_000_000, lo + 10_000_000 + n_b)):
            for r in res:
                agg.add(r)
            twins += 1
            answers += len(digest(res[0]) or [])
            if v:
                failing.append((scs[0], v, "single") if len(scs) == 1 else (scs, v, "twin"))
    # ---- C
    points = 0
    hist = []
    with ThreadPoolExecutor(16) as ex:
        for h in range(lo + 20_000_000, lo + 20_000_000 + n_c):
            sc = strip_restarts(nc.gen_scenario(PROP, h))
            r0 = nc.exec_scenario(sc)
            agg.add(r0)
            if r0.get("harness_error"):
                continue
            if r0.get("violation"):
                failing.append((sc, r0["violation"], "single"))
                continue
            jobs = crash_jobs(r0)
            # a few double crashes: the second death during recovery / the next pass
            import random
            rnd = random.Random(h)
            singles = list(jobs)
            for _ in range(min(8, len(singles))):
                j = rnd.choice(singles)
                jobs.append([j, {"op": "Crash", "write": rnd.randint(1, 10), "after": rnd.random() < 0.5}])
            scs = []
            for j in jobs:
                c = copy.deepcopy(sc)
                c["ops"] += j if isinstance(j, list) else [j]
                scs.append(c)
            res = list(ex.map(nc.exec_scenario, scs))
            for c, r in zip(scs, res):
                agg.add(r)
                points += 1
                v = r.get("violation") or (None if r.get("harness_error") else diff_digest(digest(r0), digest(r), "crash_vs_never_crashed"))
                if v:
                    failing.append((c, v, "single") if r.get("violation") else ([sc, c], v, "twin"))
            hist.append({"seed": h, "blocks": len(sc["tree"]), "ops": len(sc["ops"]), "freeze_passes": len((r0.get("extra") or {}).get("freeze_windows", [])), "crash_points": len(jobs)})
    if agg.harness:
        log("harness errors:", agg.harness[:3])
        return 2
    unknown = report(failing, nc.exec_scenario)
    wall = time.time() - t0
    cov = nc.evidence_cov(agg, wall,
        "one evaluation = one simulated run of the real node with the freezer enabled (real ckb-freezer files, Shared::freeze / wipe_out_frozen_data, ChainDB freezer branches). (A) seeded histories of 30-90 blocks over toy epochs with forks at heights that later get frozen, uncles, proposals, extensions, orphan-first and duplicate deliveries, 4-13 freeze passes at arbitrary operation indexes (also with blocks in flight in the chain stages), orphan-cleaner ticks and clean restarts; after EVERY pass, after every restart and at the end: for every main-chain block get_block / get_packed_block / header / body / tx hashes / cellbase / uncles / proposals / extension / get_ancestor / get_transaction_with_info must return exactly what the reference model built, the full store state must equal the model's replay (live cells, tx index, epochs, BlockExt, MMR), Freezer::number must not decrease, must stay at or below the last block of epoch(tip)-2 and at 1 before the third epoch; queries for delivered side-chain blocks at frozen heights must answer None or that very block, never another block's data, never panic. (B) the same history with the freezer off (executing the same effective operations): every answer about main-chain blocks and every verdict must be identical. (C) per sampled history every crash point inside every pass (see coverage.crash_points_enumerated) then restart: reopen must succeed, all of the above must hold after recovery and at the end the answers must equal the never-crashed run's when the tip is the same. distinct = hash of the executed operation/segment sequence; non-trivial = at least one block was moved into the freezer A further family (16 runs quick / 1500 thorough) uses main chains of 270-420 blocks with constant toy epochs, so that frozen and unfrozen heights lie on both sides of 255 (the number-hash keys are little-endian: byte order stops matching numeric order there).",
        {"twin_pairs_compared": twins, "answers_compared_per_twin_total": answers, "crash_histories": hist[:50], "crash_points_enumerated": points,
         "enumeration": "per sampled history: every RocksDB write inside every freeze pass x {die before, die after}; every hit of the ckb-freezer fail points write-head and write-index inside every pass x {process death, process death + loss of a seeded part of the un-fsynced tail}; plus seeded double crashes"})
    cov["real_components"] = nc.REAL + ["ckb-freezer (Freezer, FreezerFiles: real files on tmpfs), Shared::freeze, wipe_out_frozen_data, compact_block_body, ChainDB::new_with_freezer and every freezer branch of ChainStore"]
    cov["stubbed_components"] = nc.STUB + ["the freezer thread and its timer (explicit Freeze operations through Shared::verif_freeze)", "power loss is modelled for the freezer files only (seeded truncation back towards the last fsync); RocksDB keeps all completed writes"]
    write_evidence(PROP, tier, "exploration", cov, wall, unknown, ASSUMPTIONS)
    log(f"[{PROP}] {agg.runs} runs ({twins} twin pairs, {points} crash points), {len(failing)} failing, {wall:.0f}s")
    return 1 if unknown else 0
