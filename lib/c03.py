import nodeprop
def run(tier, args):
    return nodeprop.run("C03", tier, args)
