#!/bin/bash
# Runs the thorough tier of every claimed check sequentially; log per property under /dev/shm/thorough/
mkdir -p /dev/shm/thorough
cd /verif
for p in ${@:-C09 C17 C05 C18 C16 C04 C11 C12 C13 C19 C20 C03 C06 C02 C01 C14 C10 C08 C07}; do
  t0=$(date +%s)
  ./check $p thorough > /dev/shm/thorough/$p.log 2>&1
  rc=$?
  echo "$p rc=$rc $(( $(date +%s) - t0 ))s :: $(grep -E 'VIOLATION|KNOWN-FINDING|^\[C' /dev/shm/thorough/$p.log | tail -3 | tr '\n' '|' | cut -c1-300)" >> /dev/shm/thorough/SUMMARY.txt
done
echo THOROUGHDONE >> /dev/shm/thorough/SUMMARY.txt
