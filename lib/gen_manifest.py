#!/usr/bin/env python3
"""Writes /verif/MANIFEST.json from the table below (kept in one place so it stays valid)."""
import json, os
V = os.path.dirname(os.path.dirname(os.path.abspath(__file__)))
ALL = [f"C{i:02d}" for i in range(1, 21)]

CHECKS = {
 "C09": dict(engine="simfrz", category="fault_enumeration", design_ref="§8 C09, §5 E-FRZ",
   technique="deterministic simulation of freezer file histories with injected crash states (enumerated cut rectangles, failpoint deaths) against a vector model",
   text="Seeded append/truncate/reopen/retrieve histories run against the real FreezerFiles/Freezer code on tmpfs with a vector-of-items model; crash states are constructed by cutting the head data file and INDEX independently; for seeded short histories EVERY (head length, INDEX length) pair of the legal rectangle plus missing/empty new head is tried (fault enumeration), random cuts and failpoint deaths inside append beyond that. Right level: the crash-state space per history is finite and small, so it is enumerated; histories are sampled.",
   note="Process-death crash model (completed writes survive, unsynced tail may be cut, rolled-over files intact); std::fs, snap and tmpfs semantics trusted; histories sampled, not enumerated."),
}

NA = {
 "C15": "pure encode/decode and hash functions of one value: no schedule, clock, fault or interleaving for a simulator to own (DESIGN.md §8 C15)",
}
PENDING = "engine not built yet in this session (see DESIGN.md §13 build order); not claimed"

def main():
    checks = []
    for pid in ALL:
        if pid in CHECKS:
            c = CHECKS[pid]
            checks.append({
                "property_id": pid,
                "quick_cmd": f"./check {pid} quick",
                "thorough_cmd": f"./check {pid} thorough",
                "evidence_file": f"/verif/evidence/{pid}.json",
                "replay_cmd_template": f"./check {pid} --replay {{path}}",
                "engine": c["engine"],
                "level_claimed": {"category": c["category"], "text": c["text"], "design_ref": c["design_ref"]},
                "level_note": c["note"],
                "technique": c["technique"],
            })
    na = [{"property_id": p, "reason": NA.get(p, PENDING)} for p in ALL if p not in CHECKS]
    hooks_commits = []
    hc = os.path.join(V, "hook_commits.txt")
    if os.path.exists(hc):
        hooks_commits = [l.split()[0] for l in open(hc) if l.strip()]
    m = {
        "version": 1,
        "setup_cmd": "cd /verif/sim && ( [ -f Cargo.lock ] || cp /repo/Cargo.lock Cargo.lock ) && CARGO_NET_OFFLINE=true cargo build --release --offline",
        "hooks": {
            "guard": "cargo feature `verif-hooks` (per crate, off by default)",
            "enable": "the simulator crates under /verif/sim depend on /repo crates by path with features=[\"verif-hooks\"]; nothing in /repo enables it",
            "baseline_off_cmd": "cd /repo && cargo nextest run --workspace --no-fail-fast --test-threads 8 --offline || cargo test --workspace --no-fail-fast --offline",
            "source_commits": hooks_commits,
            "add_only": True,
        },
        "engines": [
            {"name": "simfrz", "path": "/verif/sim/simfrz", "serves_properties": ["C09"], "kind_free_text": "in-process deterministic simulation of freezer files with crash-state construction"},
        ],
        "checks": checks,
        "not_applicable": na,
        "notes": "All checks: ./check <ID> <quick|thorough>; exit 0 held, 1 violation (VIOLATION line + replay file), 2 harness error. Known findings: /verif/known_findings.json.",
    }
    json.dump(m, open(os.path.join(V, "MANIFEST.json"), "w"), indent=1)
main()
