#!/usr/bin/env python3
"""Writes /verif/MANIFEST.json from the table below (kept in one place so it stays valid)."""
import json, os
V = os.path.dirname(os.path.dirname(os.path.abspath(__file__)))
ALL = [f"C{i:02d}" for i in range(1, 21)]

CHECKS = {
 "C09": dict(engine="simfrz", category="fault_enumeration", design_ref="§6 C09, §4 simfrz",
   technique="deterministic simulation of freezer file histories with injected crash states (enumerated cut rectangles, failpoint deaths) against a vector model",
   text="Seeded append/truncate/reopen/retrieve histories run against the real FreezerFiles/Freezer code on tmpfs with a vector-of-items model; crash states are constructed by cutting the head data file and INDEX independently; for seeded short histories EVERY (head length, INDEX length) pair of the legal rectangle plus missing/empty new head is tried (fault enumeration), random cuts and failpoint deaths inside append beyond that. Right level: the crash-state space per history is finite and small, so it is enumerated; histories are sampled.",
   note="Process-death crash model (completed writes survive, unsynced tail may be cut, rolled-over files intact); std::fs, snap and tmpfs semantics trusted; histories sampled, not enumerated."),
}

NODE_NOTE = "Trusted base: ckb-types builders/views/hashes, RocksDB, the reference model in sim/simnode/src/model.rs (written from the property texts and RFCs 0020/0044, exact arithmetic via num-bigint-dig). One simulated run per OS process; seeded search over histories and schedules, not exhaustive."
def node(design, technique, text):
    return dict(engine="simnode", category="exploration", design_ref=design, technique=technique, text=text, note=NODE_NOTE)
CHECKS.update({
 "C01": node("§6 C01, §4 simnode", "deterministic simulation of block delivery order/duplication/orphans and chain-stage interleaving against a max-work-valid-chain reference model",
   "Seeded random block trees (forks, competing branches, clock-driven uneven difficulty, single-rule-invalid blocks anywhere) are delivered in seeded orders with duplicates to the REAL chain stages (insert/preload/verify/orphan cleaner) stepped by the simulator; the final tip must carry the maximal work of any fully valid chain formable from the delivered set, the tip history must have strictly increasing work, every connectable block must be connected. Node panics are violations. Exploration is the right level: the space of trees x permutations x interleavings is unbounded; each run is exactly replayable from its scenario file."),
 "C02": node("§6 C02, §4 simnode", "deterministic simulation of reorg histories with snapshot readers and restarts; full column-by-column comparison with a replay model",
   "At every quiescent point, after every restart and inside every snapshot captured at a simulator-chosen step, every row of the canonical-chain columns (cells, cell data, tx info, index, uncles, epochs, block ext, MMR roots) is compared with the model's replay of the stored tip's chain."),
 "C03": node("§6 C03, §4 simnode", "deterministic simulation: model-built valid blocks (incl. real proof-of-work nonces mined by the model and boundary timestamps against the simulated node clock) and single-rule mutants (incl. blocks one byte / one transaction / one proposal above small consensus limits, with valid blocks exactly at them) delivered in random histories through the pipeline header check (as submit_block runs it) then chain stages; refusal atomicity checked against the replay model",
   "Blocks valid by construction (independent builder) must pass the header stage at the node's simulated clock and be attached when heaviest; blocks with exactly one named rule violation (header: timestamp at the past median, number, malformed epoch, nonce above target; structure: cellbase shape, merkle commitments, duplicates; DAO, target, epoch, reward, extension/chain root; seven uncle rules; two-phase commit, time locks, rule-breaking transactions) anywhere in the tree must never be attached or marked verified, header-only mutants must be refused by the header stage, and a refused reorganisation must leave the stored state equal to the old tip's replay. Two genuine panics found and fixed (c8f575a, c75ef89)."),
 "C06": node("§6 C06, §4 simnode", "deterministic simulation with an independent issuance model (reward split, first-proposer rule, DAO accumulation) as block builder and monitor",
   "Every cellbase and DAO field is computed by the model from the property text; the node must accept exactly those blocks and reject +-1 mutants; header U must equal the occupied capacity of the stored live cells; every main-chain cellbase must equal the property-text reward. One genuine deviation (proposer share for target block 1) is a recorded known finding."),
 "C19": node("§6 C19, §4 simnode chain mode", "deterministic simulation; from-scratch MMR (own RFC 0044 merge) as block builder and monitor across reorgs and restarts; membership proofs generated from the node's stored MMR verified against the model; block-filter builder run as simulator-placed passes and compared with model-derived filters and hash chain",
   "Every block on every fork commits to the naive MMR root over its ancestors (equality enforced through the node's own verifier on model-built blocks), wrong roots are rejected, after every reorg/restart the node's chain_root_mmr roots equal the naive ones, proofs for seeded position sets verify against the model's root and leaves and against nothing else, and after every filter-builder pass (lagging by blocks, reorgs, restarts) every main-chain block's filter matches exactly its scripts and the filter hashes chain."),
 "C20": node("§6 C20, §4 simnode + process restarts", "deterministic simulation of reorgs relative to the proposal window with clean restarts (new OS process) at arbitrary operation indexes",
   "After every tip change and after every restart (start-up reconstruction path) the snapshot's proposal view {set, gap} must equal the union over the model's window, for windows 1..3 / 2..11, chains shorter than the window and reorgs deeper than it. At every tip change the ids the chain service reports as dropped (what the tx-pool is told; recorded by a hook) must equal the committable set at the old tip minus the committable set at the new tip, both derived from the model's chains."),
})
CHECKS["C07"] = node("§6 C07 (partial claim), §4 simnode long-epoch family", "deterministic simulation of long-epoch chains mined on a skewed/stalling/jumping simulated clock with varying uncle rates; node's epoch transitions vs exact big-rational re-computation plus issuance and conversion monitors",
   "PARTIAL: (proof of work) under the real Eaglesong / EaglesongBlake2b engines the header stage must accept exactly the nonces the model's own reading of the rule accepts, and blocks or uncles whose only flaw is a nonce above the target, or a target other than the epoch's, must never be attached; (epochs) for every epoch transition reached by simulated histories (300-1800 block epochs, clock regimes from 1 ms to days per block, uncle rates 0-20%, halvings) the node's next-epoch length, hash-rate estimate, difficulty/compact target and rewards must equal an independent exact-arithmetic evaluation, stay within the consensus bounds and the x2 dampening, epoch fields must be gap-free, per-epoch reward sums must equal scheduled issuance, and compact/target/difficulty conversions must agree with an independent implementation. Not decided: the same over all u64/U256 inputs and all compact encodings (pure functions without schedule, clock or fault, outside this technique); a header hash exactly equal to its target is not reachable by nonce search.")
CHECKS["C14"] = node("§6 C14, §4 simnode twins", "deterministic simulation run on twin nodes that differ only in cache configuration (store read caches default/0/1/mixed, verification cache warm or emptied before every verify step); differential comparison of every verdict and query answer, plus failing-witness twins of cached transactions; second part: pool-mode twins (same hand-polled task schedule, verification cache warm / emptied before every task poll and verify step, store caches on/off) comparing every submission result, pool content at rest, template and recorded fee/cycles on the pool-then-block path",
   "Each seeded scenario is executed by four twin nodes; all block verdicts, BlockExt records (minus received_at) and the answers of the chain queries for every block ever delivered - including invalid blocks that were stored and deleted - must be identical. Scenarios plant an otherwise identical sibling of a verified block whose committed transaction carries a failing witness under the same tx hash and make that branch heavier, so a cache keyed by anything less than the witness hash, or a skipped script run on a hit, attaches an invalid block. Found (as C01/C14) the stale StoreCache after delete_block, fixed in c00ffd0.")
CHECKS["C10"] = dict(engine="simnode", category="exploration", design_ref="§6 C10, §4 simnode with the freezer on + E-CRASH",
   technique="deterministic simulation of block-import histories with freeze passes at arbitrary points on the real node (real ckb-freezer files), every chain query checked against the reference model after every pass; freezer-on/off twin runs; process death at every write and freezer fail point inside every pass, with seeded loss of the un-fsynced freezer tail; the per-pass freeze limit is a knob (1-8 blocks in half of the runs) so that passes stop at it and the next pass continues from the previous frozen height",
   text="Seeded histories over toy epochs (forks at heights that later get frozen, uncles, proposals, extensions, orphans, duplicates, restarts) with explicit freeze passes; after every pass / restart / at the end every main-chain block and each of its parts, every transaction with its location, ancestor lookups and the full live-cell state must read exactly as the model built them, Freezer::number is monotone, at or below the last block of epoch(tip)-2, and side-chain blocks at frozen heights answer None or themselves. Twin runs with the freezer off must give identical answers. For sampled histories every crash point inside every pass is enumerated (RocksDB writes of the wipe-out before/after, freezer write-head / write-index sites, with and without losing the un-fsynced tail). Five genuine defects found and fixed (8b5c6e5, c24557f, ba9dd17, bc0a2f4, b0dc427).",
   note=NODE_NOTE + " Envelope: reorganisations reaching below the freezer's height (> 2 epochs deep) are not generated (the freezer cannot undo them by design).")
CHECKS["C08"] = dict(engine="simnode", category="fault_enumeration", design_ref="§6 C08, §4 simnode segments",
   technique="deterministic simulation with process death injected at every durable write of a seeded import history (restart = new OS process on the same directories), checked against the replay model",
   text="For each seeded block-import history a fault-free run counts the durable writes W; then EVERY write index 1..W x {before, after} is tried as a process death (libc::_exit in the ckb-db write hook), plus seeded double crashes during recovery. After each restart: reopen succeeds, the store equals the model's replay of the tip it reports, work never decreases, stored-unverified blocks are picked up, the proposal view matches; after the remaining deliveries the node reaches the heaviest valid chain and the never-crashed state. Fault enumeration is right because the crash-point space of one history is finite (W writes); histories are sampled.",
   note=NODE_NOTE + " Crash model: process death, not power loss below the OS page cache.")
POOL_NOTE = NODE_NOTE + " Pool task mode: the tx-pool service loops are replaced by hand-polled futures with explicit yield points (ckb_tx_pool::verif); interleavings are explored at task and yield-point granularity, not at every await."
def pool(design, technique, text):
    return dict(engine="simnode", category="exploration", design_ref=design, technique=technique, text=text, note=POOL_NOTE)
CHECKS.update({
 "C11": pool("§6 C11, §4 simnode pool task mode", "deterministic simulation of pool operation histories (submit/RBF/remove/expire/evict/reorg) with hand-polled pool tasks; full recomputation of the pool's bookkeeping from a dump after every task",
   "After every completed pool task the dump of entries, links, edges, ancestor/descendant aggregates, per-status counters and totals is recomputed from the entries alone and compared; the ancestor limit and double-spend freedom are checked. Two genuine defects in the incremental aggregate maintenance were found and fixed."),
 "C04": pool("§6 C04, §4 simnode pool task mode with probes", "deterministic simulation of pool/chain histories with boundary-value probe transactions (since, maturity, capacity, liveness, cell / header deps, dep groups, cycle limit) evaluated through the real pool (dry-run accept) and through the node's block verification, against an independent rule evaluator over the reference model's context",
   "At arbitrary points of seeded histories (reorgs, mined templates, pooled ancestors) probe transactions with exactly one field at/just before/just after a rule boundary (six since kinds and malformed encodings, cellbase maturity, capacity and occupied size, liveness/duplicates, cell and header deps, a witness-dependent lock) are judged by the pool and by block verification; the verdicts must equal the evaluator's in both directions. A chain-mode part commits conflicting twins of valid candidates that break one rule of their own (capacity, occupied size, NervosDAO maximum withdraw) through mutant blocks anywhere in trees with reorganisations. Exploration is the right level: contexts x probes is unbounded; boundaries are hit by construction because probes are built from the context at probe time."),
 "C12": pool("§6 C12, §4 simnode pool task mode", "deterministic simulation interleaving submissions (suspended at yield points), mined templates and model-built competing branches; pool vs reference-chain model at quiescent points",
   "At every quiescent point the pool must hold no committed transaction, no transaction whose input/dep is unknown to chain+pool, no double spend, and every entry's stage must equal the model's proposal-window membership. Three genuine defects (stale gap stage after reorg, expiry orphaning descendants, children of un-re-addable detached transactions) were found and fixed. The 'admissible detached txs are back' direction is not asserted."),
 "C13": pool("§6 C13, §4 simnode pool task mode", "deterministic simulation: templates requested at simulator-chosen instants (also under consensus limits small enough to be reached) are sealed and fed to the node's own chain stages; self-oracle plus independent model re-derivation; time-locked pool transactions with reorganisations to shorter heavier branches",
   "Every template requested (also while block-assembler updates are still queued, right after reorgs, with uncles/proposals/commits) is sealed and imported by the same node: it must be accepted and become the tip when it names the tip, transactions parents-first; the reference model re-derives epoch, reward, DAO, chain root, window and uncle rules for each. Templates naming a stale parent are only stored as side blocks; they are counted as not verified, never as passes."),
})

CHECKS["C17"] = dict(engine="simstruct", category="exploration", design_ref="§6 C17, §4 simstruct",
   technique="deterministic simulation of operation histories on the real OrphanBlockPool, InflightBlocks (simulated clock), HeaderMap (simulator-placed spills, real sled tier) and skip-list ancestor/locator lookup against trivial reference models; bounded-exhaustive for short sequences, seeded random beyond",
   text="Each structure is driven by seeded operation sequences and compared with a map/set/parent-walk model after every operation; spills of the header map are simulator decisions placed between operations, request time-outs run on the simulated clock; all operation sequences up to a small length are enumerated, longer ones sampled. Oracles are one-sided exactly where the code is free (which peers prune evicts, release of non-leaders).",
   note="Real structures through verif-hooks re-exports; concurrent access to a structure is not explored (the property places spills between operations); OrphanBlockPool::get_block is not covered.")

CHECKS["C05"] = dict(engine="simscript", category="exploration", design_ref="§6 C05, §4 simscript",
   technique="deterministic simulation of script execution interruption: chunk partitions (all single split points for small programs), captured-state rebuilds, and Suspend/Resume/Stop signals delivered at simulator-chosen VM cycle counts through a SimMachine wrapper, compared with the uninterrupted run",
   text="For a corpus of 45 program cases (VM 0/1/2; exec, spawn/pipe/wait trees incl. generated spawn DAGs, syscalls, secp256k1, TYPE_ID) the uninterrupted verify() gives (verdict, cost); every explored interruption schedule (chunk budgets, state dropped and rebuilt, signal schedules pinned to exact cycle counts, budgets cost-1/cost/cost+1) must give the same verdict and total cycles, budgets below cost must report the cycle limit. One defect fixed (budget restarting after a pause), one recorded as known finding (suspension with unprocessed pipe I/O).",
   note="Real TransactionScriptsVerifier/Scheduler/ckb-vm with the repo's compiled test programs; mock data loader; the signal path is driven through the generic DefaultMachineRunner seam (SimMachine), tokio runtime hand-driven. Programs are a fixed corpus plus generated spawn DAGs, not all programs.")

CHECKS["C16"] = dict(engine="simpeer", category="exploration", design_ref="§6 C16, §4 simpeer",
   technique="deterministic simulation of a corrupting transport feeding the real decoders/accessors/context-free verifiers and the real Synchronizer/Relayer/LightClient/BlockFilter handlers, plus simulated relay rounds through the real Relayer::reconstruct_block with seeded pool contents and peer answers",
   text="Second half (genuine simulation of relay state): compact blocks with random/illegal prefilled sets, pools holding random subsets plus colliding entries, peer answers that are subsets/supersets/wrong content; the result must be exactly the committed block, a precise Missing report, or a Collided/Error verdict, never another block. First half: valid messages of every protocol corrupted by seeded transport faults (bit flips, truncation, splices, extreme length fields, compress flag) must decode-or-fail without panic, within the decompression bound, canonically re-encode, and survive every accessor and context-free verifier; this half is generated-input checking carried by a transport-corruption fault and is labelled so in the evidence. Seven panics reachable from untrusted bytes were fixed; three accessor-level/third-party ones are recorded as known findings.",
   note="One real node per OS process for the reconstruct/handlers parts (RocksDB on tmpfs, tx-pool service, SyncShared, Relayer, SimChain); short-id collisions are emulated; network-private handlers (ping, discovery, identify) are only decoded and walked.")
CHECKS["C18"] = dict(engine="simidx", category="exploration", design_ref="§6 C18",
   technique="deterministic simulation of an indexer-sync actor following a simulated chain through reorganisations (append/rollback/lag/prune) against the real ckb-indexer; answers compared with a naive filter over the model's live cells and transaction history; rollback-inverts-append checked on answers and KV rows",
   text="After every append and rollback the real Indexer's tip, get_cells, get_transactions (grouped/ungrouped) and get_cells_capacity for generated search keys (exact/prefix, all filter kinds, both orders, cursor paging to exhaustion) must equal a direct filter over the model chain ending at the indexer's tip; arriving at a block by rollback must restore the answers and the live-prefix KV rows recorded when it was first appended, within the retention bound derived from prune. One defect fixed, two recorded as known findings (prefix key bleed, tip after rolling back genesis).",
   note="Real Indexer over RocksDB (tmpfs) through a verif-hooks wrapper; the sync actor mimics IndexerSyncService::try_loop_sync; rich-indexer (sqlite), custom rhai filters, the pool overlay and the real sync service/secondary DB are not covered.")

NA = {
 "C15": "pure encode/decode and hash functions of one value: no schedule, clock, fault or interleaving for a simulator to own (DESIGN.md §6 C15)",
}
PENDING = "engine not built yet in this session (see DESIGN.md §13 build order); not claimed"

def main():
    checks = []
    for pid in ALL:
        if pid in CHECKS:
            c = CHECKS[pid]
            checks.append({
                "property_id": pid,
                "quick_cmd": f"./check {pid} quick",
                "thorough_cmd": f"./check {pid} thorough",
                "evidence_file": f"/verif/evidence/{pid}.json",
                "replay_cmd_template": f"./check {pid} --replay {{path}}",
                "engine": c["engine"],
                "level_claimed": {"category": c["category"], "text": c["text"], "design_ref": c["design_ref"]},
                "level_note": c["note"],
                "technique": c["technique"],
            })
    na = [{"property_id": p, "reason": NA.get(p, PENDING)} for p in ALL if p not in CHECKS]
    hooks_commits = []
    hc = os.path.join(V, "hook_commits.txt")
    if os.path.exists(hc):
        hooks_commits = [l.split()[0] for l in open(hc) if l.strip()]
    m = {
        "version": 1,
        "setup_cmd": "cd /verif/sim && ( [ -f Cargo.lock ] || cp /repo/Cargo.lock Cargo.lock ) && CARGO_NET_OFFLINE=true cargo build --release --offline",
        "hooks": {
            "guard": "cargo feature `verif-hooks` (per crate, off by default)",
            "enable": "the simulator crates under /verif/sim depend on /repo crates by path with features=[\"verif-hooks\"]; nothing in /repo enables it",
            "baseline_off_cmd": "cd /repo && cargo nextest run --workspace --no-fail-fast --test-threads 8 --offline || cargo test --workspace --no-fail-fast --offline",
            "source_commits": hooks_commits,
            "add_only": True,
        },
        "engines": [
            {"name": "simfrz", "path": "/verif/sim/simfrz", "serves_properties": ["C09"], "kind_free_text": "in-process deterministic simulation of freezer files with crash-state construction"},
            {"name": "simpeer", "path": "/verif/sim/simpeer", "serves_properties": ["C16"], "kind_free_text": "corrupting-transport simulation over decoders/handlers and simulated relay rounds through the real Relayer"},
            {"name": "simidx", "path": "/verif/sim/simidx", "serves_properties": ["C18"], "kind_free_text": "in-process simulation of indexer sync through reorgs against a naive filter model"},
            {"name": "simscript", "path": "/verif/sim/simscript", "serves_properties": ["C05"], "kind_free_text": "in-process deterministic simulation of script-execution interruption (chunks, captured state, signals at exact cycle counts)"},
            {"name": "simstruct", "path": "/verif/sim/simstruct", "serves_properties": ["C17"], "kind_free_text": "in-process deterministic simulation of sync bookkeeping structures against reference models"},
            {"name": "simnode", "path": "/verif/sim/simnode", "serves_properties": [p for p in CHECKS if CHECKS[p]["engine"] == "simnode"], "kind_free_text": "one real node (RocksDB, Shared, chain stages, verification) per OS process under a seeded step scheduler with a reference chain model; restarts and crashes are new OS processes on the same directories"},
        ],
        "checks": checks,
        "not_applicable": na,
        "notes": "All checks: ./check <ID> <quick|thorough>; exit 0 held, 1 violation (VIOLATION line + replay file), 2 harness error. Known findings: /verif/known_findings.json.",
    }
    json.dump(m, open(os.path.join(V, "MANIFEST.json"), "w"), indent=1)
main()
