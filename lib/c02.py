import nodeprop
def run(tier, args):
    return nodeprop.run("C02", tier, args)
