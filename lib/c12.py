import poolprop
def run(tier, args):
    return poolprop.run("C12", tier, args)
