#!/bin/bash
# usage: seedtest.sh <patch.diff> <PROP> [tier] ; applies a seeded change to /repo, runs the check, reverts
set -u
patch=$1; prop=$2; tier=${3:-quick}
cd /repo
if [ -n "$(git status --short)" ]; then echo "REPO DIRTY: $(git status --short | head -3)"; exit 3; fi
git apply "$patch" || { echo "patch does not apply"; exit 3; }
cd /verif
export VERIF_EVIDENCE_DIR=/dev/shm/seedtest-evidence VERIF_REPLAY_DIR=/dev/shm/seedtest-replays
mkdir -p $VERIF_EVIDENCE_DIR $VERIF_REPLAY_DIR
out=$(./check $prop $tier 2>&1 | grep -v conda | tail -4)
rc=$?
echo "$out"
cd /repo && git checkout -- . 
echo "result: $(echo "$out" | grep -c VIOLATION) violation line(s)"
