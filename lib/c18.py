"""C18 — the indexer's answers equal filtering the chain's live cells and transactions (engine simidx).

Two real indexers are driven through the same scenario generator, chain model and oracles:
ckb-indexer (RocksDB; parts main_domain / known_deviation_domains) and ckb-rich-indexer (SQLite;
parts rich / rich_known_deviation_domains, violation classes prefixed "rich:")."""
import os, time, json, subprocess
from vlib import *
from batchcheck import *

PROP = "C18"
BIN = os.path.join(TARGET, "simidx")

ASSUMPTIONS = [
    "the chain is the simulator's own block tree (ckb-types builders; parent linkage and resolvable, never double-spent inputs; no consensus validity, which Indexer::append does not look at); a cellbase is always transaction 0 and carries the block number in its input, so a transaction hash occurs at most once per chain",
    "the indexer-sync actor is a re-implementation of one iteration of IndexerSyncService::try_loop_sync (rollback while the indexer tip is not the parent of main-chain block tip+1, else append it) over the simulator's chain; SecondaryDB, the notify watcher and the poll timer are not run. Sync steps, manual rollbacks, chain growth, branch switches and queries interleave one operation at a time (no concurrent reader during a write batch)",
    "retention: a rollback (by the sync actor or manual) is only issued while (highest block number ever appended) - (number of the block that becomes the tip) <= keep_num, the bound derived from prune(); branch switches are clamped to fork points inside that bound. Behaviour beyond the retention is not examined",
    "oracle 1 compares answers with a naive filter written from the RPC documentation (rpc/src/module/indexer.rs): prefix = same code_hash and hash_type and args prefix; exact = identical script; every range [inclusive, exclusive); get_cells filter.script is a prefix match on the other script, get_transactions filter.script an exact match on the other script of the same cell. The order of objects that belong to DIFFERENT scripts of one prefix search is taken to be the byte order of (script, block, tx_index, io_index[, io_type]) — the documentation does not define it; within one script it is chain order",
    "one-sided: for group_by_transaction with prefix search or with a filter (grouping of interleaved rows is documented as unsupported / unspecified) only the flattened (tx, io_type, io_index) sequence and the page-size upper bound are compared; exact group structure and full pages are demanded for exact-script, unfiltered queries only",
    "one-sided: oracle 2 compares, between 'block B was appended and is the tip' and 'the indexer rolled back to B', the answers to a per-scenario fixed query set and the rows of prefixes OutPoint, CellLockScript, CellTypeScript, TxLockScript, TxTypeScript, Header; Header rows of blocks <= tmax - keep_num - 1 may be missing afterwards (prune), nothing else may differ. ConsumedOutPoint and TxHash rows are not compared (rollback leaves ConsumedOutPoint rows behind and prune drops both kinds)",
    "custom block/cell filters (rhai), the tx-pool overlay (Pool::is_consumed_by_pool_tx), init_tip_hash, request_limit and the wall-clock request timeout are not exercised (no filter, no pool, unlimited request size, 24 h timeout)",
    "rich-indexer parts: the real ckb_rich_indexer AsyncRichIndexer::{append, rollback} (the bodies that IndexerSync::{append, rollback} of RichIndexer run with block_on) and AsyncRichIndexerHandle over SQLite (85 % of the runs SQLite's in-memory database with the one-connection pool SQLXPool::connect builds for it, 15 % a database file on tmpfs with the ten-connection pool), every future run to completion by Runtime::block_on of a current-thread tokio runtime owned by the run; the synchronous wrappers RichIndexer / RichIndexerHandle (block_on forwarding through ckb_async_runtime::Handle), RichIndexerService, PostgreSQL, the tx-pool overlay, custom filters and init_tip are not exercised. The sqlx pool's wall-clock timers (acquire 60 s, idle reaper 30 s, lifetime 1800 s) exist but cannot elapse inside a run of a few hundred milliseconds; no path that completes awaits them. One run per worker-thread-owned child process at a time (SQLite's process-global mutexes serialise threads), results absorbed in seed order",
    "rich-indexer oracle 1 uses the semantics documented for RPC module Rich_indexer: script_search_mode partial = same code_hash and hash_type, searched args occur inside the args; get_transactions accepts all seven filter conditions, applied to the cell a row is about (block_range: the block of the row's transaction); get_transactions filter.script is documented without 'prefix' or 'exact' and is taken as prefix like get_cells; order = position on the chain (cells: block, tx_index, output index; transactions: block, tx_index). One-sided: the order of the rows of ONE transaction in an ungrouped answer and of the cells inside one group is undocumented and compared as a set; get_cells_capacity answering null instead of capacity 0 when no live cell matches is accepted (the documentation allows null without saying when; probe capacity_null_for_empty_set); paging follows the documented client rule (a page shorter than limit is the last page)",
    "rich-indexer oracle 2 compares, between 'block B was appended and is the tip' and 'the indexer rolled back to B', the answers to the fixed query set and EVERY row of all nine tables (block, block_association_proposal, block_association_uncle, ckb_transaction, tx_association_header_dep, tx_association_cell_dep, output incl. is_spent, input, script) including the row ids. The rich-indexer never prunes, so every rollback depth is inside its retention; keep_num only bounds the reorg depth the generator asks for (1..12). Blocks of rich scenarios carry 0-2 uncles and 0-2 proposals, transactions 0-2 cell deps and header deps",
    "rich-indexer: one input domain in which the unmodified code deviates (known finding rich:prefix_all_ff_misses_extensions:*, sim/simidx/RICH_FINDINGS.md F2) is explored by the separate part rich_known_deviation_domains and avoided by part rich: a non-empty all-0xff byte string searched as a prefix (script args, filter.script args, filter.output_data) while indexed args/data extend it; the generator of part rich gives no script args starting with 0xff (the args family ff ff 01 is replaced by fe ff 01) and no data extending 'ff'. The repeating cursor of ungrouped get_transactions (F1) was repaired by 8a6319f and is an ordinary input of part rich",
    "three input domains in which the unmodified code deviates are explored by a separate part ('known_deviation_domains') so they cannot mask anything in the main part: searched args that extend an indexed script's args with zero bytes; get_cells_capacity with filter.script_len_range; rolling back block 0",
    "capacities stay below 2^39 per cell so that the u64 sum in get_cells_capacity cannot overflow (the simulator builds the indexer with overflow checks on)",
    "RocksDB (real, default options, in a per-run directory on tmpfs) and molecule/ckb-types are trusted",
]
REAL = [
    "ckb_indexer Indexer<RocksdbStore>::{new, append, rollback, tip, prune} (through the verif-hooks wrapper ckb_indexer::verif::VerifIndexer; keep_num 1..8, prune_interval 1..6)",
    "ckb_indexer IndexerHandle::{get_cells, get_transactions (ungrouped and grouped), get_cells_capacity, get_indexer_tip} incl. search modes, every filter kind, order, limit and cursor paging until exhaustion",
    "ckb_indexer store::RocksdbStore / RocksdbBatch over a real RocksDB on tmpfs",
    "ckb_types block / transaction / script builders and hashing",
]
REAL += [
    "ckb_rich_indexer AsyncRichIndexer::{new, append, rollback} incl. insert.rs / remove.rs (through the verif-hooks wrapper ckb_rich_indexer::verif::VerifRichIndexer) and SQLXPool::connect (table creation, migrations)",
    "ckb_rich_indexer AsyncRichIndexerHandle::{get_cells, get_transactions (ungrouped and grouped), get_cells_capacity, get_indexer_tip} incl. prefix/exact/partial search, every filter kind, order, limit and cursor paging",
    "sqlx 0.8 (Any driver) + bundled SQLite, in memory or in a file on tmpfs; tokio current-thread runtime",
]
STUB = [
    "the chain (simulator-built block tree instead of ChainDB / SecondaryDB)",
    "IndexerSyncService (one try_loop_sync iteration per Sync op, re-implemented)",
    "tx-pool overlay and custom filters (absent)",
    "JSON-RPC transport (IndexerHandle is called in-process with constructed IndexerSearchKey values)",
    "rich-indexer: RichIndexerService / IndexerSyncService / SecondaryDB, the synchronous RichIndexer and RichIndexerHandle wrappers, PostgreSQL",
]

RICH_DEV_PART = "rich_known_deviation_domains"


def gen(seed, extra=()):
    r = subprocess.run([BIN, "gen", "--seed", str(seed), *extra], env=ENV, stdout=subprocess.PIPE, stderr=subprocess.PIPE, text=True, timeout=600)
    try:
        return json.loads(r.stdout)
    except json.JSONDecodeError:
        raise HarnessError(f"simidx gen printed no scenario (exit {r.returncode}): {r.stderr[-500:]}")


def determinism_selfcheck():
    """a few seeded scenarios, each executed twice in separate processes: verdict and event-log hash must agree"""
    n = 0
    for i in range(4):
        for extra in ((), ("--suspects",), ("--rich",), ("--rich", "--suspects")):
            sc = gen(seed_lo(9) + i, extra)
            r1 = exec_scenario(BIN, sc)
            r2 = exec_scenario(BIN, sc)
            if r1["log_hash"] != r2["log_hash"] or r1.get("violation") != r2.get("violation") or r1["interleaving"] != r2["interleaving"]:
                raise HarnessError(f"determinism self-check failed for seed {sc['seed']} {extra}: {r1['log_hash']} vs {r2['log_hash']}")
            n += 1
    return n


def run(tier, args):
    if args.replay:
        build(["simidx"])
        return replay(PROP, args.replay, BIN)
    t0 = time.time()
    build(["simidx"])
    q = tier == "quick"
    det = determinism_selfcheck()
    parts = [
        ("main_domain", [], 3_500 if q else 130_000, 0),
        ("known_deviation_domains", ["--suspects"], 500 if q else 15_000, 1),
        ("rich", ["--rich"], 1_300 if q else 45_000, 2),
        (RICH_DEV_PART, ["--rich", "--suspects"], 300 if q else 6_000, 3),
    ]
    skip_dev = os.environ.get("VERIF_C18_SKIP_KNOWN_DEVIATIONS") == "1"
    if skip_dev:
        # the three deviations of the unmodified indexer (see known_findings.json / the C18 report) are not looked for
        parts = [p for p in parts if "--suspects" not in p[1]]
    if os.environ.get("VERIF_C18_ONLY_RICH") == "1":
        parts = [p for p in parts if "--rich" in p[1]]
    if args.seeds:
        a, b = args.seeds.split("..")
        parts = [(n, x, int(b) - int(a), s) for (n, x, _, s) in parts]
    agg = Agg()
    part_counters = {}
    rich_samples = []
    for name, extra, n, stream in parts:
        lo = seed_lo(stream) if not args.seeds else int(args.seeds.split("..")[0])
        t1 = time.time()
        doc, rc = run_json([BIN, "batch", "--seeds", f"{lo}..{lo+n}", "--threads", "16", *extra], timeout=7200)
        log(f"[{PROP}] {name}: {doc['runs']} runs, {doc['nontrivial_runs']} non-trivial, {len(doc['violations'])} failing, {time.time()-t1:.1f}s")
        if "--rich" in extra:
            rich_samples += doc["samples"][:1]
            part_counters[name] = {
                "runs": doc["runs"],
                "nontrivial_runs": doc["nontrivial_runs"],
                "distinct_operation_sequences": doc["distinct_interleavings"],
                "distinct_abstract_states": doc["distinct_states"],
                "steps": doc["steps"],
                "fault_kinds_fired": doc["faults"],
                "probes_hit": doc["probes"],
                "wall_s": round(time.time() - t1, 1),
            }
        agg.add(name, doc)
    if agg.harness_errors:
        log("harness errors:", agg.harness_errors[:5])
        return 2
    unknown = triage(PROP, agg, BIN, shrink_keys=("ops", "probe_queries"), max_report=6)
    wall = time.time() - t0
    coverage = {
        "evaluations": agg.runs,
        "distinct_nontrivial": agg.distinct_nontrivial,
        "rule": "one evaluation = one simulated history: a seeded operation list (Mine, SwitchBranch, Sync [with bounce = append, rollback, compare, append], Rollback, Query) executed against the real indexer on its own store (ckb-indexer on RocksDB in parts main_domain / known_deviation_domains, ckb-rich-indexer on SQLite in parts rich / rich_known_deviation_domains; separate seed streams) and against the simulator's chain model; after every append/rollback the tip (both APIs) and a sweep (every pool script x lock/type x get_cells/get_transactions exact, every (code_hash, hash_type) family by prefix incl. get_cells_capacity) are compared, every Query op is compared, and every arrival at a block by rollback is compared with the snapshot taken when that block was appended. distinct = distinct hash of the executed operation sequence (op kinds, what each Sync did, reorg depths, transactions per mined block); non-trivial = the sync actor rolled back at least one block because the main chain switched branches (depth >= 1), or a manual Rollback was followed by the append of a different block at that height",
        "samples": (agg.samples[:2] + rich_samples[:2]) if rich_samples else agg.samples[:3],
        "parts": agg.parts,
        "known_deviation_domains_part_skipped": skip_dev,
        "rich_parts": part_counters,
        "exhaustive": False,
        "fault_kinds_fired": agg.faults,
        "probes_hit": agg.probes,
        "distinct_operation_sequences": agg.distinct_interleavings,
        "distinct_abstract_states": agg.distinct_states,
        "abstract_state_measure": "fingerprint after each op of (indexer tip number, live cells at the tip, distinct scripts among them, depth of the last completed reorg, lag behind the main tip capped at 4, indexer tip on main chain?)",
        "determinism_selfcheck_scenarios": det,
        "simulated_runs_per_hour": int(agg.runs / max(wall, 1e-3) * 3600),
        "steps": agg.steps,
        "simulated_time_ms": 0,
        "simulated_time_note": "the indexer has no timers on the paths driven here (the request timeout is set to 24 h); time is not a dimension of this engine",
        "real_components": REAL,
        "stubbed_components": STUB,
    }
    write_evidence(PROP, tier, "exploration", coverage, wall, unknown, ASSUMPTIONS)
    return 1 if unknown else 0
