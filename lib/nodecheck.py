"""Driver for E-NODE / E-CRASH checks: one simulated run per OS process
(`simnode run --seed S --prop P`), 16 at a time; failing seeds are regenerated
(`simnode gen`), shrunk by ddmin over the scenario's ops (and tree), replayed twice."""
import json, os, sys, time, tempfile, subprocess
from concurrent.futures import ThreadPoolExecutor
from vlib import *

BIN = os.path.join(TARGET, "simnode")
SHM = "/dev/shm" if os.path.isdir("/dev/shm") else None


def _env():
    e = dict(ENV)
    e["RUST_LOG"] = "off"
    e.pop("SIM_TRACE", None)
    return e


MODE = {"run": "run", "gen": "gen", "exec": "exec"}


def set_mode(prefix):
    """'' for chain scenarios, 'pool-' for pool-task scenarios"""
    MODE["run"] = prefix + "run"
    MODE["gen"] = prefix + "gen"
    MODE["exec"] = prefix + "exec"


def run_seed(prop, seed, timeout=600):
    try:
        r = subprocess.run([BIN, MODE["run"], "--seed", str(seed), "--prop", prop], env=_env(), stdout=subprocess.PIPE, stderr=subprocess.PIPE, text=True, timeout=timeout)
    except subprocess.TimeoutExpired:
        return {"seed": seed, "harness_error": "timeout", "violation": None}
    for line in reversed(r.stdout.strip().splitlines()):
        if line.startswith("{"):
            try:
                return json.loads(line)
            except json.JSONDecodeError:
                pass
    return {"seed": seed, "harness_error": f"exit {r.returncode}: {r.stderr[-1500:]}", "violation": None}


def gen_scenario(prop, seed):
    doc, _ = run_json([BIN, MODE["gen"], "--seed", str(seed), "--prop", prop], env=_env(), timeout=120)
    return doc


def exec_scenario(sc, timeout=600, hash_seed=None):
    with tempfile.NamedTemporaryFile("w", suffix=".json", dir=SHM, delete=False) as f:
        json.dump(sc, f)
        p = f.name
    try:
        # a scenario file says itself which mode it belongs to (C04 has parts in both)
        mode = "pool-exec" if sc.get("kind") == "pool" else ("exec" if "tree" in sc else MODE["exec"])
        doc, _ = run_json([BIN, mode, "--scenario", p, "--hash-seed", str(sc["seed"] if hash_seed is None else hash_seed)], env=_env(), timeout=timeout)
    finally:
        os.unlink(p)
    return doc


class NodeAgg:
    def __init__(self):
        self.runs = 0
        self.nontrivial = 0
        self.steps = 0
        self.sim_ms = 0
        self.inter = set()
        self.nontrivial_inter = set()
        self.states = set()
        self.faults = {}
        self.probes = {}
        self.fail = []  # (seed, violation)
        self.harness = []
        self.samples = []

    def add(self, r):
        self.runs += 1
        if r.get("harness_error"):
            self.harness.append((r["seed"], r["harness_error"]))
            return
        self.steps += r["steps"]
        self.sim_ms += r["sim_ms"]
        self.inter.add(r["interleaving"])
        for s in r["states"]:
            self.states.add(s)
        if r["nontrivial"]:
            self.nontrivial += 1
            self.nontrivial_inter.add(r["interleaving"])
        for k, v in r["faults"].items():
            self.faults[k] = self.faults.get(k, 0) + v
        for k, v in r["probes"].items():
            self.probes[k] = self.probes.get(k, 0) + v
        if r.get("violation"):
            self.fail.append((r["seed"], r["violation"]))


def sweep(prop, lo, n, workers=16, agg=None, budget_s=None):
    agg = agg or NodeAgg()
    t0 = time.time()
    with ThreadPoolExecutor(workers) as ex:
        for r in ex.map(lambda s: run_seed(prop, s), range(lo, lo + n)):
            agg.add(r)
    return agg


def simplify(sc):
    """cheaper variants tried after ddmin: drop mutations, drop tx richness"""
    import copy
    if "tree" not in sc:
        return
    for i, t in enumerate(sc["tree"]):
        if t["recipe"].get("mutation"):
            c = copy.deepcopy(sc)
            c["tree"][i]["recipe"]["mutation"] = None
            yield c
    c = copy.deepcopy(sc)
    for t in c["tree"]:
        t["recipe"]["new_txs"] = 0
        t["recipe"]["propose"] = 0
        t["recipe"]["commit"] = 0
    yield c
    c = copy.deepcopy(sc)
    for t in c["tree"]:
        t["recipe"]["uncles"] = 0
    yield c


def prune_tree(sc):
    """drop trailing tree blocks that no op refers to (indexes stay valid)"""
    if "tree" not in sc:
        return sc
    used = 0
    flat = []
    for op in sc["ops"]:
        flat.append(op)
        flat.extend(op.get("inner", []))
    for op in flat:
        if op.get("op") in ("Deliver", "Truncate"):
            used = max(used, op["b"])
    # ancestors of used blocks have smaller indexes, uncles candidates too: safe to cut the tail
    sc["tree"] = sc["tree"][:used]
    return sc


def triage(prop, agg, max_report=3, budget=250):
    by_class = {}
    for seed, v in agg.fail:
        by_class.setdefault(v["class"], []).append((seed, v))
    unknown = 0
    printed = set()
    for vclass, vs in sorted(by_class.items()):
        k = match_known(prop, vclass)
        if k is not None:
            if k["signature"] not in printed:
                print(f"KNOWN-FINDING: property={prop} {k['what']} [class {vclass}, {len(vs)} run(s)]", flush=True)
                printed.add(k["signature"])
            continue
        unknown += len(vs)
        if max_report <= 0:
            continue
        max_report -= 1
        seed, v = vs[0]
        t0 = time.time()
        try:
            sc = gen_scenario(prop, seed)
            r0 = exec_scenario(sc)
            if not r0.get("violation") or r0["violation"]["class"] != vclass:
                raise HarnessError(f"seed {seed} does not reproduce class {vclass} from its scenario (got {r0.get('violation')})")
            small = Shrinker(exec_scenario, sc, vclass, keys=("ops",), budget=budget, simplify=simplify).run()
            small = prune_tree(small)
            r1 = exec_scenario(small)
            r2 = exec_scenario(small)
            same = bool(r1.get("violation")) and bool(r2.get("violation")) and r1["violation"]["class"] == vclass == r2["violation"]["class"] and r1["log_hash"] == r2["log_hash"]
            if not same:
                small, r1 = sc, r0
            viol = r1["violation"]
            path = write_replay(prop, small, viol, BIN, {"seed": seed, "replay_verified_twice": same, "original_ops": len(sc["ops"]), "shrunk_ops": len(small["ops"])})
        except HarnessError as e:
            log(f"[shrink] {e}")
            path = write_replay(prop, {"seed": seed, "prop": prop, "note": "regenerate with simnode gen"}, v, BIN, {"seed": seed, "replay_verified_twice": False})
            viol = v
        log(f"[violation] class={vclass} detail={viol['detail'][:400]} ({len(vs)} failing run(s), shrink {time.time()-t0:.0f}s)")
        print(f"VIOLATION property={prop} replay={path}", flush=True)
    return unknown


def replay(prop, path):
    body = json.load(open(path))
    sc = body["scenario"]
    if "ops" not in sc:
        sc = gen_scenario(prop, sc["seed"])
    res = exec_scenario(sc)
    v = res.get("violation")
    if v:
        print(f"replayed: class={v['class']} detail={v['detail'][:500]} log_hash={res['log_hash']}")
        if match_known(prop, v["class"]):
            print(f"KNOWN-FINDING: property={prop} {match_known(prop, v['class'])['what']}")
            return 0
        print(f"VIOLATION property={prop} replay={path}")
        return 1
    print("replayed: no violation", res.get("harness_error") or "")
    return 2 if res.get("harness_error") else 0


REAL = [
    "RocksDB (tmpfs), ChainDB/StoreCache/StoreTransaction, SharedBuilder::build (init_snapshot, init_proposal_table), Shared, Snapshot",
    "ckb-chain: ChainService::asynchronous_process_block, OrphanBroker, OrphanBlockPool, PreloadUnverifiedBlocksChannel, ConsumeUnverifiedBlockProcessor::{consume_unverified_blocks, verify_block, find_fork, rollback, reconcile_main_chain, truncate}, InitLoadUnverified scan",
    "ckb-verification: BlockVerifier, NonContextualBlockTxsVerifier, ContextualBlockVerifier (epoch, uncles, two-phase commit, DAO header, reward, extension/MMR, block txs incl. script execution in ckb-vm)",
    "reward-calculator, dao, proposal-table, chain-spec consensus (next_epoch_ext)",
]
STUB = [
    "the four chain-service threads and their select! loops (replaced by the simulator's step scheduler through ckb_chain::verif::SimChain)",
    "tx-pool service (not started: the chain stages skip pool notifications, as in `ckb import`)",
    "sync/relay protocols (replaced by the delivery generator; C03/C07 pipeline runs put the real HeaderVerifier in front as submit_block does), network, RPC transport",
    "proof of work: Pow::Dummy except in half of the C03 runs and the pipeline runs of C07, which use the real Eaglesong / EaglesongBlake2b engines with nonces mined by the model",
    "wall clock (ckb_systemtime faketime), OS randomness for HashMap seeds (getrandom interposed, function of the run's seed)",
]


def evidence_cov(agg, wall, rule, extra=None):
    cov = {
        "evaluations": agg.runs,
        "distinct_nontrivial": len(agg.nontrivial_inter),
        "rule": rule,
        "samples": agg.samples[:3],
        "nontrivial_runs": agg.nontrivial,
        "distinct_interleavings": len(agg.inter),
        "distinct_abstract_states": len(agg.states),
        "abstract_state_measure": "fingerprint after every simulator step of (tip number, orphan-pool size, blocks pending verification, verify-queue length, deepest reorg so far capped at 12)",
        "interleaving_measure": "hash of the executed operation sequence (deliveries with block ids, stage steps, cleaner ticks, restarts)",
        "fault_kinds_fired": agg.faults,
        "probes_hit": agg.probes,
        "steps": agg.steps,
        "simulated_time_ms": agg.sim_ms,
        "simulated_runs_per_hour": int(agg.runs / max(wall, 1e-3) * 3600),
        "seeds_per_hour": int(agg.runs / max(wall, 1e-3) * 3600),
        "real_components": REAL,
        "stubbed_components": STUB,
        "exhaustive": False,
    }
    if extra:
        cov.update(extra)
    return cov
