import poolprop
def run(tier, args):
    return poolprop.run("C11", tier, args)
