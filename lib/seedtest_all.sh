#!/bin/bash
# Runs every seeded change under /verif/seeded against the quick check of its property, one after
# the other (git -C /repo apply; ./check; git -C /repo checkout -- .), and writes a summary.
# usage: lib/seedtest_all.sh [ID-prefix]
out=/verif/seeded/RESULTS.txt
: > $out
for d in /verif/seeded/${1:-C}*/; do
  id=$(basename $d); prop=${id%%-*}
  [ -f $d/patch.diff ] || continue
  r=$(bash /verif/lib/seedtest.sh $d/patch.diff $prop quick 2>&1)
  n=$(echo "$r" | grep -c "^VIOLATION")
  cls=$(echo "$r" | grep -o "class=[^ ]*" | sort -u | head -3 | tr '\n' ' ')
  if [ "$n" -gt 0 ]; then echo "$id CAUGHT ($n violation line(s)) $cls" | tee -a $out; else echo "$id MISSED :: $(echo "$r" | tail -2 | tr '\n' ' ' | cut -c1-200)" | tee -a $out; fi
done
