"""C09 — freezer never loses or corrupts a frozen block (engine simfrz)."""
import os, time
from vlib import *
from batchcheck import *

PROP = "C09"
BIN = os.path.join(TARGET, "simfrz")

ASSUMPTIONS = [
    "crash = process death: every completed write()/set_len() survives, bytes written since the last sync_all may be cut; old (rolled-over) data files are intact, as in the property's quantifier",
    "truncate() is followed by sync_all() in the harness (Freezer::truncate does not sync; power loss below the OS page cache is out of scope)",
    "initial INDEX creation (the 12-byte default entry written and synced by build()) is not a crash point; the property names crashes that cut an append short",
    "item contents are a deterministic function of (item number, size); snap and std::fs are trusted",
    "write errors are injected as real short writes followed by EFBIG (RLIMIT_FSIZE set around one append, SIGXFSZ ignored): the write of the item data or of the 12-byte index entry stops after a seeded number of bytes, also right after a roll-over opened the next data file; the process lives on, the failed append must change nothing and later appends, retrieves and re-opens must work on the unchanged prefix. Errors of sync_all, truncate and of opening files are not injected",
]
REAL = ["ckb_freezer::FreezerFilesBuilder::build (repair loop)", "FreezerFiles::{append,retrieve,truncate,sync_all,preopen}", "ckb_freezer::Freezer::{open,freeze,retrieve,number} on real packed blocks", "fail crate failpoints inside append (panic = death at a call site)", "the kernel's file-size limit as write-error source (real partial writes)", "real files on tmpfs"]
STUB = ["the disk between drop and re-open (cut by the simulator)", "block source for Freezer::freeze (generated header chain)"]


def run(tier, args):
    if args.replay:
        build(["simfrz"])
        return replay(PROP, args.replay, BIN)
    t0 = time.time()
    build(["simfrz"])
    q = tier == "quick"
    parts = [
        ("random_histories", ["--kind", "files"], 60_000 if q else 3_000_000, 0),
        ("enumerated_crash_rectangles", ["--kind", "enumerate"], 150 if q else 6_000, 1),
        ("failpoint_deaths", ["--kind", "files", "--failpoints"], 6_000 if q else 200_000, 2),
        ("freezer_level_blocks", ["--kind", "freezer"], 6_000 if q else 300_000, 3),
    ]
    if args.seeds:
        a, b = args.seeds.split("..")
        parts = [(n, x, int(b) - int(a), s) for (n, x, _, s) in parts]
    agg = Agg()
    for name, extra, n, stream in parts:
        lo = seed_lo(stream) if not args.seeds else int(args.seeds.split("..")[0])
        t1 = time.time()
        doc, rc = run_json([BIN, "batch", "--seeds", f"{lo}..{lo+n}", "--threads", "16", *extra], timeout=7200)
        log(f"[{PROP}] {name}: {doc['runs']} runs, {len(doc['violations'])} failing, {time.time()-t1:.1f}s")
        agg.add(name, doc)
    if agg.harness_errors:
        log("harness errors:", agg.harness_errors[:5])
        return 2
    unknown = triage(PROP, agg, BIN)
    wall = time.time() - t0
    exhaustive_part = [p for p in agg.parts if p["part"] == "enumerated_crash_rectangles"][0]
    coverage = {
        "evaluations": agg.runs,
        "distinct_nontrivial": agg.distinct_nontrivial,
        "rule": "one evaluation = one simulated history (append/truncate/reopen/retrieve ops with crash re-opens) executed against the real freezer files and a vector model. distinct = distinct hash of the executed operation sequence incl. cut lengths; non-trivial = the history contains a crash re-open in which at least one appended item was not fully written (so the repair loop had to truncate), or a failpoint death inside append",
        "samples": agg.samples[:4],
        "parts": agg.parts,
        "enumeration": f"part enumerated_crash_rectangles tries every (head length, INDEX length) pair of the legal rectangle plus missing head file for each seeded short history ({exhaustive_part['runs']} crash states); exhaustive per history, histories are sampled",
        "exhaustive": False,
        "fault_kinds_fired": agg.faults,
        "probes_hit": agg.probes,
        "distinct_operation_sequences": agg.distinct_interleavings,
        "distinct_abstract_states": agg.distinct_states,
        "abstract_state_measure": "fingerprint of (item count, head file id, head fill bucket) after each op and (items, lower bound, head file, rollover since sync, INDEX cut mod 12, head missing, repair crosses file) at each crash",
        "simulated_runs_per_hour": int(agg.runs / max(wall, 1e-3) * 3600),
        "steps": agg.steps,
        "simulated_time_ms": 0,
        "simulated_time_note": "the freezer has no timers; time is not a dimension of this engine",
        "real_components": REAL,
        "stubbed_components": STUB,
    }
    write_evidence(PROP, tier, "fault_enumeration", coverage, wall, unknown, ASSUMPTIONS)
    return 1 if unknown else 0
