import poolprop
def run(tier, args):
    return poolprop.run("C04", tier, args)
