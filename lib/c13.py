import poolprop
def run(tier, args):
    return poolprop.run("C13", tier, args)
