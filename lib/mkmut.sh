#!/bin/bash
# usage: mkmut.sh <PROP> <tag> : creates a scratch worktree /tmp/mut-<PROP>-<tag> of /repo HEAD holding only PROPERTY.txt
set -eu
p=$1; tag=$2; wt=/tmp/mut-$p-$tag
git -C /repo worktree add -q --detach $wt HEAD
python3 - "$p" "$wt" <<'PY'
import json,sys
p,wt=sys.argv[1:]
for l in open('/verif/properties.jsonl'):
    d=json.loads(l)
    if d['id']==p:
        open(wt+'/PROPERTY.txt','w').write(f"{d['id']}: {d['title']}\n\n{d['statement']}\n\nQuantified over: {d['quantifier']['text']}\n\nAnchored in these source files: {', '.join(d['anchors']['files'])}\n")
PY
echo $wt
