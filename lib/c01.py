import nodeprop
def run(tier, args):
    return nodeprop.run("C01", tier, args)
