"""C16 — bytes from peers can be rejected but never crash the node or forge a block (engine simpeer)."""
import os, re, time
from vlib import *
from batchcheck import *

PROP = "C16"
BIN = os.path.join(TARGET, "simpeer")

ASSUMPTIONS = [
    "part 'frames' is generated-input checking carried by a transport-corruption fault: the simulated transport carries VALID messages built by the simulator (every union arm of SyncMessage, RelayMessage, LightClientMessage, BlockFilterMessage, plus Block/Transaction/Header/UncleBlock/Script/CellOutput/CompactBlock/WitnessArgs/CellbaseWitness and the Ping/Discovery/Identify/Alert/Time messages), optionally compressed (ckb_network::compress::compress, the codec's encoder, or snappy forced on small payloads), and applies seeded corruption (bit flip, byte overwrite, truncation, junk extension, splice of another message, region duplication, extreme 32-bit length/offset words, compress-flag byte, a well-formed snappy stream that expands to 8 MiB-1 .. 8 MiB+70000 bytes); it is not a simulation of node state",
    "the declared decompression bound is MAX_UNCOMPRESSED_LEN = 1 << 23 (network/src/compress.rs, private constant, copied into the harness)",
    "accessors with a documented precondition are called when the node's own guard holds, exactly as on the node's paths: Block/CompactBlock::extension() and into_view() with at most one extra field (the handlers ban more than one), TransactionView::output_with_data() only when outputs.len() == outputs_data.len() (check_data / OutputsDataVerifier), CompactBlock::block_short_ids()/short_id_indexes() only after CompactBlockVerifier passed; VerifiableHeader::total_difficulty() (U256 addition, used by light clients only) and EpochNumberWithFraction::to_rational() are not called",
    "HeaderVerifier runs over a stub parent provider (parent unknown / parent number = header number - 1 / 0 / 5, median time 1); the three PoW engines are run on every decoded header",
    "part 'reconstruct': the block B is valid for the relayer's header checks and the non-contextual block verifier, not for contextual verification (reward, DAO, two-phase commit): the chain stages after 'store the block' are not run on B; prepared chain blocks are inserted with Switch::DISABLE_ALL",
    "a short-id collision is emulated in the generator, not in ckb: the compact block names, at a position where the header commits to B's transaction, the short id of a DIFFERENT transaction that the node holds in its pool (what a true 80-bit collision looks like to the receiving node); finding two real transactions with equal 10-byte ids is infeasible",
    "availability of a short id is what the node's own tx-pool answers to fetch_txs for the ids the compact block names (checked to be exactly the accepted submissions), so a submission the pool rejected counts as absent; submissions are synchronous (submit_local_tx), so the pool is quiescent during reconstruction",
    "the compact block's uncle-hash list, proposals and extension are B's own (the property quantifies over prefilled indexes, short ids and available transactions/uncles); reconstruct_block does not compare uncles/proposals/extension with the header, that is left to BlockVerifier later",
    "part 'handlers' goes beyond the property text (context-free code) on purpose: the same corrupted frames, with hashes the node knows spliced in, are delivered to the real Synchronizer/Relayer/BlockFilter/LightClientProtocol `received`; oracle there is only 'the handler returns'; the handlers' futures are driven by block_on on a multi-thread tokio runtime as in the node",
    "tx-pool service, network service (idle, no peers) and the async runtime are ckb's own threads; everything the simulator checks is request/response from the single simulator thread; messages sent from spawned tasks are awaited by polling the captured send log (wall-clock wait, never part of the event log)",
    "one node per OS process (faketime, stop signals are process-global); HashMap seeds derive from the run seed through a getrandom shim",
]
REAL = [
    "ckb_network::compress::{compress, decompress} and LengthDelimitedCodecWithCompress::{encode, decode}",
    "generated molecule readers/entities/builders of ckb-gen-types: from_slice / from_compatible_slice, every field/item/option/union accessor, builders for field-by-field re-serialisation",
    "ckb-types views and extensions: into_view / into_view_without_reset_header, calc_*hash, serialized_size*, as_uncle, union_proposal_ids, calc_transactions_root, CompactBlock::build_from_block/block_short_ids/short_id_indexes, check_data, capacity helpers, VerifiableHeader::is_valid",
    "ckb_verification::{BlockVerifier, NonContextualBlockTxsVerifier, NonContextualTransactionVerifier, HeaderVerifier}, ckb_pow engines (Dummy, Eaglesong, EaglesongBlake2b)",
    "ckb_sync::Relayer::{reconstruct_block, received -> CompactBlockProcess::execute / BlockTransactionsProcess::execute, accept_block}, CompactBlockVerifier / BlockTransactionsVerifier / BlockUnclesVerifier (through the verif-hooks re-export)",
    "ckb_sync::{Synchronizer, BlockFilter}::received, ckb_light_client_protocol_server::LightClientProtocol::received (part 'handlers')",
    "SyncShared / SyncState (pending compact blocks, header map, block status map), Shared + Snapshot + RocksDB on tmpfs, real tx-pool service (submit_local_tx, fetch_txs, clear_pool) with real always_success script verification",
    "chain service stage 1 (non-contextual verification + store) through ckb_chain::verif::SimChain",
]
STUB = [
    "the peer and the transport (SimNetContext implements CKBProtocolContext; every send and ban is captured)",
    "chain service threads (SimChain steps; stages 2-3 are not run on the relayed block)",
    "NetworkController (real object from an idle NetworkService, no peers)",
    "PoW (Pow::Dummy in the node's consensus)",
    "parent header provider for HeaderVerifier in part 'frames'",
]
NOT_REACHABLE = [
    "CompactBlockProcess / BlockTransactionsProcess are pub(crate): driven only through Relayer::received, so their Status return values are not observed (bans, sent messages, pending map and forwarded blocks are)",
    "compress.rs Message::{compress,decompress} are pub(crate): reached through the pub fns compress()/decompress()",
    "BlockReader::check_data / TransactionReader::check_data are private: reached through SendBlockReader / BlockTransactionsReader / RelayTransactionsReader::check_data",
    "network-layer handlers (ping, discovery, identify, hole punching) are private to ckb-network: only their message types are decoded and walked",
]


def known_classes():
    """literal violation classes of 'known' C16 findings, so that the engine keeps exploring past them"""
    out = []
    for f in load_known():
        if f.get("property") != PROP or f.get("status") != "known":
            continue
        out += f.get("continue_past", [])
        sig = f["signature"]
        m = re.fullmatch(r"([^()|*+?\[\]]*)\(([^()]*)\)([^()|*+?\[\]]*)", sig)
        cands = [m.group(1) + alt + m.group(3) for alt in m.group(2).split("|")] if m else [sig]
        for c in cands:
            c = c.replace("\\.", ".").replace("\\:", ":")
            if not re.search(r"[\\()|*+?\[\]]", c):
                out.append(c)
    return sorted(set(out))


def run(tier, args):
    if args.replay:
        build(["simpeer"])
        return replay(PROP, args.replay, BIN)
    t0 = time.time()
    build(["simpeer"])
    q = tier == "quick"
    parts = [
        ("frames", ["--kind", "frames"], 200_000 if q else 5_000_000, 0),
        ("reconstruct", ["--kind", "reconstruct"], 640 if q else 12_000, 1),
        ("handlers", ["--kind", "handlers"], 240 if q else 6_000, 2),
    ]
    if args.seeds:
        a, b = args.seeds.split("..")
        parts = [(n, x, int(b) - int(a), s) for (n, x, _, s) in parts]
    env = {}
    kc = known_classes()
    if kc:
        env["SIMPEER_CONTINUE_PAST"] = ",".join(kc)
    agg = Agg()
    walls = {}
    for name, extra, n, stream in parts:
        lo = seed_lo(stream) if not args.seeds else int(args.seeds.split("..")[0])
        t1 = time.time()
        doc, rc = run_json([BIN, "batch", "--seeds", f"{lo}..{lo+n}", "--threads", "16", *extra], timeout=7200, env=env)
        walls[name] = time.time() - t1
        log(f"[{PROP}] {name}: {doc['runs']} runs, {len(doc['violations'])} failing kept, {walls[name]:.1f}s")
        agg.add(name, doc)
    if agg.harness_errors:
        log("harness errors:", agg.harness_errors[:5])
        return 2
    # determinism self-check: the same scenario executed twice in fresh processes gives the same event-log hash
    for kind in ("frames", "reconstruct", "handlers"):
        sc, _ = run_json([BIN, "gen", "--seed", str(seed_lo(7) + 3), "--kind", kind, "--compact"])
        r1 = exec_scenario(BIN, sc)
        r2 = exec_scenario(BIN, sc)
        if r1["log_hash"] != r2["log_hash"] or bool(r1.get("violation")) != bool(r2.get("violation")):
            log(f"determinism self-check failed for kind {kind}: {r1['log_hash']} vs {r2['log_hash']}")
            return 2
    unknown_kept = triage(PROP, agg, BIN, max_report=4)
    # the engine keeps at most 4 failing runs per class; every failing run is counted in probes
    unknown = 0
    for k, v in agg.probes.items():
        if k.startswith("violating_runs:") and match_known(PROP, k[len("violating_runs:"):]) is None:
            unknown += v
    unknown = max(unknown, unknown_kept)
    wall = time.time() - t0
    per_part = {p["part"]: p for p in agg.parts}
    coverage = {
        "evaluations": agg.runs,
        "distinct_nontrivial": agg.distinct_nontrivial,
        "rule": "one evaluation = one simulated run from one seed. frames: one valid message, one carried encoding, a list of corruption steps, then decompress + decode as every top-level type + full accessor walk + re-serialisation + views/hashes/verifiers; distinct = distinct received byte string; non-trivial = at least one corruption step was applied AND the frame passed decompression AND at least one decoder accepted it (so accessors ran on attacker-shaped data). reconstruct: one node, 4-9 rounds, each a block B + compact block variant + pool content + peer answer, judged on every reconstruct_block call and on the end-to-end Relayer::received path; distinct = distinct round list; non-trivial = some reconstruction took at least one transaction from the pool and one from the peer list, or reported Missing. handlers: one node, 120-260 corrupted frames delivered to the real protocol handlers; non-trivial = a corrupted frame was processed without the peer being banned",
        "samples": agg.samples[:5],
        "parts": agg.parts,
        "exhaustive": False,
        "fault_kinds_fired": agg.faults,
        "probes_hit": agg.probes,
        "distinct_operation_sequences": agg.distinct_interleavings,
        "distinct_abstract_states": agg.distinct_states,
        "abstract_state_measure": "frames: (decoder type, strict/compatible, corrupted or not) for every accepting decoder; reconstruct: (expected outcome kind, #from pool, #from peer, #prefilled bucket, root matches, result kind, illegal-variant, collision, extension) per reconstruct_block call; handlers: (message arm, corrupted or not) for every frame processed without a ban",
        "simulated_runs_per_hour": int(agg.runs / max(wall, 1e-3) * 3600),
        "simulated_runs_per_hour_by_part": {k: int(per_part[k]["runs"] / max(walls[k], 1e-3) * 3600) for k in walls},
        "steps": agg.steps,
        "steps_meaning": "frames: accessor/check calls made on decoded values; reconstruct: rounds; handlers: frames delivered to a handler",
        "simulated_time_ms": 0,
        "simulated_time_note": "no timer takes part in decoding or reconstruction; faketime is fixed at one instant",
        "real_components": REAL,
        "stubbed_components": STUB,
        "not_reachable_from_outside_the_crates": NOT_REACHABLE,
        "known_classes_continued_past": kc,
        "determinism_self_check": "gen+exec twice in fresh processes for one seed of each kind: equal log hashes",
    }
    write_evidence(PROP, tier, "exploration", coverage, wall, unknown, ASSUMPTIONS)
    return 1 if unknown else 0
