import nodeprop
def run(tier, args):
    return nodeprop.run("C07", tier, args)
