"""C08 — crash at any point of block import (E-CRASH: simnode segments as OS processes).
For each seeded history: a fault-free run counts the durable writes W, then EVERY write index
K in 1..=W x {die before, die after} is tried, plus seeded double crashes (second death during
recovery)."""
import os, time, copy, json
from concurrent.futures import ThreadPoolExecutor
from vlib import *
import nodecheck as nc

PROP = "C08"
ASSUMPTIONS = [
    "crash = process death (libc::_exit inside the durable-write hook, before or after the write); every completed write() survives; power loss below the OS page cache is out of scope",
    "after a restart a sync peer re-sends every block the node had been given before (the orphan pool and in-memory verdicts do not survive a restart by design)",
    "fault-free and fault-injecting runs are separate: the fault-free run of every history must itself be violation-free",
]


def with_crashes(sc, crashes):
    c = copy.deepcopy(sc)
    for (k, after) in crashes:
        c["ops"].append({"op": "Crash", "write": k, "after": after})
    return c


def run(tier, args):
    if args.replay:
        build(["simnode"])
        return nc.replay(PROP, args.replay)
    t0 = time.time()
    build(["simnode"])
    histories = 5 if tier == "quick" else 400
    lo = seed_lo(8)
    if args.seeds:
        a, b = args.seeds.split("..")
        lo, histories = int(a), int(b) - int(a)
    agg = nc.NodeAgg()
    points = 0
    hist_info = []
    failing = []  # (scenario, violation)
    with ThreadPoolExecutor(16) as ex:
        for h in range(lo, lo + histories):
            sc = nc.gen_scenario(PROP, h)
            r0 = nc.exec_scenario(sc)
            agg.add(r0)
            if r0.get("harness_error"):
                continue
            if r0.get("violation"):
                failing.append((sc, r0["violation"]))
                continue
            W = r0["probes"].get("durable_writes", 0)
            jobs = [[(k, after)] for k in range(1, W + 1) for after in (False, True)]
            # double crashes: second death at the j-th write of the recovery
            import random
            rnd = random.Random(h)
            for _ in range(min(12, W)):
                jobs.append([(rnd.randint(1, W), rnd.random() < 0.5), (rnd.randint(1, 12), rnd.random() < 0.5)])
            scs = [with_crashes(sc, j) for j in jobs]
            res = list(ex.map(nc.exec_scenario, scs))
            for s2, r in zip(scs, res):
                agg.add(r)
                points += 1
                if r.get("violation"):
                    failing.append((s2, r["violation"]))
            hist_info.append({"seed": h, "blocks": len(sc["tree"]), "ops": len(sc["ops"]), "durable_writes": W, "crash_points": len(jobs)})
            if len(agg.samples) < 2:
                agg.samples.append({"seed": h, "cfg": sc["cfg"], "ops_head": sc["ops"][:20], "crash_markers_tried": [j for j in jobs[:4]]})
        # second part: many more histories, each with a seeded SAMPLE of crash points (history diversity:
        # reorganisations across epoch boundaries, invalid blocks, orphan-first deliveries meet a crash)
        sampled_hist = (60 if tier == "quick" else 6000) if not args.seeds else 0
        sampled_points = 0
        import random
        seeds2 = list(range(lo + 100_000, lo + 100_000 + sampled_hist))
        scs0 = [nc.gen_scenario(PROP, h) for h in seeds2]
        res0 = list(ex.map(nc.exec_scenario, scs0))
        scs = []
        for h, sc, r0 in zip(seeds2, scs0, res0):
            agg.add(r0)
            if r0.get("harness_error"):
                continue
            if r0.get("violation"):
                failing.append((sc, r0["violation"]))
                continue
            W = r0["probes"].get("durable_writes", 0)
            if W == 0:
                continue
            rnd = random.Random(h ^ 0x5A3)
            jobs = [[(rnd.randint(1, W), rnd.random() < 0.5)] for _ in range(5)]
            jobs.append([(rnd.randint(1, W), rnd.random() < 0.5), (rnd.randint(1, 12), rnd.random() < 0.5)])
            scs.extend(with_crashes(sc, j) for j in jobs)
        res = list(ex.map(nc.exec_scenario, scs))
        for s2, r in zip(scs, res):
            agg.add(r)
            sampled_points += 1
            if r.get("violation"):
                failing.append((s2, r["violation"]))
    if agg.harness:
        log("harness errors:", agg.harness[:3])
        return 2
    # triage (scenarios are explicit here, not regenerable from a seed)
    unknown = 0
    by_class = {}
    for sc, v in failing:
        by_class.setdefault(v["class"], []).append((sc, v))
    reported = 0
    for vclass, vs in sorted(by_class.items()):
        k = match_known(PROP, vclass)
        if k:
            print(f"KNOWN-FINDING: property={PROP} {k['what']} [class {vclass}, {len(vs)} run(s)]", flush=True)
            continue
        unknown += len(vs)
        if reported >= 3:
            continue
        reported += 1
        sc, v = vs[0]
        small = Shrinker(nc.exec_scenario, sc, vclass, keys=("ops",), budget=200, simplify=nc.simplify).run()
        small = nc.prune_tree(small)
        r1 = nc.exec_scenario(small); r2 = nc.exec_scenario(small)
        same = bool(r1.get("violation")) and bool(r2.get("violation")) and r1["violation"]["class"] == vclass == r2["violation"]["class"]
        if not same:
            small, r1 = sc, nc.exec_scenario(sc)
        path = write_replay(PROP, small, r1.get("violation") or v, nc.BIN, {"seed": sc["seed"], "replay_verified_twice": same})
        log(f"[violation] class={vclass} detail={(r1.get('violation') or v)['detail'][:400]} ({len(vs)} run(s))")
        print(f"VIOLATION property={PROP} replay={path}", flush=True)
    wall = time.time() - t0
    cov = nc.evidence_cov(agg, wall,
        "one evaluation = one execution of a seeded block-import history (6-24 blocks, forks, invalid blocks, duplicates, orphan-first deliveries) with a process death injected at one durable-write index (before or after the write) or two (second death during recovery); EVERY write index of each history is tried. After each restart: open must succeed, the store must equal the model's replay of the tip it reports, work must not decrease, stored-but-unverified blocks with a judged parent must have been picked up by InitLoadUnverified, the proposal view must match; after the remaining deliveries the tip must be the heaviest valid chain and the full state must equal the replay (= the never-crashed run when the heaviest chain is unique). distinct = hash of the executed operation/segment sequence; non-trivial = run with a reorganisation or orphan-first delivery",
        {"histories": hist_info[:50], "crash_points_enumerated": points, "sampled_part": {"histories": sampled_hist, "crash_points": sampled_points, "rule": "six seeded crash markers per history (five single deaths, one double)"}, "enumeration": "for every history of the first part all durable-write indexes x {before, after}; histories are sampled; a second part trades crash-point completeness for history diversity", "exhaustive": False})
    cov["stubbed_components"] = nc.STUB + ["process death is libc::_exit at the ckb-db durable-write hook; the surviving state is whatever the OS holds"]
    write_evidence(PROP, tier, "fault_enumeration", cov, wall, unknown, ASSUMPTIONS)
    log(f"[{PROP}] {histories} histories, {points} crash points enumerated + {sampled_hist} histories, {sampled_points} sampled crash points, {len(failing)} failing, {wall:.0f}s")
    return 1 if unknown else 0
