import nodeprop
def run(tier, args):
    return nodeprop.run("C06", tier, args)
