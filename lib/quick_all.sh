#!/bin/bash
# Runs the quick tier of every claimed check in /verif against /repo (evidence files are rewritten in place);
# one summary line per property; any rc other than 0 needs attention.
cd /verif
props=$(python3 -c "import json; print(' '.join(c['property_id'] for c in json.load(open('MANIFEST.json'))['checks']))")
for p in ${@:-$props}; do
  t0=$(date +%s)
  out=$(./check $p quick 2>&1 | grep -E "VIOLATION|HARNESS|determinism|failing|runs" | cut -c1-200 | tail -3 | tr '\n' '|')
  rc=${PIPESTATUS[0]}
  echo "prop=$p $(( $(date +%s) - t0 ))s :: $out"
done
echo QUICKALLDONE
