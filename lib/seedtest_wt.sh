#!/bin/bash
# usage: seedtest_wt.sh <patch.diff> <PROP> [tier]
# Like seedtest.sh, but never touches /repo: the seeded change is applied to a scratch worktree
# (/var/tmp/seedwt) and the checks run from a copy of /verif/sim (/var/tmp/seedsim) whose path
# dependencies point there. Used while other jobs build from /repo. One at a time.
set -u
patch=$(realpath "$1"); prop=$2; tier=${3:-quick}
# SEEDWT_ID selects a second, independent set of scratch directories (parallel use)
id=${SEEDWT_ID:-}; wt=/var/tmp/seedwt$id; simc=/var/tmp/seedsim$id
if [ -d $wt ]; then git -C $wt checkout -q -- . && git -C $wt clean -fdq; git -C $wt checkout -q --detach $(git -C /repo rev-parse HEAD); else git -C /repo worktree add -q --detach $wt HEAD || exit 3; fi
git -C $wt apply "$patch" || { echo "patch does not apply"; exit 3; }
mkdir -p $simc
# committed sources only (the working tree may be mid-edit)
rm -rf /var/tmp/seedsim-src$id && mkdir -p /var/tmp/seedsim-src$id && git -C /verif archive HEAD sim | tar -x -C /var/tmp/seedsim-src$id && rsync -a --delete --exclude target /var/tmp/seedsim-src$id/sim/ $simc/
find $simc -name Cargo.toml -exec sed -i "s#/repo/#$wt/#g" {} +
grep -rl '"/repo/' $simc --include=*.rs | xargs -r sed -i "s#\"/repo/#\"$wt/#g"
export VERIF_SIM_DIR=$simc VERIF_EVIDENCE_DIR=/dev/shm/seedtest-evidence$id VERIF_REPLAY_DIR=/dev/shm/seedtest-replays$id
mkdir -p $VERIF_EVIDENCE_DIR $VERIF_REPLAY_DIR
cd /verif
out=$(./check $prop $tier 2>&1 | grep -v conda | tail -5)
echo "$out"
git -C $wt checkout -q -- . && git -C $wt clean -fdq
echo "result: $(echo "$out" | grep -c VIOLATION) violation line(s)"
