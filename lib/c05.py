"""C05 — script verdict and cycle count do not depend on how execution is chunked (engine simscript)."""
import os, time, json
from vlib import *
from batchcheck import *

PROP = "C05"
BIN = os.environ.get("VERIF_C05_BIN") or os.path.join(TARGET, "simscript")

ASSUMPTIONS = [
    "the limit passed to resumable_verify / resume_from_state is a per-call step budget (Scheduler::run starts from the given limit on every call); VerifyResult::Completed carries the total of the whole transaction; nothing is asserted about the cycle fields of a Suspended state",
    "a whole-run budget exists for verify(max), complete(state, max) and resumable_verify_with_signal(max): 'budget < cost never succeeds' is checked there; for a budget below the cost only the error kind ExceededMaximumCycles is required (the number it reports is the per-group remainder, by construction of verify())",
    "'same failure' = same ScriptError variant, same originating script group and same message; for ExceededMaximumCycles the reported number is not compared",
    "programs whose uninterrupted run ends in ExceededMaximumCycles are only used when they are known never to terminate (infinite_loop, infinite_exec, fib(100) callee, spawn_huge_swap); a finite program that merely does not fit the reference budget is skipped, because step budgets are not cumulative",
    "signal path: a command is delivered while the VM is parked at a simulator-chosen cycle count; the real VM notices the real pause flag at its next jump instruction (ckb-vm asm checks the flag in .prepare_trace only). Stop: if the VM paused on it the result must be Interrupts; if the program ended before the next flag check the result must equal the uninterrupted one",
    "the real parent task forwards Resume/Stop with child_tx.send, which blocks on the child watch channel's lock while scheduler.run executes (the child holds `child_rx.borrow()` across the run); commands that would arrive while the parent is blocked are dropped by the simulator (counted as probe command_dropped_parent_blocked_in_child_send), and a Resume that finds the pause flag clear is preceded by a Suspend at the same parked cycle so that its handling is observable",
    "signal schedules that enable the re-created debug pause syscall carry no Stop command: a Stop that is in flight when the script pauses ITSELF through that syscall leaves the parent and child tasks of chunk_run_with_signal waiting for each other for ever (two of 16000 thorough seeds: a Stop before the first debug pause of load_is_even_with_snapshot / exec_configurable). The syscall exists only under #[cfg(test)] in ckb-script, so this is not reachable in a node; Stop is exercised in schedules without the syscall",
    "the test-only debug pause syscall 2178 is re-created from script/src/syscalls/pause.rs; with it enabled, complete() is not used (it reports a debug pause as the cycle limit by design)",
    "ckb-vm (asm machine), blake2b/secp256k1 code inside the scripts and the molecule/daggy crates used to build spawn_dag inputs are trusted",
]
REAL = [
    "ckb_script::TransactionScriptsVerifier::{verify, resumable_verify, resume_from_state, complete, resumable_verify_with_signal}",
    "ckb_script::Scheduler (run, suspend, resume, process_io, VM swap in/out) and all syscalls (spawn/pipe/read/write/wait/close/inherited_fd/exec/exec_v2/load_*/current_cycles)",
    "TransactionState / FullSuspendedState carried across a dropped verifier and a rebuilt transaction",
    "TypeIdSystemScript",
    "ckb-vm 0.24.14 asm machine, VM versions 0/1/2, real pause flag, real tokio watch/oneshot channels and the real parent/child tasks of chunk_run_with_signal",
    "compiled RISC-V programs of script/testdata (always_*, exec_*, spawn_* incl. spawn_dag with generated DAGs, current_cycles*, load_*, vm_version*, crash-*), secp256k1_blake160 lock from the bundled testnet genesis",
]
STUB = [
    "data loader (cell data is carried in the resolved transaction; no store)",
    "the caller: chunk budgets, verifier drop/rebuild, whole-run budgets, and the cycle at which each Suspend/Resume/Stop command is sent (SimMachine wraps the real machine and parks it)",
    "debug pause syscall 2178 (copy of the crate's #[cfg(test)] syscall)",
]

RULE = (
    "one evaluation = one simulated run: a program case (binary, VM version, args/witness/cell data, 0-2 extra script groups) is verified "
    "uninterrupted, then under every schedule of the run (kinds: random = 3-30 chunk partitions / budget probes / a few signal schedules; "
    "signals = 3-30 Suspend/Resume/Stop schedules on SimMachine; enumerate = every split point of a window of <=2000 consecutive k of a "
    "small program; grid = ~250 evenly spaced split points of a larger program, 8 interleaved grids per program), each compared with the uninterrupted verdict and cycles. "
    "distinct = distinct hash of (program case, extra groups, every chunk budget, rebuild flag, budget, signal position and command); "
    "non-trivial = at least one schedule of the run was actually interrupted before completion (a chunk returned Suspended, or the VM "
    "paused on a signal)"
)


def tolerate_args():
    out = []
    for f in load_known():
        if f.get("property") == PROP and f.get("status") == "known":
            out += ["--tolerate", f["signature"]]
    return out


def run(tier, args):
    if not os.environ.get("VERIF_C05_BIN"):
        build(["simscript"])
    tol = tolerate_args()
    ex = lambda sc: exec_scenario(BIN, sc, extra_args=tol, timeout=1800)
    if args.replay:
        return replay(PROP, args.replay, BIN, exec_fn=ex)
    t0 = time.time()
    q = tier == "quick"
    info, _ = run_json([BIN, "enum-info"] + ([] if q else ["--enum-max-cost", "100000"]))
    n_enum = info["enumerate"]["units"]
    n_grid = info["grid"]["units"]
    parts = [
        ("random_schedules", ["--kind", "random"], 160 if q else 16000, 0),
        ("signal_schedules", ["--kind", "signals"], 90 if q else 16000, 1),
        ("enumerated_split_points", ["--kind", "enumerate"], 40 if q else n_enum, 2),
        ("grid_split_points", ["--kind", "grid"], 50 if q else n_grid, 3),
    ]
    if args.seeds:
        a, b = args.seeds.split("..")
        parts = [(n, x, int(b) - int(a), s) for (n, x, _, s) in parts]
    # determinism self-check: same seeds, two processes, two worker counts -> same event-log hashes
    for kind, cnt in (("random", 10), ("signals", 8)):
        lo = seed_lo(7)
        a, _ = run_json([BIN, "hashes", "--kind", kind, "--seeds", f"{lo}..{lo+cnt}", "--threads", "16", *tol], timeout=3600)
        b, _ = run_json([BIN, "hashes", "--kind", kind, "--seeds", f"{lo}..{lo+cnt}", "--threads", "3", *tol], timeout=3600)
        if a != b:
            diff = [x for x, y in zip(a["hashes"], b["hashes"]) if x != y][:3]
            raise HarnessError(f"determinism self-check failed for kind {kind}: {diff}")
    agg = Agg()
    for name, extra, n, stream in parts:
        lo = seed_lo(stream) if not args.seeds else int(args.seeds.split("..")[0])
        if not q:
            extra = extra + ["--enum-max-cost", "100000"]
        t1 = time.time()
        doc, rc = run_json([BIN, "batch", "--seeds", f"{lo}..{lo+n}", "--threads", "16", *extra, *tol], timeout=6 * 3600)
        log(f"[{PROP}] {name}: {doc['runs']} runs, {doc['steps']} chunk/signal executions, {len(doc['violations'])} failing, {time.time()-t1:.1f}s")
        agg.add(name, doc)
    if agg.harness_errors:
        log("harness errors:", agg.harness_errors[:5])
        return 2
    # known findings that were hit (counted by the engine instead of ending the run)
    printed = set()
    for f in load_known():
        if f.get("property") != PROP or f.get("status") != "known":
            continue
        import re
        hits = {k[6:]: v for k, v in agg.probes.items() if k.startswith("known:") and re.fullmatch(f["signature"], k[6:])}
        if hits and f["signature"] not in printed:
            printed.add(f["signature"])
            print(f"KNOWN-FINDING: property={PROP} {f['what']} [classes {sorted(hits)} , {sum(hits.values())} schedule(s)]", flush=True)

    def simplify(sc):
        """after ddmin left few ops: try to merge adjacent chunk budgets / drop signal events of the last op"""
        out = []
        if len(sc.get("ops", [])) != 1:
            return out
        op = sc["ops"][0]
        if op["op"] == "Chunks" and len(op["budgets"]) > 1:
            b = op["budgets"]
            for i in range(len(b) - 1):
                c = json.loads(json.dumps(sc))
                nb = b[:i] + [b[i] + b[i + 1]] + b[i + 2 :]
                c["ops"][0]["budgets"] = nb
                c["ops"][0]["rebuild"] = [False] * len(nb)
                out.append(c)
        if op["op"] == "Signals" and len(op["events"]) > 1:
            for i in range(len(op["events"])):
                c = json.loads(json.dumps(sc))
                del c["ops"][0]["events"][i]
                out.append(c)
        if sc.get("extras"):
            c = json.loads(json.dumps(sc))
            c["extras"] = []
            out.append(c)
        return out

    unknown = triage(PROP, agg, BIN, simplify=simplify, exec_fn=ex)
    wall = time.time() - t0
    coverage = {
        "evaluations": agg.runs,
        "distinct_nontrivial": agg.distinct_nontrivial,
        "rule": RULE,
        "samples": agg.samples[:5],
        "parts": agg.parts,
        "exhaustive": False,
        "enumeration": f"enumerate: {info['enumerate']['cases']} program cases with cost <= {'20000' if q else '100000'} have {info['enumerate']['split_points']} split points in {n_enum} windows; this run covered {[p for p in agg.parts if p['part']=='enumerated_split_points'][0]['runs']} windows (every split point k of each window: resumable_verify(k), verifier dropped and rebuilt, resume_from_state). grid: {info['grid']['cases']} larger cases, {n_grid} units of ~250 evenly spaced split points; covered {[p for p in agg.parts if p['part']=='grid_split_points'][0]['runs']} units. The thorough tier covers all windows and units.",
        "schedule_executions": agg.steps,
        "fault_kinds_fired": {k: v for k, v in agg.faults.items()},
        "probes_hit": {k: v for k, v in agg.probes.items()},
        "distinct_operation_sequences": agg.distinct_interleavings,
        "distinct_abstract_states": agg.distinct_states,
        "abstract_state_measure": "fingerprint of (program case, VM version, number of VMs in the captured state, script group index, position bucket 0..16 of consumed cycles relative to cost, number of VMs blocked on io/wait, number of open pipe ends) at every suspension, and (program case, VM version, position bucket, group count) at every signal-induced pause",
        "simulated_runs_per_hour": int(agg.runs / max(wall, 1e-3) * 3600),
        "schedule_executions_per_hour": int(agg.steps / max(wall, 1e-3) * 3600),
        "steps": agg.steps,
        "simulated_time_ms": 0,
        "simulated_time_note": "script execution has no timers; the position of an interruption is measured in VM cycles",
        "real_components": REAL,
        "stubbed_components": STUB,
        "signal_path_note": "SimMachine (DESIGN §5 E-SCRIPT) was implemented, not the hand-polled fallback: TransactionScriptsVerifier<_, _, SimMachine> runs the real asm machine under a temporarily lowered max_cycles; at the chosen cycle the VM is parked, the command is sent on the real watch channel and the real select loop of chunk_run_with_signal handles it on the block_on thread before the VM continues",
    }
    write_evidence(PROP, tier, "exploration", coverage, wall, unknown, ASSUMPTIONS)
    return 1 if unknown else 0
