#!/bin/bash
# usage: confirm_seeded.sh <ID-n> "<demo command>" "<existing-tests command>"
# Confirms a seeded change in a scratch worktree of /repo (never in /repo itself):
#   demo alone passes, demo + patch fails, existing tests + patch pass. Log -> /verif/seeded/<ID-n>/confirm.log
set -u
id=$1; demo=$2; existing=$3
dir=/verif/seeded/$id
wt=/tmp/mut-verify
log=$dir/confirm.log
if [ ! -d $wt ]; then git -C /repo worktree add -q --detach $wt HEAD || exit 3; fi
cd $wt
git checkout -q --detach $(git -C /repo rev-parse HEAD)
git checkout -- . ; git clean -fdq -e target
export CARGO_NET_OFFLINE=true
# the chain tests leak their temporary RocksDB directories: give them a private TMPDIR, wiped at the end
export TMPDIR=/tmp/mut-verify-tmp; rm -rf $TMPDIR; mkdir -p $TMPDIR
{
echo "confirmation of $id at $(git rev-parse --short HEAD) on $(date -u +%FT%TZ)"
git apply $dir/demo.diff || echo "DEMO DOES NOT APPLY"
echo "--- demo on the unmodified tree: $demo"
( eval "$demo" ) > /tmp/mut-verify-out.txt 2>&1; rc1=$?
grep -E "Summary|test result|PASS|FAIL|passed|failed|error(\[|:)" /tmp/mut-verify-out.txt | tail -6
echo "exit $rc1 (expected 0)"
git apply $dir/patch.diff || echo "PATCH DOES NOT APPLY"
echo "--- demo with the change"
( eval "$demo" ) > /tmp/mut-verify-out.txt 2>&1; rc2=$?
grep -E "Summary|test result|FAIL|passed|failed|panicked|error(\[|:)" /tmp/mut-verify-out.txt | tail -8
echo "exit $rc2 (expected non-zero)"
git apply -R $dir/demo.diff
echo "--- existing tests with the change: $existing"
( eval "$existing" ) > /tmp/mut-verify-out.txt 2>&1; rc3=$?
grep -E "Summary|test result|FAIL|failed" /tmp/mut-verify-out.txt | tail -6
echo "exit $rc3 (expected 0)"
if [ $rc1 -eq 0 ] && [ $rc2 -ne 0 ] && [ $rc3 -eq 0 ]; then echo "CONFIRMED"; else echo "NOT CONFIRMED"; fi
} > $log 2>&1
git checkout -- . ; git clean -fdq -e target
rm -rf /tmp/mut-verify-tmp
tail -1 $log
