import nodeprop
def run(tier, args):
    return nodeprop.run("C19", tier, args)
