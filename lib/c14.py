"""C14 — caches never change a verdict or an answer (twin runs of simnode that differ only in cache configuration)."""
import os, time, copy, json
from concurrent.futures import ThreadPoolExecutor
from vlib import *
import nodecheck as nc

PROP = "C14"
# (store cache sizes [headers, cell_data, proposals, tx_hashes, uncles, extensions] or None=defaults, verify cache cold?)
CONFIGS = [
    ("warm_defaults", None, False),
    ("all_off_cold", [0, 0, 0, 0, 0, 0], True),
    ("size_one_cold", [1, 1, 1, 1, 1, 1], True),
    ("asymmetric_warm", [64, 0, 1, 64, 0, 1], False),
]
# pool-mode twins (second part): the same pool scenario with the verification cache warm / emptied before every task poll
# and before every chain verify step, store read caches default / all off
POOL_CONFIGS = [
    ("pool_warm_defaults", None, False),
    ("pool_cold_all_off", [0, 0, 0, 0, 0, 0], True),
    ("pool_cold_defaults", None, True),
]
ASSUMPTIONS = [
    "twin nodes are separate OS processes fed the same scenario; BlockExt.received_at is excluded from the comparison",
    "first part (chain mode): the verify cache is exercised through block import (the same transaction verified on two branches, with identical and with swapped witnesses). Second part (pool mode): the same transaction is verified first by the pool (local submission, remote submission through the verify queue, re-verification after a reorganisation) and later by block verification when a template or another miner's block commits it, on competing branches and at other commit positions; the twins run the same task schedule (yield points do not depend on cache hits) and every submission result with its cycles, every pool content at rest with recorded cycles / fees / aggregates, every template byte for byte, every block verdict and every main-chain BlockExt (fees, cycles) must be identical",
    "SYSTEM_CELL (process-global OnceLock) is unset in every twin: not compared set vs unset",
    "one scenario in three hands its first 3-25 first-time deliveries of valid-chain blocks to the chain service with Switch::DISABLE_SCRIPT, as the node does before its assume-valid target; blocks that are invalid by construction are always delivered with full verification (assume-valid concerns the trusted chain only)",
    "snapshot readers: in two scenarios out of three one to three snapshots are captured at arbitrary points, asked for the header and the whole block of EVERY block of the scenario by hash (blocks they cannot know yet included, as an RPC client may ask), and asked again later and at the end: a snapshot never panics and answers as it did when it was taken (reported only when the run has nothing else to report)",
    "planted gadgets (one scenario in three each): a time-locked transaction committed validly on one branch and one block too early on a later, longer branch; an uncle whose parent is an uncle included on another branch only",
]


def variant(sc, caches, cold):
    c = copy.deepcopy(sc)
    c["store_caches"] = caches
    c["verify_cache_cold"] = cold
    return c


def run(tier, args):
    if args.replay:
        build(["simnode"])
        body = json.load(open(args.replay))
        scs = body["scenario"]["twins"]
        res = [nc.exec_scenario(s) for s in scs]
        v = compare(res, POOL_CONFIGS if scs[0].get("kind") == "pool" else CONFIGS)
        for r in res:
            if r.get("violation"):
                v = v or r["violation"]
        if v:
            print(f"replayed: class={v['class']} detail={v['detail'][:400]}")
            print(f"VIOLATION property={PROP} replay={args.replay}")
            return 1
        print("replayed: no violation")
        return 0
    t0 = time.time()
    build(["simnode"])
    n = 160 if tier == "quick" else 12000
    lo = seed_lo(14)
    if args.seeds:
        a, b = args.seeds.split("..")
        lo, n = int(a), int(b) - int(a)
    agg = nc.NodeAgg()
    failing = []
    compared = 0
    labels_compared = 0

    def one(seed):
        sc = nc.gen_scenario(PROP, seed)
        twins = [variant(sc, c, cold) for (_, c, cold) in CONFIGS]
        res = [nc.exec_scenario(t) for t in twins]
        return sc, twins, res

    with ThreadPoolExecutor(8) as ex:
        for sc, twins, res in ex.map(one, range(lo, lo + n)):
            for r in res:
                agg.add(r)
            bad = [r["violation"] for r in res if r.get("violation")]
            # a listed known finding inside one twin must not hide a disagreement between the twins
            unknown_bad = [x for x in bad if not match_known(PROP, x["class"])]
            v = unknown_bad[0] if unknown_bad else (compare(res) or (bad[0] if bad else None))
            compared += 1
            labels_compared += len((res[0].get("extra") or {}).get("c14", []))
            if v:
                failing.append((sc, twins, v))
            if len(agg.samples) < 2:
                agg.samples.append({"seed": sc["seed"], "cfg": sc["cfg"], "ops_head": sc["ops"][:20], "configs": [c[0] for c in CONFIGS], "digest_head": (res[0].get("extra") or {}).get("c14", [])[:6]})
    # second part: pool-mode twins
    pool_compared = 0
    pool_labels = 0
    if not args.seeds or os.environ.get("C14_POOL_SEEDS"):
        n2 = 150 if tier == "quick" else 9000
        lo2 = seed_lo(1414)
        if os.environ.get("C14_POOL_SEEDS"):
            a, b = os.environ["C14_POOL_SEEDS"].split("..")
            lo2, n2 = int(a), int(b) - int(a)

        def one_pool(seed):
            sc, _ = run_json([nc.BIN, "pool-gen", "--seed", str(seed), "--prop", PROP], env=nc._env(), timeout=120)
            twins = [variant(sc, c, cold) for (_, c, cold) in POOL_CONFIGS]
            res = [nc.exec_scenario(t) for t in twins]
            return sc, twins, res

        # determinism of the pool twins themselves: the same twin twice
        for s in range(lo2, lo2 + 2):
            _, tw, r1 = one_pool(s)
            r2 = [nc.exec_scenario(t) for t in tw]
            if [x.get("log_hash") for x in r1] != [x.get("log_hash") for x in r2] or [(x.get("extra") or {}).get("c14") for x in r1] != [(x.get("extra") or {}).get("c14") for x in r2]:
                log(f"determinism self-check failed for pool twin seed {s}")
                return 2
        with ThreadPoolExecutor(8) as ex:
            for sc, twins, res in ex.map(one_pool, range(lo2, lo2 + n2)):
                for r in res:
                    agg.add(r)
                bad = [r["violation"] for r in res if r.get("violation")]
                unknown_bad = [x for x in bad if not match_known(PROP, x["class"])]
                v = unknown_bad[0] if unknown_bad else (compare(res, POOL_CONFIGS) or (bad[0] if bad else None))
                if v and v["class"].startswith("answer_differs") and not pool_difference_is_stable(twins):
                    # the answers follow the process's hash seeds (order of a HashSet somewhere), not the cache configuration
                    agg.probes["pool_twin_difference_follows_hash_seed_not_caches"] = agg.probes.get("pool_twin_difference_follows_hash_seed_not_caches", 0) + 1
                    v = None
                pool_compared += 1
                pool_labels += len((res[0].get("extra") or {}).get("c14", []))
                if v:
                    failing.append((sc, twins, v))
                if pool_compared == 1:
                    agg.samples.append({"seed": sc["seed"], "pool": sc["pool"], "ops_head": sc["ops"][:20], "configs": [c[0] for c in POOL_CONFIGS], "digest_head": (res[0].get("extra") or {}).get("c14", [])[:6]})
    if agg.harness:
        log("harness errors:", agg.harness[:3])
        return 2
    unknown = 0
    by_class = {}
    for sc, twins, v in failing:
        by_class.setdefault(v["class"], []).append((sc, twins, v))
    for vclass, vs in sorted(by_class.items()):
        k = match_known(PROP, vclass)
        if k:
            print(f"KNOWN-FINDING: property={PROP} {k['what']} [class {vclass}, {len(vs)} run(s)]", flush=True)
            continue
        unknown += len(vs)
        sc, twins, v = vs[0]
        # shrink the shared op list: a candidate fails if the twins still disagree with the same class
        def fails_ops(ops):
            ts = []
            for t in twins:
                c = copy.deepcopy(t); c["ops"] = ops; ts.append(c)
            rs = [nc.exec_scenario(t) for t in ts]
            b = [r["violation"] for r in rs if r.get("violation")]
            ub = [x for x in b if not match_known(PROP, x["class"])]
            vv = ub[0] if ub else (compare(rs, POOL_CONFIGS if sc.get("kind") == "pool" else CONFIGS) or (b[0] if b else None))
            return bool(vv) and vv["class"] == vclass
        calls = [0]
        def budgeted(ops):
            calls[0] += 1
            return calls[0] <= 60 and fails_ops(ops)
        small_ops = ddmin(sc["ops"], budgeted)
        small = []
        for t in twins:
            c = copy.deepcopy(t); c["ops"] = small_ops; small.append(c)
        path = write_replay(PROP, {"seed": sc["seed"], "twins": small}, v, nc.BIN, {"seed": sc["seed"]})
        log(f"[violation] class={vclass} detail={v['detail'][:300]} ({len(vs)} run(s))")
        print(f"VIOLATION property={PROP} replay={path}", flush=True)
    wall = time.time() - t0
    cov = nc.evidence_cov(agg, wall,
        "one evaluation = one simulated run; each seeded scenario (block tree with rich transaction graphs, the same transaction committed on competing branches, witness-dependent locks whose valid and failing-witness variants share one tx hash, single-rule-invalid blocks that get stored and deleted, duplicates, orphan-first deliveries) is executed by FOUR twin nodes that differ only in cache configuration (store read caches default / all 0 / all 1 / mixed; transaction verification cache warm or emptied before every verify step); every block verdict, every BlockExt (minus received_at) and the answers of header/uncles/proposals/extension/tx-hashes/body/number/main-chain/epoch-index/block/tx-info/cell-data queries for every block ever delivered (including deleted invalid ones) must be identical across the twins, and no failing-witness variant may ever be attached. distinct = hash of the executed operation sequence; non-trivial = run with a reorganisation or orphan-first delivery",
        {"twin_groups_compared": compared, "answers_compared_per_twin_total": labels_compared, "cache_configurations": [c[0] for c in CONFIGS],
         "pool_twin_groups_compared": pool_compared, "pool_answers_compared_per_twin_total": pool_labels, "pool_cache_configurations": [c[0] for c in POOL_CONFIGS]})
    write_evidence(PROP, tier, "exploration", cov, wall, unknown, ASSUMPTIONS)
    log(f"[{PROP}] {compared} scenarios x {len(CONFIGS)} twins + {pool_compared} pool scenarios x {len(POOL_CONFIGS)} twins, {len(failing)} failing, {wall:.0f}s")
    return 1 if unknown else 0


def pool_difference_is_stable(twins, k=6):
    """A difference between cache twins is attributed to the caches only if it does not follow the
    process's HashMap seeds: under k other hash seeds every configuration must keep answering the
    same way with itself, and the configurations must keep differing from each other."""
    per_cfg = [set() for _ in twins]
    for j in range(1, k + 1):
        rs = [nc.exec_scenario(t, hash_seed=t["seed"] + 7919 * j) for t in twins]
        if any(r.get("harness_error") for r in rs):
            return False
        for c, r in zip(per_cfg, rs):
            c.add(json.dumps((r.get("extra") or {}).get("c14"), sort_keys=True))
        if compare(rs, POOL_CONFIGS) is None:
            return False
    return all(len(c) == 1 for c in per_cfg)


def compare(res, CONFIGS=CONFIGS):
    base = (res[0].get("extra") or {}).get("c14")
    if base is None:
        return None
    for i, r in enumerate(res[1:], 1):
        other = (r.get("extra") or {}).get("c14")
        if other is None:
            return {"property": PROP, "class": "twin_without_answers", "detail": f"twin {CONFIGS[i][0]} produced no digest"}
        if other != base:
            bm = dict((a, b) for a, b in base); om = dict((a, b) for a, b in other)
            first_known = None
            for k in bm:
                if om.get(k) != bm[k]:
                    kind = k.split("#")[0].split("[")[0]
                    v = {"property": PROP, "class": f"answer_differs:{kind}", "detail": f"{k}: {CONFIGS[0][0]}={bm[k]} vs {CONFIGS[i][0]}={om.get(k)}"}
                    # a difference that is a listed known finding must not hide another one
                    if match_known(PROP, v["class"]):
                        first_known = first_known or v
                        continue
                    return v
            if first_known:
                return first_known
            extra = [k for k in om if k not in bm]
            return {"property": PROP, "class": "answer_differs:shape", "detail": f"twin {CONFIGS[i][0]} has extra answers {extra[:3]}"}
    return None
