#!/bin/bash
# runs every claimed check's quick tier under several VERIF_SEED values; any non-zero exit is an alarm to investigate
cd /verif
props=$(python3 -c "import json; print(' '.join(c['property_id'] for c in json.load(open('MANIFEST.json'))['checks']))")
for seed in "$@"; do
  for p in $props; do
    out=$(VERIF_SEED=$seed ./check $p quick 2>&1 | grep -E "VIOLATION|KNOWN-FINDING|HARNESS|determinism|failing|runs" | cut -c1-220 | tail -4)
    rc=${PIPESTATUS[0]}
    echo "seed=$seed prop=$p rc=$rc :: $(echo "$out" | tr '\n' '|')"
  done
done
echo SWEEPDONE
