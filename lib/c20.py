import nodeprop
def run(tier, args):
    return nodeprop.run("C20", tier, args)
