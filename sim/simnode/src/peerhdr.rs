//! C03, header_path 1: the peers' header check. A real `ckb_sync::SyncShared` over the node's
//! `Shared` and the real sync protocol handler (`Synchronizer`, whose chain controller is the one
//! of the stepped chain service); a simulated peer sends `SendHeaders` messages to the handler's
//! `received` entry point. `PeerNet` is the mock network context: every send and every ban is
//! captured, nothing leaves the process, no task is spawned (the handler's future is polled to
//! completion on this thread with a no-op waker, outside of any runtime).
//!
//! What runs for real: message decoding, `HeadersProcess::execute` (continuity of the batch,
//! `HeaderAcceptor`: known status shortcut, invalid-parent check, `HeaderVerifier` over
//! `SyncShared` as header provider = header map first, then store; past median computed over
//! headers the chain service has not seen yet; version check), `insert_valid_header` (header map,
//! skip list, best-known headers), the invalid marks in the block status map shared with the chain
//! service, `post_sync_process` (ban policy).
//! What is stubbed: the network (no peer registry: `get_peer` answers None, so the simulated peer
//! counts as inbound, unprotected, not whitelisted), timers (`notify` is never called: no
//! GetHeaders, no eviction, no block fetcher).

use ckb_network::{
    async_trait, bytes::Bytes as P2pBytes, Behaviour, CKBProtocolContext, CKBProtocolHandler, Error, Peer, PeerIndex, ProtocolId, SupportProtocols, TargetSession,
};
use ckb_shared::block_status::BlockStatus;
use ckb_sync::{Relayer, SyncShared, Synchronizer};
use ckb_traits::HeaderFieldsProvider;
use ckb_types::{
    core::{BlockView, HeaderView},
    packed,
    prelude::*,
};
use std::collections::{BTreeMap, BTreeSet};
use std::future::Future;
use std::pin::Pin;
use std::sync::{Arc, Mutex};
use std::time::Duration;

#[derive(Default)]
pub struct PeerNet {
    /// the context of the relay protocol (otherwise: sync)
    relay: bool,
    broadcasts: Mutex<u64>,
    sent: Mutex<Vec<(usize, P2pBytes)>>,
    banned: Mutex<Vec<(usize, String)>>,
    disconnected: Mutex<Vec<usize>>,
    tasks: Mutex<u64>,
}

impl PeerNet {
    fn push(&self, peer: PeerIndex, data: P2pBytes) {
        self.sent.lock().unwrap().push((peer.value(), data));
    }
}

#[async_trait]
impl CKBProtocolContext for PeerNet {
    async fn set_notify(&self, _interval: Duration, _token: u64) -> Result<(), Error> {
        Ok(())
    }
    async fn remove_notify(&self, _token: u64) -> Result<(), Error> {
        Ok(())
    }
    async fn async_quick_send_message(&self, _proto_id: ProtocolId, peer_index: PeerIndex, data: P2pBytes) -> Result<(), Error> {
        self.push(peer_index, data);
        Ok(())
    }
    async fn async_quick_send_message_to(&self, peer_index: PeerIndex, data: P2pBytes) -> Result<(), Error> {
        self.push(peer_index, data);
        Ok(())
    }
    async fn async_quick_filter_broadcast(&self, _target: TargetSession, _data: P2pBytes) -> Result<(), Error> {
        *self.broadcasts.lock().unwrap() += 1;
        Ok(())
    }
    async fn async_future_task(&self, _task: Pin<Box<dyn Future<Output = ()> + 'static + Send>>, _blocking: bool) -> Result<(), Error> {
        *self.tasks.lock().unwrap() += 1;
        Ok(())
    }
    async fn async_send_message(&self, _proto_id: ProtocolId, peer_index: PeerIndex, data: P2pBytes) -> Result<(), Error> {
        self.push(peer_index, data);
        Ok(())
    }
    async fn async_send_message_to(&self, peer_index: PeerIndex, data: P2pBytes) -> Result<(), Error> {
        self.push(peer_index, data);
        Ok(())
    }
    async fn async_filter_broadcast(&self, _target: TargetSession, _data: P2pBytes) -> Result<(), Error> {
        Ok(())
    }
    async fn async_filter_broadcast_with_proto(&self, _proto_id: ProtocolId, _target: TargetSession, _data: P2pBytes) -> Result<(), Error> {
        Ok(())
    }
    async fn async_quick_filter_broadcast_with_proto(&self, _proto_id: ProtocolId, _target: TargetSession, _data: P2pBytes) -> Result<(), Error> {
        Ok(())
    }
    async fn async_disconnect(&self, peer_index: PeerIndex, _message: &str) -> Result<(), Error> {
        self.disconnected.lock().unwrap().push(peer_index.value());
        Ok(())
    }
    fn quick_send_message(&self, _proto_id: ProtocolId, peer_index: PeerIndex, data: P2pBytes) -> Result<(), Error> {
        self.push(peer_index, data);
        Ok(())
    }
    fn quick_send_message_to(&self, peer_index: PeerIndex, data: P2pBytes) -> Result<(), Error> {
        self.push(peer_index, data);
        Ok(())
    }
    fn quick_filter_broadcast(&self, _target: TargetSession, _data: P2pBytes) -> Result<(), Error> {
        Ok(())
    }
    fn quick_filter_broadcast_with_proto(&self, _proto_id: ProtocolId, _target: TargetSession, _data: P2pBytes) -> Result<(), Error> {
        Ok(())
    }
    fn future_task(&self, _task: Pin<Box<dyn Future<Output = ()> + 'static + Send>>, _blocking: bool) -> Result<(), Error> {
        *self.tasks.lock().unwrap() += 1;
        Ok(())
    }
    fn send_message(&self, _proto_id: ProtocolId, peer_index: PeerIndex, data: P2pBytes) -> Result<(), Error> {
        self.push(peer_index, data);
        Ok(())
    }
    fn send_message_to(&self, peer_index: PeerIndex, data: P2pBytes) -> Result<(), Error> {
        self.push(peer_index, data);
        Ok(())
    }
    fn filter_broadcast(&self, _target: TargetSession, _data: P2pBytes) -> Result<(), Error> {
        Ok(())
    }
    fn disconnect(&self, peer_index: PeerIndex, _message: &str) -> Result<(), Error> {
        self.disconnected.lock().unwrap().push(peer_index.value());
        Ok(())
    }
    fn get_peer(&self, _peer_index: PeerIndex) -> Option<Peer> {
        None
    }
    fn with_peer_mut(&self, _peer_index: PeerIndex, _f: Box<dyn FnOnce(&mut Peer)>) {}
    fn connected_peers(&self) -> Vec<PeerIndex> {
        vec![]
    }
    fn full_relay_connected_peers(&self) -> Vec<PeerIndex> {
        vec![]
    }
    fn report_peer(&self, _peer_index: PeerIndex, _behaviour: Behaviour) {}
    fn ban_peer(&self, peer_index: PeerIndex, _duration: Duration, reason: String) {
        self.banned.lock().unwrap().push((peer_index.value(), reason));
    }
    fn protocol_id(&self) -> ProtocolId {
        if self.relay { SupportProtocols::RelayV3.protocol_id() } else { SupportProtocols::Sync.protocol_id() }
    }
}

/// what the handler did with one message
#[derive(Default, Debug)]
pub struct Announced {
    /// ban reasons (the status text of the handler)
    pub banned: Vec<String>,
    /// messages the node sent back (SyncMessage item names)
    pub sent: Vec<String>,
    pub disconnects: usize,
}

/// how the node sees one header after an announcement
#[derive(Clone, Copy, Debug, PartialEq, Eq)]
pub struct Seen {
    /// the header map or the store answers for it (what `HeaderVerifier` over `SyncShared` sees
    /// as "parent known")
    pub known: bool,
    /// the block status contains HEADER_VALID and not BLOCK_INVALID
    pub valid: bool,
    /// the block status contains BLOCK_INVALID
    pub invalid: bool,
    pub in_header_map: bool,
}

/// what the simulator remembers about a header it has announced
#[derive(Clone, Copy, Debug, PartialEq, Eq)]
pub enum Ann {
    /// the node took it as valid
    Accepted,
    /// the node marked it invalid; the reason as the oracle understood it
    Marked(&'static str),
}

pub struct PeerHdr {
    pub sync_shared: Arc<SyncShared>,
    sync: Synchronizer,
    nc: Arc<PeerNet>,
    /// header_path 2: the relay protocol handler over the same `SyncShared`, with its own context
    /// (its block verdict callbacks ban through it long after the message was handled)
    relay: Relayer,
    nc_relay: Arc<PeerNet>,
    /// index of the currently connected simulated peer (a banned peer is replaced by the next)
    pub peer: usize,
    /// per model block: the outcome of its announcements so far (absent = never processed)
    pub state: BTreeMap<usize, Ann>,
    /// headers announced at least once in any message
    pub sent_once: BTreeSet<usize>,
    /// headers refused as too far in the future and not accepted since
    pub too_new: BTreeSet<usize>,
}

fn poll_done<F: Future + ?Sized>(mut fut: Pin<Box<F>>) -> bool {
    let mut cx = std::task::Context::from_waker(std::task::Waker::noop());
    for _ in 0..64 {
        if fut.as_mut().poll(&mut cx).is_ready() {
            return true;
        }
    }
    false
}

impl PeerHdr {
    pub fn new(sync_shared: Arc<SyncShared>, chain: ckb_chain::ChainController) -> PeerHdr {
        let sync = Synchronizer::new(chain.clone(), Arc::clone(&sync_shared));
        let relay = Relayer::new(chain, Arc::clone(&sync_shared));
        let nc_relay = Arc::new(PeerNet { relay: true, ..Default::default() });
        let mut p = PeerHdr { sync_shared, sync, nc: Arc::new(PeerNet::default()), relay, nc_relay, peer: 1, state: BTreeMap::new(), sent_once: BTreeSet::new(), too_new: BTreeSet::new() };
        p.connect();
        p
    }

    fn ctx(&self) -> Arc<dyn CKBProtocolContext + Sync> {
        self.nc.clone()
    }

    fn connect(&mut self) {
        let nc = self.ctx();
        let peer: PeerIndex = self.peer.into();
        let ok = poll_done(self.sync.connected(nc, peer, "3"));
        assert!(ok, "Synchronizer::connected stayed pending");
        let ncr: Arc<dyn CKBProtocolContext + Sync> = self.nc_relay.clone();
        let ok = poll_done(self.relay.connected(ncr, peer, "3"));
        assert!(ok, "Relayer::connected stayed pending");
    }

    /// a banned peer is disconnected by the network layer; another one takes its place
    pub fn replace_peer(&mut self) {
        let nc = self.ctx();
        let peer: PeerIndex = self.peer.into();
        let ok = poll_done(self.sync.disconnected(nc, peer));
        assert!(ok, "Synchronizer::disconnected stayed pending");
        let ncr: Arc<dyn CKBProtocolContext + Sync> = self.nc_relay.clone();
        let ok = poll_done(self.relay.disconnected(ncr, peer));
        assert!(ok, "Relayer::disconnected stayed pending");
        self.peer += 1;
        self.connect();
    }

    /// One `SendHeaders` message with these headers, in this order, from the current peer, through
    /// `Synchronizer::received`. Err = the handler did not complete.
    pub fn announce(&mut self, headers: &[HeaderView]) -> Result<Announced, String> {
        let content = packed::SendHeaders::new_builder().headers(headers.iter().map(|h| h.data()).collect::<Vec<_>>().pack()).build();
        let msg = packed::SyncMessage::new_builder().set(content).build();
        let data = P2pBytes::from(msg.as_slice().to_vec());
        let nc = self.ctx();
        let peer: PeerIndex = self.peer.into();
        if !poll_done(self.sync.received(nc, peer, data)) {
            return Err("Synchronizer::received stayed pending although every call of the mock context is ready".into());
        }
        let sent = std::mem::take(&mut *self.nc.sent.lock().unwrap());
        let banned = std::mem::take(&mut *self.nc.banned.lock().unwrap());
        let disc = std::mem::take(&mut *self.nc.disconnected.lock().unwrap());
        Ok(Announced {
            banned: banned.into_iter().map(|(_, r)| r).collect(),
            sent: sent
                .into_iter()
                .map(|(_, d)| match packed::SyncMessageReader::from_compatible_slice(&d) {
                    Ok(m) => m.to_enum().item_name().to_string(),
                    Err(_) => "undecodable".to_string(),
                })
                .collect(),
            disconnects: disc.len(),
        })
    }

    /// One `CompactBlock` message for this block (every transaction prefilled: the reconstruction
    /// needs no transaction pool) from the current peer, through `Relayer::received`.
    /// Err = the handler did not complete. Bans that arrive later through the block's verdict
    /// callback are not part of the answer: see `take_relay_bans`.
    pub fn relay_compact(&mut self, block: &BlockView) -> Result<Announced, String> {
        let all: std::collections::HashSet<usize> = (0..block.transactions().len()).collect();
        let cb = packed::CompactBlock::build_from_block(block, &all);
        let msg = packed::RelayMessage::new_builder().set(cb).build();
        let data = P2pBytes::from(msg.as_slice().to_vec());
        let nc: Arc<dyn CKBProtocolContext + Sync> = self.nc_relay.clone();
        let peer: PeerIndex = self.peer.into();
        let before = self.nc_relay.banned.lock().unwrap().len();
        if !poll_done(self.relay.received(nc, peer, data)) {
            return Err("Relayer::received stayed pending although every call of the mock context is ready".into());
        }
        // (what the node sends back leaves from tasks on the node's runtime: not looked at)
        let banned: Vec<String> = self.nc_relay.banned.lock().unwrap().drain(before..).map(|(_, r)| r).collect();
        Ok(Announced { banned, sent: Vec::new(), disconnects: 0 })
    }

    /// ban reasons recorded on the relay context outside of `relay_compact` (verdict callbacks)
    pub fn take_relay_bans(&mut self) -> Vec<String> {
        std::mem::take(&mut *self.nc_relay.banned.lock().unwrap()).into_iter().map(|(_, r)| r).collect()
    }

    pub fn relay_broadcasts(&self) -> u64 {
        *self.nc_relay.broadcasts.lock().unwrap()
    }

    pub fn seen(&self, hash: &packed::Byte32) -> Seen {
        let status = self.sync_shared.active_chain().get_block_status(hash);
        let invalid = status.contains(BlockStatus::BLOCK_INVALID);
        Seen {
            known: self.sync_shared.get_header_fields(hash).is_some(),
            valid: status.contains(BlockStatus::HEADER_VALID) && !invalid,
            invalid,
            in_header_map: self.sync_shared.shared().header_map().contains_key(hash),
        }
    }

    /// tasks handed to the mock context (must stay 0: nothing may run outside the simulator's control)
    pub fn tasks(&self) -> u64 {
        *self.nc.tasks.lock().unwrap()
    }
}
