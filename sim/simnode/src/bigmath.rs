//! Exact arithmetic for the reference model (num-bigint-dig; shares no code with
//! ckb's numext / RationalU256): compact target <-> difficulty, the epoch
//! adjustment formula of RFC 0020 with the truncation points the consensus fixes.
use num_bigint_dig::BigUint;
use num_traits::{One, ToPrimitive, Zero};

pub fn big(x: u64) -> BigUint {
    BigUint::from(x)
}

fn hspace() -> BigUint {
    BigUint::one() << 256
}
fn u256_max() -> BigUint {
    (BigUint::one() << 256) - BigUint::one()
}

/// compact -> (target, overflow)
pub fn compact_to_target(compact: u32) -> (BigUint, bool) {
    let exponent = compact >> 24;
    let mantissa = BigUint::from(compact & 0x00ff_ffff);
    let ret = if exponent <= 3 {
        &mantissa >> (8 * (3 - exponent) as usize)
    } else {
        // 256-bit register: bits shifted beyond 2^256 are lost
        (&mantissa << (8 * (exponent - 3) as usize)) & u256_max()
    };
    let m = if exponent <= 3 {
        &mantissa >> (8 * (3 - exponent) as usize)
    } else {
        mantissa.clone()
    };
    let overflow = !m.is_zero() && exponent > 32;
    (ret, overflow)
}

pub fn target_to_compact(target: &BigUint) -> u32 {
    let bits = target.bits() as u64;
    let exponent = bits.div_ceil(8);
    let low64 = |x: &BigUint| -> u64 { (x & BigUint::from(u64::MAX)).to_u64().unwrap() };
    let mut compact: u64 = if exponent <= 3 {
        low64(target) << (8 * (3 - exponent))
    } else {
        low64(&(target >> (8 * (exponent - 3)) as usize))
    };
    compact |= exponent << 24;
    compact as u32
}

pub fn target_to_difficulty(target: &BigUint) -> BigUint {
    if target.is_one() {
        u256_max()
    } else {
        hspace() / target
    }
}

pub fn difficulty_to_target(d: &BigUint) -> BigUint {
    if d.is_one() {
        u256_max()
    } else {
        hspace() / d
    }
}

pub fn compact_to_difficulty(compact: u32) -> BigUint {
    let (t, overflow) = compact_to_target(compact);
    if t.is_zero() || overflow {
        return BigUint::zero();
    }
    target_to_difficulty(&t)
}

pub fn difficulty_to_compact(d: &BigUint) -> u32 {
    target_to_compact(&difficulty_to_target(d))
}

/// exact non-negative rational
#[derive(Clone, Debug)]
pub struct Q {
    pub n: BigUint,
    pub d: BigUint,
}
impl Q {
    pub fn new(n: BigUint, d: BigUint) -> Q {
        assert!(!d.is_zero());
        Q { n, d }
    }
    pub fn int(n: BigUint) -> Q {
        Q {
            n,
            d: BigUint::one(),
        }
    }
    pub fn mul(&self, o: &Q) -> Q {
        Q::new(&self.n * &o.n, &self.d * &o.d)
    }
    pub fn div(&self, o: &Q) -> Q {
        Q::new(&self.n * &o.d, &self.d * &o.n)
    }
    pub fn add(&self, o: &Q) -> Q {
        Q::new(&self.n * &o.d + &o.n * &self.d, &self.d * &o.d)
    }
    pub fn floor(&self) -> BigUint {
        &self.n / &self.d
    }
    pub fn gt(&self, o: &Q) -> bool {
        &self.n * &o.d > &o.n * &self.d
    }
    pub fn is_zero(&self) -> bool {
        self.n.is_zero()
    }
    /// max(self - k, 0)
    pub fn saturating_sub_int(&self, k: &BigUint) -> Q {
        let kd = k * &self.d;
        if self.n < kd {
            Q::int(BigUint::zero())
        } else {
            Q::new(&self.n - kd, self.d.clone())
        }
    }
}

pub const TAU: u64 = 2;

#[derive(Clone, Debug)]
pub struct EpochIn {
    pub length: u64,
    pub uncles: u64,
    pub duration_ms: u64,
    pub prev_hash_rate: BigUint,
    /// difficulty of the blocks of the finished epoch (as decoded from its compact target)
    pub difficulty: BigUint,
}
#[derive(Clone, Debug)]
pub struct EpochOut {
    pub length: u64,
    pub hash_rate: BigUint,
    pub difficulty: BigUint,
    pub compact: u32,
}

/// RFC 0020 dynamic difficulty adjustment, as fixed by consensus (truncations included).
pub fn next_epoch(
    i: &EpochIn,
    duration_target_s: u64,
    orphan_target: (u32, u32),
    min_len: u64,
    max_len: u64,
) -> EpochOut {
    let dur = big((i.duration_ms / 1000).max(1));
    let t = big(duration_target_s);
    let l = big(i.length);
    // (1) adjusted hash-rate estimate
    let raw_hr = &i.difficulty * big(i.length + i.uncles) / &dur;
    let mut hr = raw_hr;
    if !i.prev_hash_rate.is_zero() {
        let lower = &i.prev_hash_rate / big(TAU);
        let upper = &i.prev_hash_rate * big(TAU);
        if hr < lower {
            hr = lower;
        } else if hr > upper {
            hr = upper;
        }
    }
    if hr.is_zero() {
        hr = BigUint::one();
    }
    // (2) next length
    let o_ideal = Q::new(big(orphan_target.0 as u64), big(orphan_target.1 as u64));
    let o_i = Q::new(big(i.uncles), l.clone());
    let one = Q::int(BigUint::one());
    let (next_len, bound) = if i.uncles == 0 {
        (max_len.min(i.length * TAU), true)
    } else {
        let num = o_ideal.mul(&o_i.add(&one)).mul(&Q::int(t.clone())).mul(&Q::int(l.clone()));
        let den = o_i.mul(&o_ideal.add(&one)).mul(&Q::int(dur.clone()));
        let raw = num.div(&den).floor();
        let raw64 = (&raw & BigUint::from(u64::MAX)).to_u64().unwrap();
        let maxl = max_len.min(i.length * TAU);
        let minl = min_len.max(i.length / TAU);
        if raw64 > maxl {
            (maxl, true)
        } else if raw64 < minl {
            (minl, true)
        } else {
            (raw64, false)
        }
    };
    // (3) difficulty
    let nl = Q::int(big(next_len));
    let numer = Q::int(&hr * &t);
    let denom = if bound {
        if o_i.is_zero() {
            nl.clone()
        } else {
            let recip = o_i
                .add(&one)
                .mul(&Q::int(t.clone()))
                .mul(&Q::int(l.clone()))
                .div(&o_i.mul(&Q::int(dur.clone())).mul(&nl))
                .saturating_sub_int(&BigUint::one());
            if recip.is_zero() {
                o_ideal.add(&one).mul(&nl)
            } else {
                one.div(&recip).add(&one).mul(&nl)
            }
        }
    } else {
        o_ideal.add(&one).mul(&nl)
    };
    let diff = if numer.gt(&denom) {
        numer.div(&denom).floor()
    } else {
        BigUint::one()
    };
    let compact = difficulty_to_compact(&diff);
    EpochOut {
        length: next_len,
        hash_rate: hr,
        difficulty: diff,
        compact,
    }
}

pub fn to_u256(x: &BigUint) -> ckb_types::U256 {
    let mut b = x.to_bytes_le();
    b.resize(32, 0);
    ckb_types::U256::from_little_endian(&b).expect("32 bytes")
}
pub fn from_u256(x: &ckb_types::U256) -> BigUint {
    let mut b = [0u8; 32];
    x.into_little_endian(&mut b).expect("32 bytes");
    BigUint::from_bytes_le(&b)
}
