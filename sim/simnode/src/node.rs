//! The real node under simulation: RocksDB on tmpfs, Shared, the chain stages as steps.
use ckb_app_config::DBConfig;
use ckb_chain::verif::SimChain;
use ckb_chain::{LonelyBlock, VerifyResult};
use ckb_chain_spec::consensus::Consensus;
use ckb_shared::{Shared, SharedBuilder};
use ckb_types::{core::BlockView, packed::Byte32};
use std::path::{Path, PathBuf};
use std::sync::{Arc, Mutex};

pub type Verdicts = Arc<Mutex<Vec<(Byte32, Result<bool, String>)>>>;

pub struct Node {
    pub shared: Shared,
    pub chain: SimChain,
    pub dir: PathBuf,
    pub verdicts: Verdicts,
    pub pack: ckb_shared::SharedPackage,
}

thread_local! {
    static RT: std::cell::OnceCell<ckb_async_runtime::Handle> = const { std::cell::OnceCell::new() };
}

pub fn runtime() -> ckb_async_runtime::Handle {
    RT.with(|r| r.get_or_init(ckb_async_runtime::new_background_runtime).clone())
}

impl Node {
    /// Opens (or creates) the node's database under `dir` through the same path `ckb run` uses.
    pub fn open(dir: &Path, consensus: Consensus, freezer: bool, store_cfg: Option<ckb_app_config::StoreConfig>) -> Result<Node, String> {
        Self::open_with(dir, consensus, freezer, store_cfg, None, None, None)
    }

    #[allow(clippy::too_many_arguments)]
    pub fn open_with(
        dir: &Path,
        consensus: Consensus,
        freezer: bool,
        store_cfg: Option<ckb_app_config::StoreConfig>,
        rt: Option<ckb_async_runtime::Handle>,
        tx_pool: Option<ckb_app_config::TxPoolConfig>,
        block_assembler: Option<ckb_app_config::BlockAssemblerConfig>,
    ) -> Result<Node, String> {
        std::fs::create_dir_all(dir).map_err(|e| e.to_string())?;
        let db_config = DBConfig {
            path: dir.join("db"),
            ..Default::default()
        };
        std::fs::create_dir_all(dir.join("hm")).map_err(|e| e.to_string())?;
        let ancient = if freezer {
            // the real node's config layer creates the ancient directory (the lock file is opened before the files)
            std::fs::create_dir_all(dir.join("ancient")).map_err(|e| e.to_string())?;
            Some(dir.join("ancient"))
        } else {
            None
        };
        let mut builder = SharedBuilder::new("ckb", dir, &db_config, ancient, rt.unwrap_or_else(runtime), consensus)
            .map_err(|e| format!("open db: exit code {e:?}"))?
            .header_map_tmp_dir(Some(dir.join("hm")));
        if let Some(sc) = store_cfg {
            builder = builder.store_config(sc);
        }
        if let Some(tp) = tx_pool {
            builder = builder.tx_pool_config(tp);
        }
        builder = builder.block_assembler_config(block_assembler);
        let (shared, mut pack) = builder.build().map_err(|e| format!("build shared: {e:?}"))?;
        let chain = SimChain::new(pack.take_chain_services_builder());
        Ok(Node {
            shared,
            chain,
            dir: dir.to_path_buf(),
            verdicts: Arc::new(Mutex::new(Vec::new())),
            pack,
        })
    }

    /// Stage 1 (insert) on `block`, exactly what the ChainService thread does per request.
    pub fn deliver(&self, block: &BlockView) {
        self.deliver_with(block, None)
    }

    pub fn deliver_with(&self, block: &BlockView, switch: Option<ckb_verification_traits::Switch>) {
        let v = Arc::clone(&self.verdicts);
        let h = block.hash();
        let cb: Box<dyn FnOnce(VerifyResult) + Send + Sync> = Box::new(move |r: VerifyResult| {
            v.lock().unwrap().push((h, r.map_err(|e| e.to_string())));
        });
        self.chain.step_insert(LonelyBlock {
            block: Arc::new(block.clone()),
            switch,
            verify_callback: Some(cb),
        });
    }

    pub fn quiescent(&self) -> bool {
        self.chain.preload_pending() == 0 && self.chain.verify_pending() == 0 && self.chain.insert_pending() == 0
    }

    pub fn drain(&mut self) -> u64 {
        let mut n = 0;
        loop {
            let mut p = false;
            while self.chain.step_insert_queued() {
                n += 1;
                p = true;
            }
            // the verify queue holds 128 blocks: never let the preload stage fill it up
            while self.chain.verify_pending() < 100 && self.chain.step_preload() {
                n += 1;
                p = true;
            }
            while self.chain.step_verify() {
                n += 1;
                p = true;
            }
            if !p {
                return n;
            }
        }
    }
}
