//! Reference model of a CKB chain: naive on purpose. A `World` is the tree of all
//! blocks the simulator ever built; every derived quantity of a chain (live cells,
//! tx index, epoch, rewards, DAO, proposal window, chain-root MMR) is computed by this
//! file from the property texts and the RFCs, not by calling the node's calculators.
//! Trusted base: ckb-types builders/views and hash functions (C15 is out of scope).
use crate::bigmath::{self, big, EpochIn};
use ckb_chain_spec::consensus::{build_genesis_epoch_ext, Consensus, ConsensusBuilder, ProposalWindow};
use ckb_types::{
    bytes::Bytes,
    core::{
        hardfork::HardForks, BlockBuilder, BlockView, Capacity, DepType, EpochNumberWithFraction,
        HeaderView, ScriptHashType, TransactionBuilder, TransactionView, UncleBlockView,
    },
    packed::{self, Byte32, CellDep, CellInput, CellOutput, OutPoint, ProposalShortId, Script},
    prelude::*,
};
use num_bigint_dig::BigUint;
use num_traits::Zero;
use serde::{Deserialize, Serialize};
use std::collections::{BTreeMap, BTreeSet};
use std::sync::Arc;

pub const SHANNONS: u64 = 100_000_000;

/// Per-run consensus knobs (swarm-randomised by the generator).
#[derive(Clone, Debug, Serialize, Deserialize)]
pub struct Cfg {
    pub w_close: u64,
    pub w_far: u64,
    /// cellbase maturity as (number, index, length)
    pub maturity: (u64, u64, u64),
    pub median_count: usize,
    pub genesis_epoch_len: u64,
    pub epoch_duration_target: u64,
    pub permanent_difficulty: bool,
    pub primary_epoch_reward: u64,
    pub secondary_epoch_reward: u64,
    pub halving_interval: u64,
    pub orphan_rate_target: (u32, u32),
    pub genesis_cells: Vec<u64>,
    pub genesis_ts: u64,
    pub genesis_compact: u32,
    pub max_block_bytes: u64,
    pub max_block_cycles: u64,
    pub max_block_proposals: u64,
    /// genesis cells locked by a script whose verdict depends on the witness
    /// (exec_caller_from_witness: runs the program carried in witness 0)
    #[serde(default)]
    pub wlock_cells: usize,
    /// proof of work: 0 = Pow::Dummy, 1 = Eaglesong, 2 = EaglesongBlake2b (real nonces are mined by the model)
    #[serde(default)]
    pub pow: u8,
    /// generate conflicting twins of candidate transactions that break one capacity / DAO rule;
    /// only blocks with the mutation "commit_bad_tx" commit them
    #[serde(default)]
    pub bad_twins: bool,
    /// genesis carries dep-group cells (C04 probes): one listing the always_success code cell, one
    /// listing that cell and an ordinary spendable genesis cell, one listing only the witness-lock code cell
    #[serde(default)]
    pub dep_groups: bool,
}

impl Cfg {
    pub fn default_small() -> Cfg {
        Cfg {
            w_close: 2,
            w_far: 10,
            maturity: (0, 0, 1),
            median_count: 37,
            genesis_epoch_len: 8,
            epoch_duration_target: 8 * 8,
            permanent_difficulty: false,
            primary_epoch_reward: 1_917_808_21917808,
            secondary_epoch_reward: 613_698_63013698,
            halving_interval: 4,
            orphan_rate_target: (1, 40),
            genesis_cells: vec![50_000 * SHANNONS; 12],
            genesis_ts: 1_700_000_000_000,
            genesis_compact: 0x2001_0000,
            max_block_bytes: 597_000,
            max_block_cycles: 3_500_000_000,
            max_block_proposals: 1_500,
            wlock_cells: 0,
            pow: 0,
            bad_twins: false,
            dep_groups: false,
        }
    }
}

pub const MIN_EPOCH_LENGTH: u64 = 300;
pub const MAX_EPOCH_LENGTH: u64 = 1800;
pub const MAX_UNCLES: usize = 2;
/// a header may be stamped at most this far ahead of the verifying node's clock
pub const ALLOWED_FUTURE_MS: u64 = 15_000;
pub const PROPOSER_RATIO: (u64, u64) = (4, 10);
/// cost table of the model's fixed scripts (see `World::script_cost`)
pub const COST_ALWAYS_SUCCESS_VM0: u64 = 537;
pub const COST_ALWAYS_SUCCESS_TYPE: u64 = 539;
pub const COST_WITNESS_LOCK: u64 = 1138;
/// size of a proposal short id on the wire; uncles' proposals do not count towards the block size
pub const PROPOSAL_ID_BYTES: usize = 10;
pub const MAX_EXTENSION_BYTES: usize = 96;

#[derive(Clone, Debug)]
pub struct MEpoch {
    pub number: u64,
    pub start: u64,
    pub length: u64,
    pub base_reward: u64,
    pub remainder: u64,
    pub prev_hash_rate: BigUint,
    pub compact: u32,
    pub last_hash_prev_epoch: Byte32,
}
impl MEpoch {
    pub fn block_reward(&self, n: u64) -> u64 {
        if n >= self.start && n < self.start + self.remainder {
            self.base_reward + 1
        } else {
            self.base_reward
        }
    }
    pub fn secondary_issuance(&self, n: u64, epoch_issuance: u64) -> u64 {
        let mut g2 = epoch_issuance / self.length;
        let rem = epoch_issuance % self.length;
        if n >= self.start && n < self.start + rem {
            g2 += 1;
        }
        g2
    }
    pub fn primary_reward(&self) -> u64 {
        self.base_reward * self.length + self.remainder
    }
    pub fn fraction(&self, n: u64) -> EpochNumberWithFraction {
        EpochNumberWithFraction::new(self.number, n - self.start, self.length)
    }
    pub fn is_tail(&self, n: u64) -> bool {
        n == self.start + self.length - 1
    }
}

#[derive(Clone, Debug)]
pub struct MCell {
    pub output: CellOutput,
    pub data: Bytes,
    pub block_hash: Byte32,
    pub block_number: u64,
    pub block_epoch: EpochNumberWithFraction,
    pub tx_index: usize,
}
impl MCell {
    pub fn capacity(&self) -> u64 {
        let c: Capacity = self.output.capacity().into();
        c.as_u64()
    }
    pub fn occupied(&self) -> u64 {
        occupied(&self.output, self.data.len())
    }
    pub fn is_cellbase(&self) -> bool {
        self.tx_index == 0
    }
}

pub fn script_occupied(s: &Script) -> u64 {
    (s.args().raw_data().len() as u64 + 33) * SHANNONS
}
pub fn occupied(o: &CellOutput, data_len: usize) -> u64 {
    let mut x = 8 * SHANNONS + data_len as u64 * SHANNONS + script_occupied(&o.lock());
    if let Some(t) = o.type_().to_opt() {
        x += script_occupied(&t);
    }
    x
}

#[derive(Clone, Debug, Default, PartialEq, Eq)]
pub struct Dao {
    pub ar: u64,
    pub c: u64,
    pub s: u64,
    pub u: u64,
}
impl Dao {
    pub fn pack(&self) -> Byte32 {
        let mut buf = [0u8; 32];
        buf[0..8].copy_from_slice(&self.c.to_le_bytes());
        buf[8..16].copy_from_slice(&self.ar.to_le_bytes());
        buf[16..24].copy_from_slice(&self.s.to_le_bytes());
        buf[24..32].copy_from_slice(&self.u.to_le_bytes());
        Byte32::from_slice(&buf).unwrap()
    }
    pub fn unpack(b: &Byte32) -> Dao {
        let d = b.raw_data();
        let r = |i: usize| u64::from_le_bytes(d[i..i + 8].try_into().unwrap());
        Dao {
            c: r(0),
            ar: r(8),
            s: r(16),
            u: r(24),
        }
    }
}

/// State of one chain after its tip block, derived by replay.
#[derive(Clone, Debug)]
pub struct ChainState {
    /// block indexes (into World.blocks) from genesis to this tip; position = block number
    pub chain: Vec<usize>,
    pub epoch: MEpoch,
    pub total_uncles: u64,
    /// total uncles at the last block of the previous epoch (0 in the genesis epoch)
    pub uncles_before_epoch: u64,
    /// timestamp of the last block of the previous epoch (genesis ts in the genesis epoch)
    pub epoch_base_ts: u64,
    pub total_difficulty: BigUint,
    pub dao: Dao,
    pub cells: BTreeMap<OutPoint, MCell>,
    /// tx hash -> (block idx, index in block)
    pub txs: BTreeMap<Byte32, (usize, usize)>,
    /// hashes of uncles included anywhere on this chain
    pub uncles: BTreeSet<Byte32>,
    /// peaks (height, digest) of the chain-root MMR over the header digests of chain[0..=tip],
    /// maintained by pushing one leaf per block; `mmr_root` is cross-checked against the
    /// from-scratch computation on short chains
    pub mmr_peaks: Vec<(u32, packed::HeaderDigest)>,
}

pub fn mmr_push(peaks: &mut Vec<(u32, packed::HeaderDigest)>, leaf: packed::HeaderDigest) {
    peaks.push((0, leaf));
    while peaks.len() >= 2 && peaks[peaks.len() - 1].0 == peaks[peaks.len() - 2].0 {
        let (h, r) = peaks.pop().unwrap();
        let (_, l) = peaks.pop().unwrap();
        peaks.push((h + 1, merge_digest(&l, &r)));
    }
}

pub fn mmr_bag(peaks: &[(u32, packed::HeaderDigest)]) -> packed::HeaderDigest {
    let mut it = peaks.iter().rev();
    let mut acc = it.next().expect("non-empty mmr").1.clone();
    for (_, p) in it {
        acc = merge_digest(p, &acc);
    }
    acc
}

#[derive(Clone, Debug)]
pub struct MTx {
    pub tx: TransactionView,
    pub fee: u64,
    /// Some(rule) = the transaction breaks exactly that transaction rule wherever it is committed
    /// (a conflicting twin of a valid candidate); valid blocks never commit it
    pub bad: Option<&'static str>,
    pub id: ProposalShortId,
}

#[derive(Clone)]
pub struct MBlock {
    pub idx: usize,
    pub parent: Option<usize>,
    pub view: BlockView,
    pub number: u64,
    /// valid in its own context by construction (None for deliberately broken blocks: reason)
    pub invalid: Option<String>,
    /// self and all ancestors valid
    pub chain_valid: bool,
    /// fees of the committed non-cellbase transactions, in block order
    pub fees: Vec<u64>,
    /// script cycles of the committed non-cellbase transactions, in block order (model cost table)
    pub cycles: Vec<Option<u64>>,
    /// proposal ids of this block incl. its uncles'
    pub union_proposals: BTreeSet<ProposalShortId>,
    /// state after this block (for blocks on an invalid chain: as if the block had not been broken;
    /// only used to keep building descendants)
    pub st: Option<Arc<ChainState>>,
    /// epoch of this block
    pub epoch: MEpoch,
    pub miner: u8,
}

pub struct World {
    pub cfg: Cfg,
    pub consensus: Consensus,
    pub blocks: Vec<MBlock>,
    pub by_hash: BTreeMap<Byte32, usize>,
    pub code_dep: CellDep,
    pub code_hash: Byte32,
    pub wcode_dep: CellDep,
    pub wcode_hash: Byte32,
    /// the genesis cell that serves as NervosDAO code (always_success) and the DAO type hash
    pub dao_dep: CellDep,
    pub dao_type_hash: Byte32,
    /// all transactions ever generated (pool of candidates to propose/commit on any branch)
    pub txs: Vec<MTx>,
    pub tx_by_id: BTreeMap<ProposalShortId, usize>,
    /// planted gadget transactions by name (index into `txs`)
    pub planted: BTreeMap<String, usize>,
    /// newest timestamp among the ordinary blocks (those not stamped relative to the node's clock):
    /// the simulated node's clock starts there
    pub max_ts: u64,
    /// the scenario delivers a prefix with scripts disabled (such blocks record 0 cycles)
    pub assume_valid: bool,
    /// dep-group cells of the genesis block (see Cfg::dep_groups): [code only, code + spendable cell, wcode only]
    pub dep_group_cells: Vec<OutPoint>,
}

/// What to put into a new block.
#[derive(Clone, Debug, Default, Serialize, Deserialize)]
pub struct Recipe {
    /// milliseconds added to the parent's timestamp (clamped above the median)
    pub ts_delta: u64,
    pub miner: u8,
    /// up to this many new transactions are generated against the parent state
    pub new_txs: usize,
    /// propose up to this many pending candidates
    pub propose: usize,
    /// commit up to this many committable candidates
    pub commit: usize,
    /// try to include up to this many uncles
    pub uncles: usize,
    /// extra bytes appended to the extension after the 32-byte chain root (0..=64)
    pub ext_extra: usize,
    pub seed: u64,
    /// deliberate single-rule mutation (block becomes invalid); see `mutate`
    pub mutation: Option<String>,
    /// explicit directives for planted gadgets (executed only when the context makes them legal):
    /// "tx_since:<name>:<k>" create a transaction locked until block number + k;
    /// "propose:<name>", "commit:<name>" (only if valid here), "commit_immature:<name>" (only if its
    /// time lock is the ONLY thing in the way: the block becomes invalid);
    /// "uncle_ok:<block idx>" (only if a legal uncle here), "uncle_bad:<block idx>" (only if its
    /// parent is neither on this chain nor an included uncle: the block becomes invalid)
    #[serde(default, skip_serializing_if = "Vec::is_empty")]
    pub plant: Vec<String>,
    /// timestamp at a header-rule boundary instead of parent + ts_delta:
    /// "median_plus_one" (lowest legal value), "future_bound" (latest value a node whose clock shows
    /// the newest ordinary block's time still accepts: now + 15 s), "future_over" (one ms later)
    #[serde(default, skip_serializing_if = "Option::is_none")]
    pub ts_mode: Option<String>,
    /// fill the block up to a consensus limit exactly (still valid): "bytes" pads the cellbase
    /// witness message until the serialized size (uncles' proposals not counted) equals
    /// max_block_bytes; "proposals" pads the proposal list with unknown ids up to max_block_proposals
    #[serde(default, skip_serializing_if = "Option::is_none")]
    pub fill: Option<String>,
}

pub fn always_failure_bin() -> Bytes {
    static BIN: &[u8] = include_bytes!("/repo/script/testdata/always_failure");
    Bytes::from_static(BIN)
}

pub fn exec_caller_from_witness_bin() -> Bytes {
    static BIN: &[u8] = include_bytes!("/repo/script/testdata/exec_caller_from_witness");
    Bytes::from_static(BIN)
}

pub fn always_success_bin() -> Bytes {
    static BIN: &[u8] = include_bytes!("/repo/script/testdata/always_success");
    Bytes::from_static(BIN)
}

pub fn mul_ratio(x: u64, r: (u64, u64)) -> u64 {
    (x as u128 * r.0 as u128 / r.1 as u128) as u64
}

impl World {
    pub fn lock(&self, args: &[u8]) -> Script {
        Script::new_builder()
            .code_hash(self.code_hash.clone())
            .hash_type(ScriptHashType::Data)
            .args(Bytes::copy_from_slice(args))
            .build()
    }

    pub fn new(cfg: Cfg) -> World {
        let bin = always_success_bin();
        let code_hash = CellOutput::calc_data_hash(&bin);
        let lock0 = Script::new_builder()
            .code_hash(code_hash.clone())
            .hash_type(ScriptHashType::Data)
            .build();
        let dao_code_type = Script::new_builder()
            .code_hash(code_hash.clone())
            .hash_type(ScriptHashType::Data)
            .args(Bytes::from(vec![0xda, 0x00]))
            .build();
        // tx0: the genesis "cellbase": code cell + a plain cell; its witness names the genesis miner lock
        let code_cell = CellOutput::new_builder()
            .capacity(Capacity::shannons((bin.len() as u64 + 8 + 33 + 100) * SHANNONS))
            .lock(lock0.clone())
            .build();
        let tx0 = TransactionBuilder::default()
            .input(CellInput::new_cellbase_input(0))
            .output(code_cell)
            .output_data(bin.clone())
            .output(
                CellOutput::new_builder()
                    .capacity(Capacity::shannons(1000 * SHANNONS))
                    .lock(lock0.clone())
                    .build(),
            )
            .output_data(Bytes::new())
            // output 2 (OUTPUT_INDEX_DAO): the cell whose type script hash the consensus takes as the
            // NervosDAO type hash; its data is always_success, so the "DAO script" never objects and
            // only the node's own DAO accounting (maximum withdraw, fees, S) is exercised
            .output(
                CellOutput::new_builder()
                    .capacity(Capacity::shannons((bin.len() as u64 + 8 + 33 + 35 + 100) * SHANNONS))
                    .lock(lock0.clone())
                    .type_(Some(dao_code_type.clone()).pack())
                    .build(),
            )
            .output_data(bin.clone())
            .output(
                CellOutput::new_builder()
                    .capacity(Capacity::shannons((exec_caller_from_witness_bin().len() as u64 + 8 + 33 + 100) * SHANNONS))
                    .lock(lock0.clone())
                    .build(),
            )
            .output_data(exec_caller_from_witness_bin())
            .witness(lock0.clone().into_witness())
            .build();
        let wcode_hash = CellOutput::calc_data_hash(&exec_caller_from_witness_bin());
        let mut gtxs = vec![tx0.clone()];
        for i in 0..cfg.wlock_cells {
            let lock = Script::new_builder()
                .code_hash(wcode_hash.clone())
                .hash_type(ScriptHashType::Data1)
                .args(Bytes::from(vec![i as u8]))
                .build();
            gtxs.push(
                TransactionBuilder::default()
                    .input(CellInput::new(OutPoint::null(), 1_000 + i as u64))
                    .output(
                        CellOutput::new_builder()
                            .capacity(Capacity::shannons(20_000 * SHANNONS))
                            .lock(lock)
                            .build(),
                    )
                    .output_data(Bytes::new())
                    .build(),
            );
        }
        for (i, cap) in cfg.genesis_cells.iter().enumerate() {
            let args = [(i % 5) as u8, (i / 5) as u8];
            let lock = Script::new_builder()
                .code_hash(code_hash.clone())
                .hash_type(ScriptHashType::Data)
                .args(Bytes::copy_from_slice(&args[..(i % 3)]))
                .build();
            let data = if i % 4 == 1 {
                Bytes::from(vec![i as u8; i % 7])
            } else {
                Bytes::new()
            };
            gtxs.push(
                TransactionBuilder::default()
                    .input(CellInput::new(OutPoint::null(), i as u64 + 1))
                    .output(
                        CellOutput::new_builder()
                            .capacity(Capacity::shannons(*cap))
                            .lock(lock)
                            .build(),
                    )
                    .output_data(data)
                    .build(),
            );
        }
        let mut dep_group_cells: Vec<OutPoint> = Vec::new();
        if cfg.dep_groups {
            let code_op = OutPoint::new(tx0.hash(), 0);
            let wcode_op = OutPoint::new(tx0.hash(), 3);
            // the first ordinary genesis cell: sooner or later some transaction spends it
            let member = OutPoint::new(gtxs[1 + cfg.wlock_cells].hash(), 0);
            let group = |ops: &[OutPoint]| -> Bytes {
                let v: packed::OutPointVec = ops.to_vec().pack();
                v.as_bytes()
            };
            let datas = [group(&[code_op.clone()]), group(&[code_op.clone(), member]), group(&[wcode_op])];
            let lock = Script::new_builder().code_hash(code_hash.clone()).hash_type(ScriptHashType::Data).args(Bytes::from(vec![0xd6])).build();
            let mut tb = TransactionBuilder::default()
                .input(CellInput::new(OutPoint::null(), 900_000))
                .output(CellOutput::new_builder().capacity(Capacity::shannons(5_000 * SHANNONS)).lock(lock.clone()).build())
                .output_data(Bytes::new());
            for d in datas.iter() {
                tb = tb
                    .output(CellOutput::new_builder().capacity(Capacity::shannons((d.len() as u64 + 8 + 34 + 100) * SHANNONS)).lock(lock.clone()).build())
                    .output_data(d.clone());
            }
            let dg = tb.build();
            for i in 1..=3u32 {
                dep_group_cells.push(OutPoint::new(dg.hash(), i));
            }
            gtxs.push(dg);
        }
        let dao = ckb_dao_utils::genesis_dao_data_with_satoshi_gift(
            gtxs.iter().collect(),
            &ckb_types::H160([0u8; 20]),
            ckb_types::core::Ratio::new(1, 1),
            Capacity::shannons(cfg.primary_epoch_reward / cfg.genesis_epoch_len.max(1) + 1_000_000 * SHANNONS),
            Capacity::shannons(1000 * SHANNONS),
        )
        .expect("genesis dao");
        let genesis = BlockBuilder::default()
            .timestamp(cfg.genesis_ts)
            .compact_target(cfg.genesis_compact)
            .dao(dao)
            .transactions(gtxs)
            .build();
        let epoch_ext = build_genesis_epoch_ext(
            Capacity::shannons(cfg.primary_epoch_reward),
            cfg.genesis_compact,
            cfg.genesis_epoch_len,
            cfg.epoch_duration_target,
            cfg.orphan_rate_target,
        );
        let consensus = ConsensusBuilder::new(genesis.clone(), epoch_ext)
            .initial_primary_epoch_reward(Capacity::shannons(cfg.primary_epoch_reward))
            .secondary_epoch_reward(Capacity::shannons(cfg.secondary_epoch_reward))
            .primary_epoch_reward_halving_interval(cfg.halving_interval)
            .orphan_rate_target(cfg.orphan_rate_target)
            .epoch_duration_target(cfg.epoch_duration_target)
            .permanent_difficulty_in_dummy(cfg.permanent_difficulty)
            .tx_proposal_window(ProposalWindow(cfg.w_close, cfg.w_far))
            .cellbase_maturity(EpochNumberWithFraction::new(
                cfg.maturity.0,
                cfg.maturity.1,
                cfg.maturity.2,
            ))
            .median_time_block_count(cfg.median_count)
            .max_block_bytes(cfg.max_block_bytes)
            .max_block_cycles(cfg.max_block_cycles)
            .max_block_proposals_limit(cfg.max_block_proposals)
            .hardfork_switch(HardForks::new_dev())
            .pow(match cfg.pow {
                1 => ckb_pow::Pow::Eaglesong,
                2 => ckb_pow::Pow::EaglesongBlake2b,
                _ => ckb_pow::Pow::Dummy,
            })
            .build();

        // genesis state
        let gdiff = bigmath::compact_to_difficulty(cfg.genesis_compact);
        let orphan_count = cfg.genesis_epoch_len * cfg.orphan_rate_target.0 as u64 / cfg.orphan_rate_target.1 as u64;
        let genesis_hash_rate =
            &gdiff * big(cfg.genesis_epoch_len + orphan_count) / big(cfg.epoch_duration_target);
        let epoch = MEpoch {
            number: 0,
            start: 0,
            length: cfg.genesis_epoch_len,
            base_reward: cfg.primary_epoch_reward / cfg.genesis_epoch_len,
            remainder: cfg.primary_epoch_reward % cfg.genesis_epoch_len,
            prev_hash_rate: genesis_hash_rate,
            compact: cfg.genesis_compact,
            last_hash_prev_epoch: Byte32::zero(),
        };
        let mut cells = BTreeMap::new();
        let mut txs = BTreeMap::new();
        let gfrac = genesis.header().epoch();
        for (ti, tx) in genesis.transactions().iter().enumerate() {
            txs.insert(tx.hash(), (0usize, ti));
            for (oi, (o, d)) in tx.outputs_with_data_iter().enumerate() {
                cells.insert(
                    OutPoint::new(tx.hash(), oi as u32),
                    MCell {
                        output: o,
                        data: d,
                        block_hash: genesis.hash(),
                        block_number: 0,
                        block_epoch: gfrac,
                        tx_index: ti,
                    },
                );
            }
        }
        let st = ChainState {
            chain: vec![0],
            epoch: epoch.clone(),
            total_uncles: 0,
            uncles_before_epoch: 0,
            epoch_base_ts: cfg.genesis_ts,
            total_difficulty: gdiff,
            dao: Dao::unpack(&genesis.header().dao()),
            cells,
            txs,
            uncles: BTreeSet::new(),
            mmr_peaks: {
                let mut p = Vec::new();
                mmr_push(&mut p, leaf_digest(&genesis.header()));
                p
            },
        };
        let code_dep = CellDep::new_builder()
            .out_point(OutPoint::new(tx0.hash(), 0))
            .dep_type(DepType::Code)
            .build();
        let dao_dep = CellDep::new_builder()
            .out_point(OutPoint::new(tx0.hash(), 2))
            .dep_type(DepType::Code)
            .build();
        let dao_type_hash = dao_code_type.calc_script_hash();
        let wcode_dep = CellDep::new_builder()
            .out_point(OutPoint::new(tx0.hash(), 3))
            .dep_type(DepType::Code)
            .build();
        let g = MBlock {
            idx: 0,
            parent: None,
            number: 0,
            invalid: None,
            chain_valid: true,
            fees: vec![0; genesis.transactions().len().saturating_sub(1)],
            cycles: Vec::new(),
            union_proposals: BTreeSet::new(),
            st: Some(Arc::new(st)),
            epoch,
            view: genesis.clone(),
            miner: 0,
        };
        let mut by_hash = BTreeMap::new();
        by_hash.insert(genesis.hash(), 0);
        World {
            cfg,
            consensus,
            blocks: vec![g],
            by_hash,
            code_dep,
            code_hash,
            wcode_dep,
            wcode_hash,
            dao_dep,
            dao_type_hash,
            txs: Vec::new(),
            tx_by_id: BTreeMap::new(),
            planted: BTreeMap::new(),
            max_ts: 0,
            assume_valid: false,
            dep_group_cells,
        }
    }

    pub fn st(&self, idx: usize) -> &Arc<ChainState> {
        self.blocks[idx].st.as_ref().expect("state of a valid chain")
    }
    pub fn header(&self, idx: usize) -> HeaderView {
        self.blocks[idx].view.header()
    }

    /// past-median time including `idx` itself
    pub fn median_time(&self, chain: &[usize]) -> u64 {
        let mut ts: Vec<u64> = chain
            .iter()
            .rev()
            .take(self.cfg.median_count)
            .map(|i| self.blocks[*i].view.timestamp())
            .collect();
        ts.sort_unstable();
        ts[ts.len() >> 1]
    }

    /// epoch of the block following the tip of `st`
    pub fn next_epoch(&self, st: &ChainState) -> MEpoch {
        let tip_idx = *st.chain.last().unwrap();
        let tip = &self.blocks[tip_idx];
        let n = tip.number;
        let e = &st.epoch;
        if !e.is_tail(n) {
            return e.clone();
        }
        let halving = self.cfg.halving_interval;
        let next_primary = if (e.number + 1) % halving != 0 {
            e.primary_reward()
        } else {
            self.cfg.primary_epoch_reward >> ((e.number + 1) / halving)
        };
        if self.cfg.permanent_difficulty && self.cfg.pow == 0 {
            let len = self.cfg.epoch_duration_target.div_ceil(8);
            return MEpoch {
                number: e.number + 1,
                start: n + 1,
                length: len,
                base_reward: next_primary / len,
                remainder: next_primary % len,
                prev_hash_rate: e.prev_hash_rate.clone(),
                compact: e.compact,
                last_hash_prev_epoch: tip.view.hash(),
            };
        }
        let out = bigmath::next_epoch(
            &EpochIn {
                length: e.length,
                uncles: st.total_uncles - st.uncles_before_epoch,
                // a tail stamped before the last block of the previous epoch (legal: only the past-median bounds it)
                // counts as the shortest possible epoch
                duration_ms: tip.view.timestamp().saturating_sub(st.epoch_base_ts),
                prev_hash_rate: e.prev_hash_rate.clone(),
                difficulty: bigmath::compact_to_difficulty(tip.view.compact_target()),
            },
            self.cfg.epoch_duration_target,
            self.cfg.orphan_rate_target,
            MIN_EPOCH_LENGTH,
            MAX_EPOCH_LENGTH,
        );
        MEpoch {
            number: e.number + 1,
            start: n + 1,
            length: out.length,
            base_reward: next_primary / out.length,
            remainder: next_primary % out.length,
            prev_hash_rate: out.hash_rate,
            compact: out.compact,
            last_hash_prev_epoch: tip.view.hash(),
        }
    }

    /// ids proposed (uncles' included) by chain blocks numbered lo..=hi (block 0 never proposes)
    pub fn proposed_in(&self, chain: &[usize], lo: u64, hi: u64) -> BTreeSet<ProposalShortId> {
        let mut s = BTreeSet::new();
        if hi < lo {
            return s;
        }
        for n in lo.max(1)..=hi.min(chain.len() as u64 - 1) {
            s.extend(self.blocks[chain[n as usize]].union_proposals.iter().cloned());
        }
        s
    }

    /// (committable set, gap) for the block following the tip of `chain`
    pub fn proposal_view(&self, chain: &[usize]) -> (BTreeSet<ProposalShortId>, BTreeSet<ProposalShortId>) {
        let tip = chain.len() as u64 - 1;
        let n = tip + 1;
        if n <= self.cfg.w_close {
            return (BTreeSet::new(), self.proposed_in(chain, 1, tip));
        }
        let set = self.proposed_in(chain, n.saturating_sub(self.cfg.w_far), n - self.cfg.w_close);
        let gap = self.proposed_in(chain, n - self.cfg.w_close + 1, tip);
        (set, gap)
    }

    /// Reward of the block at `target` number on `chain`, finalised by block target + w_far + 1,
    /// whose parent is chain[target + w_far]. From the property text (C06).
    pub fn reward(&self, chain: &[usize], target: u64) -> (u64, u64, u64, u64) {
        self.reward_opt(chain, target, false)
    }

    /// `node_compat`: reproduce the node's treatment of target block 1 (see known findings): the
    /// node's backwards walk clamps the 'earlier proposer' range at block 1, so for target 1 it
    /// counts block 1 itself as an earlier proposer of everything committed before 1 + w_far.
    /// Used only to BUILD blocks the node accepts; the C06 oracle uses the property text.
    pub fn reward_opt(&self, chain: &[usize], target: u64, node_compat: bool) -> (u64, u64, u64, u64) {
        let tb = &self.blocks[chain[target as usize]];
        let primary = tb.epoch.block_reward(target);
        let secondary = if target == 0 {
            0
        } else {
            let pd = Dao::unpack(&self.blocks[chain[target as usize - 1]].view.header().dao());
            let g2 = tb.epoch.secondary_issuance(target, self.cfg.secondary_epoch_reward);
            (g2 as u128 * pd.u as u128 / pd.c as u128) as u64
        };
        let committer: u64 = tb.fees.iter().map(|f| f - mul_ratio(*f, PROPOSER_RATIO)).sum();
        // proposer share: txs committed at H in [target + w_close, target + w_far] whose id target
        // proposed and which no block in [H - w_far, target - 1] proposed before
        let mut proposer = 0u64;
        let mut remaining: BTreeSet<ProposalShortId> = tb.union_proposals.clone();
        let last = (target + self.cfg.w_far).min(chain.len() as u64 - 1);
        let first = (target + self.cfg.w_close).max(1);
        let mut h = last;
        while h >= first && !remaining.is_empty() {
            let cb = &self.blocks[chain[h as usize]];
            let earlier = self.proposed_in(chain, h.saturating_sub(self.cfg.w_far).max(1), target.saturating_sub(1));
            for (tx, fee) in cb.view.transactions().iter().skip(1).zip(cb.fees.iter()) {
                let id = tx.proposal_short_id();
                if remaining.remove(&id) {
                    let mut earlier_has = target >= 1
                        && h.saturating_sub(self.cfg.w_far).max(1) <= target - 1
                        && earlier.contains(&id);
                    if node_compat && target == 1 && h < target + self.cfg.w_far {
                        earlier_has = true;
                    }
                    if !earlier_has {
                        proposer += mul_ratio(*fee, PROPOSER_RATIO);
                    }
                }
            }
            if h == 0 {
                break;
            }
            h -= 1;
        }
        (primary, secondary, committer, proposer)
    }

    /// chain-root MMR over the header digests of chain[0..=upto] (RFC 0044)
    pub fn chain_root(&self, chain: &[usize], upto: u64) -> packed::HeaderDigest {
        let root = mmr_bag(&self.st(chain[upto as usize]).mmr_peaks);
        if upto < 40 {
            // cross-check the incremental peaks against the from-scratch definition
            let leaves: Vec<packed::HeaderDigest> = (0..=upto)
                .map(|n| leaf_digest(&self.blocks[chain[n as usize]].view.header()))
                .collect();
            assert_eq!(mmr_root(&leaves).as_slice(), root.as_slice(), "model MMR self-check");
        }
        root
    }

    /// candidate uncles for a block on `chain` (tip = parent) in epoch `ep`
    pub fn uncle_candidates(&self, st: &ChainState, ep: &MEpoch, number: u64) -> Vec<usize> {
        let on_chain: BTreeSet<usize> = st.chain.iter().cloned().collect();
        let mut out = Vec::new();
        for b in &self.blocks {
            if b.number == 0 || b.number >= number || on_chain.contains(&b.idx) {
                continue;
            }
            if b.invalid.is_some() && b.invalid.as_deref() != Some("body_only") {
                // an uncle only needs a valid header + proposals; keep it simple: valid blocks only
                continue;
            }
            if b.epoch.number != ep.number || b.view.compact_target() != ep.compact {
                continue;
            }
            if st.uncles.contains(&b.view.hash()) {
                continue;
            }
            // descendant rule: uncle's parent is on the main chain (or an included uncle)
            let p = b.parent.unwrap();
            let parent_ok = on_chain.contains(&p) || st.uncles.contains(&self.blocks[p].view.hash());
            if !parent_ok {
                continue;
            }
            out.push(b.idx);
        }
        out
    }

    pub fn dao_type(&self) -> Script {
        Script::new_builder().code_hash(self.dao_type_hash.clone()).hash_type(ScriptHashType::Type).build()
    }

    pub fn is_dao_cell(&self, c: &MCell) -> bool {
        c.output.type_().to_opt().map(|t| t.code_hash() == self.dao_type_hash && Into::<u8>::into(t.hash_type()) == Into::<u8>::into(ScriptHashType::Type)).unwrap_or(false)
    }

    /// deposit block number recorded in a withdrawing (phase 1) DAO cell, None for anything else
    pub fn dao_withdrawing_since(&self, c: &MCell) -> Option<u64> {
        if !self.is_dao_cell(c) || c.data.len() != 8 {
            return None;
        }
        let n = u64::from_le_bytes(c.data.as_ref().try_into().unwrap());
        if n > 0 { Some(n) } else { None }
    }

    /// RFC 0023: what a withdrawing cell may claim: (capacity - occupied) * AR(withdrawing block) / AR(deposit block) + occupied
    pub fn dao_max_withdraw(&self, c: &MCell, deposit_header: &HeaderView, withdrawing_header: &HeaderView) -> u64 {
        let ar_d = Dao::unpack(&deposit_header.dao()).ar;
        let ar_w = Dao::unpack(&withdrawing_header.dao()).ar;
        let occ = c.occupied();
        let counted = c.capacity() - occ;
        (counted as u128 * ar_w as u128 / ar_d as u128) as u64 + occ
    }

    /// interest paid out by `tx` when committed against `cells` (0 for anything but a phase-2 withdrawal)
    pub fn dao_interest(&self, tx: &TransactionView, cells: &BTreeMap<OutPoint, MCell>) -> u64 {
        let mut total = 0u64;
        for (i, inp) in tx.inputs().into_iter().enumerate() {
            let Some(c) = cells.get(&inp.previous_output()) else { continue };
            if self.dao_withdrawing_since(c).is_none() {
                continue;
            }
            let Some(w) = tx.witnesses().get(i) else { continue };
            let Ok(wa) = packed::WitnessArgs::from_slice(&w.raw_data()) else { continue };
            let Some(idx) = wa.input_type().to_opt().map(|b| b.raw_data()) else { continue };
            if idx.len() != 8 {
                continue;
            }
            let k = u64::from_le_bytes(idx.as_ref().try_into().unwrap()) as usize;
            let Some(dh) = tx.header_deps().get(k) else { continue };
            let (Some(di), Some(wi)) = (self.by_hash.get(&dh), self.by_hash.get(&c.block_hash)) else { continue };
            let w = self.dao_max_withdraw(c, &self.blocks[*di].view.header(), &self.blocks[*wi].view.header());
            total += w - c.capacity();
        }
        total
    }

    /// Cycles one script group costs: every script the model uses is a fixed program whose cost does
    /// not depend on the transaction (always_success as lock or type; the NervosDAO stand-in, also
    /// always_success but referenced by type hash and therefore run by the newest VM; the
    /// witness lock that `exec`s always_success out of witness 0). The constants are measured
    /// once and re-validated against the node's recorded cycles on every attached block (C02).
    pub fn script_cost(&self, s: &Script) -> Option<u64> {
        let ht: u8 = s.hash_type().into();
        let hv = |t: ScriptHashType| -> u8 { let b: packed::Byte = t.into(); b.into() };
        if s.code_hash() == self.code_hash && ht == hv(ScriptHashType::Data) {
            Some(COST_ALWAYS_SUCCESS_VM0)
        } else if s.code_hash() == self.dao_type_hash && ht == hv(ScriptHashType::Type) {
            Some(COST_ALWAYS_SUCCESS_TYPE)
        } else if s.code_hash() == self.wcode_hash && ht == hv(ScriptHashType::Data1) {
            Some(COST_WITNESS_LOCK)
        } else {
            None
        }
    }

    /// Script cycles of a transaction: one run per distinct lock script among the inputs and per
    /// distinct type script among inputs and outputs. None = an input is unknown or a script is
    /// not in the cost table.
    pub fn tx_cycles(&self, tx: &TransactionView, cells: &BTreeMap<OutPoint, MCell>) -> Option<u64> {
        let mut locks: BTreeSet<Vec<u8>> = BTreeSet::new();
        let mut types: BTreeSet<Vec<u8>> = BTreeSet::new();
        let mut sum = 0u64;
        for i in tx.inputs().into_iter() {
            let c = cells.get(&i.previous_output())?;
            if locks.insert(c.output.lock().as_slice().to_vec()) {
                sum += self.script_cost(&c.output.lock())?;
            }
            if let Some(t) = c.output.type_().to_opt() {
                if types.insert(t.as_slice().to_vec()) {
                    sum += self.script_cost(&t)?;
                }
            }
        }
        for o in tx.outputs().into_iter() {
            if let Some(t) = o.type_().to_opt() {
                if types.insert(t.as_slice().to_vec()) {
                    sum += self.script_cost(&t)?;
                }
            }
        }
        Some(sum)
    }

    pub fn add_tx(&mut self, tx: TransactionView, fee: u64) -> usize {
        let id = tx.proposal_short_id();
        if let Some(i) = self.tx_by_id.get(&id) {
            return *i;
        }
        self.txs.push(MTx { tx, fee, id: id.clone(), bad: None });
        self.tx_by_id.insert(id, self.txs.len() - 1);
        self.txs.len() - 1
    }

    pub fn add_bad_tx(&mut self, tx: TransactionView, rule: &'static str) -> usize {
        let i = self.add_tx(tx, 0);
        self.txs[i].bad = Some(rule);
        i
    }

    /// Is `cell` spendable in a block with header epoch `ep_frac` (cellbase maturity)?
    pub fn mature(&self, cell: &MCell, commit_epoch: EpochNumberWithFraction) -> bool {
        if !cell.is_cellbase() {
            return true;
        }
        let m = EpochNumberWithFraction::new(self.cfg.maturity.0, self.cfg.maturity.1, self.cfg.maturity.2);
        let threshold = cell.block_epoch.to_rational() + m.to_rational();
        commit_epoch.to_rational() >= threshold
    }

    /// Build a child of block `parent` following `recipe`. Returns the new block's index.
    pub fn build_child(&mut self, parent: usize, recipe: &Recipe) -> usize {
        let mut rng = simcore::Rng::new(recipe.seed);
        let pst = self.st(parent).clone();
        let pblock = self.blocks[parent].clone();
        let number = pblock.number + 1;
        let ep = self.next_epoch(&pst);
        let frac = ep.fraction(number);
        let median = self.median_time(&pst.chain);
        let ts = match recipe.ts_mode.as_deref() {
            Some("median_plus_one") => median + 1,
            Some("future_bound") => (self.max_ts.max(self.cfg.genesis_ts + 1000) + ALLOWED_FUTURE_MS).max(median + 1),
            Some("future_over") => (self.max_ts.max(self.cfg.genesis_ts + 1000) + ALLOWED_FUTURE_MS + 1).max(median + 1),
            _ => (pblock.view.timestamp() + recipe.ts_delta).max(median + 1),
        };

        // --- new transactions against the parent state (they enter the candidate pool)
        for _ in 0..recipe.new_txs {
            let spendable: Vec<(&OutPoint, &MCell)> = pst
                .cells
                .iter()
                .filter(|(op, c)| {
                    (c.output.lock().code_hash() == self.code_hash || c.output.lock().code_hash() == self.wcode_hash)
                        && c.output.type_().to_opt().map(|t| t.code_hash() == self.code_hash).unwrap_or(true)
                        && !(op.tx_hash() == self.blocks[0].view.transactions()[0].hash())
                        && c.capacity() >= 200 * SHANNONS
                })
                .collect();
            if spendable.is_empty() {
                break;
            }
            let k = rng.urange(1, 2.min(spendable.len()));
            let mut ins: Vec<(OutPoint, MCell)> = Vec::new();
            for _ in 0..k {
                let (op, c) = spendable[rng.idx(spendable.len())];
                if !ins.iter().any(|(o, _)| o == op) {
                    ins.push((op.clone(), c.clone()));
                }
            }
            // a witness-locked input must be input 0 (its lock executes witness 0); at most one per tx
            ins.sort_by_key(|(_, c)| c.output.lock().code_hash() != self.wcode_hash);
            if ins.len() > 1 && ins[1].1.output.lock().code_hash() == self.wcode_hash {
                ins.truncate(1);
            }
            let has_wlock = ins[0].1.output.lock().code_hash() == self.wcode_hash;
            let total: u64 = ins.iter().map(|(_, c)| c.capacity()).sum();
            let fee = rng.range(0, 3) * 1_000 + rng.range(0, 999);
            let m = rng.urange(1, 3);
            let mut outs = Vec::new();
            let mut left = total - fee;
            for j in 0..m {
                let args = [rng.below(5) as u8, rng.below(3) as u8];
                let lock = if has_wlock && j == 0 && rng.chance(2, 3) {
                    // keep a witness-locked cell in circulation
                    Script::new_builder()
                        .code_hash(self.wcode_hash.clone())
                        .hash_type(ScriptHashType::Data1)
                        .args(Bytes::from(vec![rng.below(4) as u8]))
                        .build()
                } else {
                    self.lock(&args[..rng.urange(0, 2)])
                };
                let data_len = if rng.chance(1, 4) { rng.urange(1, 9) } else { 0 };
                // some cells carry a type script (always_success with varying args): it runs for
                // inputs and outputs, counts towards the occupied size and enters the block filter
                let type_ = if rng.chance(1, 5) {
                    Some(Script::new_builder().code_hash(self.code_hash.clone()).hash_type(ScriptHashType::Data).args(Bytes::from(vec![0x7e, rng.below(6) as u8])).build())
                } else {
                    None
                };
                let o0 = CellOutput::new_builder().lock(lock).type_(type_.pack()).build();
                let min = occupied(&o0, data_len);
                let cap = if j + 1 == m {
                    left
                } else {
                    let hi = left.saturating_sub((m - j - 1) as u64 * 70 * SHANNONS);
                    if hi <= min { min } else { rng.range(min, hi.min(min + left / 2)) }
                };
                if cap < min || cap > left {
                    continue;
                }
                left -= cap;
                outs.push((o0.as_builder().capacity(Capacity::shannons(cap)).build(), Bytes::from(rng.bytes(data_len))));
            }
            if left != 0 || outs.is_empty() {
                continue;
            }
            let mut tb = TransactionBuilder::default().cell_dep(self.code_dep.clone());
            // one transaction in four carries an absolute block-number time lock a few blocks ahead:
            // it may be committed only in a block whose number has reached it (on whatever branch)
            let since: u64 = if rng.chance(1, 4) { number + rng.range(0, 6) } else { 0 };
            for (k, (op, _)) in ins.iter().enumerate() {
                tb = tb.input(CellInput::new(op.clone(), if k == 0 { since } else { 0 }));
            }
            for (o, d) in outs {
                tb = tb.output(o).output_data(d);
            }
            if has_wlock {
                // the lock runs the program carried in witness 0: always_success => valid
                tb = tb.cell_dep(self.wcode_dep.clone()).witness(always_success_bin().pack());
            } else if rng.chance(1, 2) {
                // witnesses vary independently of content
                let wl = rng.urange(0, 12);
                tb = tb.witness(Bytes::from(rng.bytes(wl)).pack());
            }
            let good = tb.build();
            self.add_tx(good.clone(), fee);
            // one candidate in six gets a conflicting twin that breaks one capacity rule
            if self.cfg.bad_twins && rng.chance(1, 6) {
                let mut outs: Vec<CellOutput> = good.outputs().into_iter().collect();
                let last = outs.len() - 1;
                let lc: Capacity = outs[last].capacity().into();
                let twin = if rng.chance(1, 2) {
                    // outputs exceed inputs by one shannon
                    outs[last] = outs[last].clone().as_builder().capacity(Capacity::shannons(lc.as_u64() + fee + 1)).build();
                    Some((good.as_advanced_builder().set_outputs(outs).build(), "outputs_exceed_inputs"))
                } else {
                    // an extra output one shannon below its occupied size, paid for by the last output
                    let extra0 = CellOutput::new_builder().lock(self.lock(&[0xba, 0xd0])).build();
                    let need = occupied(&extra0, 0) - 1;
                    let data_len = good.outputs_data().get(last).map(|d| d.raw_data().len()).unwrap_or(0);
                    if lc.as_u64() >= need + occupied(&outs[last], data_len) {
                        outs[last] = outs[last].clone().as_builder().capacity(Capacity::shannons(lc.as_u64() - need)).build();
                        outs.push(extra0.as_builder().capacity(Capacity::shannons(need)).build());
                        Some((good.as_advanced_builder().set_outputs(outs).output_data(Bytes::new()).build(), "output_below_occupied_size"))
                    } else {
                        None
                    }
                };
                if let Some((t, rule)) = twin {
                    self.add_bad_tx(t, rule);
                }
            }
        }

        // --- NervosDAO traffic against the parent state: deposits, phase-1 and phase-2 withdrawals
        if recipe.new_txs > 0 && number >= 2 {
            let plain: Vec<(OutPoint, MCell)> = pst
                .cells
                .iter()
                .filter(|(op, c)| c.output.lock().code_hash() == self.code_hash && c.output.type_().is_none() && op.tx_hash() != self.blocks[0].view.transactions()[0].hash() && c.capacity() >= 500 * SHANNONS)
                .map(|(o, c)| (o.clone(), c.clone()))
                .collect();
            let deposits: Vec<(OutPoint, MCell)> = pst.cells.iter().filter(|(_, c)| self.is_dao_cell(c) && self.dao_withdrawing_since(c).is_none() && c.block_number > 0 && c.data.len() == 8).map(|(o, c)| (o.clone(), c.clone())).collect();
            let withdrawing: Vec<(OutPoint, MCell)> = pst.cells.iter().filter(|(_, c)| self.dao_withdrawing_since(c).is_some() && c.block_number > 0).map(|(o, c)| (o.clone(), c.clone())).collect();
            let dao_type = self.dao_type();
            let fee = 1_000 + rng.range(0, 2_000);
            match rng.below(6) {
                0 | 1 if !plain.is_empty() => {
                    // deposit
                    let (op, c) = &plain[rng.idx(plain.len())];
                    let out = CellOutput::new_builder().lock(c.output.lock()).type_(Some(dao_type.clone()).pack()).capacity(Capacity::shannons(c.capacity() - fee)).build();
                    if c.capacity() - fee >= occupied(&out, 8) + 100 * SHANNONS {
                        let tx = TransactionBuilder::default()
                            .cell_dep(self.code_dep.clone())
                            .cell_dep(self.dao_dep.clone())
                            .input(CellInput::new(op.clone(), 0))
                            .output(out)
                            .output_data(Bytes::from(vec![0u8; 8]))
                            .build();
                        self.add_tx(tx, fee);
                    }
                }
                2 | 3 if !deposits.is_empty() => {
                    // phase 1: the deposit cell becomes a withdrawing cell that records the deposit block number
                    let (op, c) = &deposits[rng.idx(deposits.len())];
                    if c.capacity() - fee >= c.occupied() + 50 * SHANNONS {
                        let out = c.output.clone().as_builder().capacity(Capacity::shannons(c.capacity() - fee)).build();
                        let tx = TransactionBuilder::default()
                            .cell_dep(self.code_dep.clone())
                            .cell_dep(self.dao_dep.clone())
                            .header_dep(c.block_hash.clone())
                            .input(CellInput::new(op.clone(), 0))
                            .output(out)
                            .output_data(Bytes::from(c.block_number.to_le_bytes().to_vec()))
                            .build();
                        self.add_tx(tx, fee);
                    }
                }
                4 | 5 if !withdrawing.is_empty() => {
                    // phase 2: claim the deposit plus interest
                    let (op, c) = &withdrawing[rng.idx(withdrawing.len())];
                    let dn = self.dao_withdrawing_since(c).unwrap() as usize;
                    if let (Some(di), Some(wi)) = (pst.chain.get(dn).cloned(), self.by_hash.get(&c.block_hash).cloned()) {
                        let w = self.dao_max_withdraw(c, &self.blocks[di].view.header(), &self.blocks[wi].view.header());
                        let out = CellOutput::new_builder().lock(c.output.lock()).capacity(Capacity::shannons(w - fee)).build();
                        let wa = packed::WitnessArgs::new_builder().input_type(Some(Bytes::from(0u64.to_le_bytes().to_vec())).pack()).build();
                        let tx = TransactionBuilder::default()
                            .cell_dep(self.code_dep.clone())
                            .cell_dep(self.dao_dep.clone())
                            .header_dep(self.blocks[di].view.hash())
                            .header_dep(c.block_hash.clone())
                            .input(CellInput::new(op.clone(), 0))
                            .output(out)
                            .output_data(Bytes::new())
                            .witness(wa.as_bytes().pack())
                            .build();
                        self.add_tx(tx.clone(), fee);
                        if self.cfg.bad_twins && rng.chance(1, 2) {
                            let o = tx.outputs().get(0).unwrap();
                            if rng.chance(1, 2) {
                                // claims one shannon more than deposit plus interest
                                let t = tx.as_advanced_builder().set_outputs(vec![o.as_builder().capacity(Capacity::shannons(w + 1)).build()]).build();
                                self.add_bad_tx(t, "dao_withdraw_exceeds_maximum");
                            } else if w - fee > 2 * occupied(&o, 0) {
                                // a second output far below its occupied size
                                let small = CellOutput::new_builder().lock(self.lock(&[0xba, 0xd1])).capacity(Capacity::shannons(1)).build();
                                let t = tx
                                    .as_advanced_builder()
                                    .set_outputs(vec![o.as_builder().capacity(Capacity::shannons(w - fee - 1)).build(), small])
                                    .output_data(Bytes::new())
                                    .build();
                                self.add_bad_tx(t, "dao_withdraw_output_below_occupied_size");
                            }
                        }
                    }
                }
                _ => {}
            }
        }

        // --- uncles
        let mut uncles: Vec<UncleBlockView> = Vec::new();
        let mut uncle_hashes = Vec::new();
        if recipe.uncles > 0 {
            let mut cands = self.uncle_candidates(&pst, &ep, number);
            rng.shuffle(&mut cands);
            for c in cands.into_iter().take(recipe.uncles.min(MAX_UNCLES)) {
                uncles.push(self.blocks[c].view.as_uncle());
                uncle_hashes.push(self.blocks[c].view.hash());
            }
        }

        // --- commits: candidates whose id is in the window, unspent inputs, not yet committed here
        let win = self.proposed_in(&pst.chain, number.saturating_sub(self.cfg.w_far), number.saturating_sub(self.cfg.w_close));
        let mut cells = pst.cells.clone();
        let mut commits: Vec<usize> = Vec::new();
        let mut order: Vec<usize> = (0..self.txs.len()).collect();
        rng.shuffle(&mut order);
        // block cycle limit: a valid block stops committing before the sum of script cycles passes
        // max_block_cycles; the mutant "block_cycles_over" takes exactly one transaction too many
        let want_cycles_over = recipe.mutation.as_deref() == Some("block_cycles_over");
        let mut cyc_sum = 0u64;
        let mut cycles_over = false;
        if number > self.cfg.w_close {
            for ti in order.iter() {
                if commits.len() >= recipe.commit && !(want_cycles_over && !cycles_over && commits.len() < recipe.commit + 4) {
                    break;
                }
                let t = &self.txs[*ti];
                if t.bad.is_some() || !win.contains(&t.id) || pst.txs.contains_key(&t.tx.hash()) {
                    continue;
                }
                let ok = t.tx.inputs().into_iter().all(|i| {
                    cells
                        .get(&i.previous_output())
                        .map(|c| self.mature(c, frac))
                        .unwrap_or(false)
                });
                let since_ok = t.tx.inputs().into_iter().all(|i| {
                    let sv: u64 = i.since().into();
                    sv == 0 || (sv >> 56 == 0 && number >= sv)
                });
                let ok = ok && since_ok;
                let deps_ok = t.tx.cell_deps().into_iter().all(|d| cells.contains_key(&d.out_point()))
                    && t.tx.header_deps().into_iter().all(|h| {
                        self.by_hash.get(&h).map(|i| pst.chain.get(self.blocks[*i].number as usize) == Some(i)).unwrap_or(false)
                    });
                if !ok || !deps_ok {
                    continue;
                }
                match self.tx_cycles(&t.tx, &cells) {
                    // a script outside the cost table: not committed when the limit is tight
                    None if self.cfg.max_block_cycles < 1_000_000 => continue,
                    None => {}
                    Some(c) => {
                        if cyc_sum + c > self.cfg.max_block_cycles {
                            if want_cycles_over && !cycles_over {
                                cycles_over = true;
                            } else {
                                continue;
                            }
                        }
                        cyc_sum += c;
                    }
                }
                for i in t.tx.inputs().into_iter() {
                    cells.remove(&i.previous_output());
                }
                // outputs become available to later transactions of the same block
                for (oi, (o, d)) in t.tx.outputs_with_data_iter().enumerate() {
                    cells.insert(
                        OutPoint::new(t.tx.hash(), oi as u32),
                        MCell { output: o, data: d, block_hash: Byte32::zero(), block_number: number, block_epoch: frac, tx_index: commits.len() + 1 },
                    );
                }
                commits.push(*ti);
            }
        }

        // --- proposals: candidates not committed on this chain and still spendable-looking
        let mut proposals: Vec<ProposalShortId> = Vec::new();
        for ti in order.iter() {
            if proposals.len() >= recipe.propose {
                break;
            }
            let t = &self.txs[*ti];
            if pst.txs.contains_key(&t.tx.hash()) || commits.contains(ti) {
                continue;
            }
            if rng.chance(2, 3) {
                proposals.push(t.id.clone());
            }
        }
        if self.cfg.bad_twins {
            // rule-breaking twins of NervosDAO withdrawals are proposed as soon as they exist
            for t in self.txs.iter() {
                if t.bad.map(|b| b.starts_with("dao")).unwrap_or(false) && !proposals.contains(&t.id) && proposals.len() < recipe.propose + 2 && t.tx.inputs().into_iter().all(|i| pst.cells.contains_key(&i.previous_output())) {
                    proposals.push(t.id.clone());
                }
            }
        }

        // --- proposal limit: a valid block carries at most max_block_proposals ids
        let plimit = self.cfg.max_block_proposals as usize;
        proposals.truncate(plimit);
        if recipe.fill.as_deref() == Some("proposals") && plimit <= 64 {
            // exactly at the limit: padded with ids of transactions nobody knows
            while proposals.len() < plimit {
                let id = ProposalShortId::from_slice(&rng.bytes(10)).unwrap();
                if !proposals.contains(&id) {
                    proposals.push(id);
                }
            }
        }

        // --- planted gadget directives
        let mut planted_invalid: Option<&'static str> = None;
        for d in recipe.plant.clone() {
            let parts: Vec<&str> = d.split(':').collect();
            match parts.as_slice() {
                ["tx_since", name, k] => {
                    let k: u64 = k.parse().unwrap_or(0);
                    let pick = pst.cells.iter().find(|(op, c)| {
                        c.output.lock().code_hash() == self.code_hash && c.output.type_().is_none() && op.tx_hash() != self.blocks[0].view.transactions()[0].hash() && c.capacity() >= 500 * SHANNONS && !(c.is_cellbase() && c.block_number > 0)
                    });
                    if let Some((op, c)) = pick {
                        let fee = 1_500;
                        let out = CellOutput::new_builder().lock(self.lock(&[0x51, 0xce])).capacity(Capacity::shannons(c.capacity() - fee)).build();
                        let tx = TransactionBuilder::default()
                            .cell_dep(self.code_dep.clone())
                            .input(CellInput::new(op.clone(), number + k))
                            .output(out)
                            .output_data(Bytes::new())
                            .witness(Bytes::from(name.as_bytes().to_vec()).pack())
                            .build();
                        let idx = self.add_tx(tx, fee);
                        self.planted.insert(name.to_string(), idx);
                    }
                }
                ["propose", name] => {
                    if let Some(ti) = self.planted.get(*name) {
                        let id = self.txs[*ti].id.clone();
                        if !proposals.contains(&id) {
                            proposals.push(id);
                        }
                    }
                }
                ["commit", name] | ["commit_immature", name] => {
                    if let Some(ti) = self.planted.get(*name).cloned() {
                        let t = &self.txs[ti];
                        let in_win = win.contains(&t.id) && !pst.txs.contains_key(&t.tx.hash()) && !commits.contains(&ti) && number > self.cfg.w_close;
                        let live = t.tx.inputs().into_iter().all(|i| cells.get(&i.previous_output()).map(|c| self.mature(c, frac)).unwrap_or(false));
                        let locked = t.tx.inputs().into_iter().any(|i| {
                            let sv: u64 = i.since().into();
                            sv != 0 && number < sv
                        });
                        let want_bad = parts[0] == "commit_immature";
                        let deps_ok = t.tx.cell_deps().into_iter().all(|d| cells.contains_key(&d.out_point()))
                            && t.tx.header_deps().into_iter().all(|h| self.by_hash.get(&h).map(|i| pst.chain.get(self.blocks[*i].number as usize) == Some(i)).unwrap_or(false));
                        let cost = self.tx_cycles(&t.tx, &cells);
                        let fits = match cost {
                            Some(c) => cyc_sum + c <= self.cfg.max_block_cycles,
                            None => self.cfg.max_block_cycles >= 1_000_000,
                        };
                        if in_win && live && deps_ok && locked == want_bad && fits {
                            cyc_sum += cost.unwrap_or(0);
                            for i in t.tx.inputs().into_iter() {
                                cells.remove(&i.previous_output());
                            }
                            commits.push(ti);
                            if want_bad {
                                planted_invalid = Some("structural:commit_immature_since");
                            }
                        }
                    }
                }
                ["uncle_ok", idx] | ["uncle_bad", idx] => {
                    if let Ok(bi) = idx.parse::<usize>() {
                        if bi < self.blocks.len() && uncles.len() < MAX_UNCLES {
                            let legal = self.uncle_candidates(&pst, &ep, number).contains(&bi);
                            let b = &self.blocks[bi];
                            let on_chain: BTreeSet<usize> = pst.chain.iter().cloned().collect();
                            let only_parent_missing = b.number > 0
                                && b.number < number
                                && !on_chain.contains(&bi)
                                && b.invalid.is_none()
                                && b.epoch.number == ep.number
                                && b.view.compact_target() == ep.compact
                                && !pst.uncles.contains(&b.view.hash())
                                && b.parent.map(|p| !on_chain.contains(&p) && !pst.uncles.contains(&self.blocks[p].view.hash())).unwrap_or(false);
                            if parts[0] == "uncle_ok" && legal {
                                uncles.push(b.view.as_uncle());
                            } else if parts[0] == "uncle_bad" && only_parent_missing {
                                uncles.push(b.view.as_uncle());
                                planted_invalid = Some("structural:uncle_unknown_parent");
                            }
                        }
                    }
                }
                _ => {}
            }
        }

        // --- structural single-rule mutations (uncle rules, two-phase commit): applied only when
        // the context offers the material, otherwise the block stays valid
        let mut recipe = recipe.clone();
        let mut structural: Option<&'static str> = None;
        match recipe.mutation.as_deref() {
            Some("uncle_sibling") => {
                // a block with the same parent and therefore the same number: not lower than the block
                let n0 = self.blocks.len();
                let sib = self.build_plain(parent, recipe.ts_delta + 7, recipe.seed ^ 0x51b1, vec![], vec![]);
                let u = self.blocks[sib].view.as_uncle();
                self.rollback_to(n0);
                uncles = vec![u];
                structural = Some("structural:uncle_sibling");
            }
            Some("uncle_duplicate") => {
                if let Some(u) = uncles.first().cloned() {
                    uncles = vec![u.clone(), u];
                    structural = Some("structural:uncle_duplicate");
                }
            }
            Some("uncle_double_inclusion") => {
                // the parent block itself (already on the chain) or an uncle an ancestor included
                let already = pst.chain.iter().rev().flat_map(|i| self.blocks[*i].view.uncles().into_iter()).find(|u| u.epoch().number() == ep.number && u.compact_target() == ep.compact);
                if let Some(u) = already {
                    uncles = vec![u];
                    structural = Some("structural:uncle_double_inclusion");
                } else if pblock.number > 0 && pblock.epoch.number == ep.number && pblock.view.compact_target() == ep.compact {
                    uncles = vec![pblock.view.as_uncle()];
                    structural = Some("structural:uncle_double_inclusion");
                }
            }
            Some("uncle_unknown_parent") => {
                // a block of this epoch whose parent is neither on this chain nor an uncle this chain included
                let on_chain: BTreeSet<usize> = pst.chain.iter().cloned().collect();
                let cand = self.blocks.iter().find(|b| {
                    b.number > 1
                        && b.number < number
                        && !on_chain.contains(&b.idx)
                        && b.invalid.is_none()
                        && b.epoch.number == ep.number
                        && b.view.compact_target() == ep.compact
                        && !pst.uncles.contains(&b.view.hash())
                        && b.parent.map(|p| !on_chain.contains(&p) && !pst.uncles.contains(&self.blocks[p].view.hash())).unwrap_or(false)
                });
                if let Some(b) = cand {
                    uncles = vec![b.view.as_uncle()];
                    structural = Some("structural:uncle_unknown_parent");
                }
            }
            Some("uncle_too_many") => {
                // three fresh siblings of the parent (legal uncles one by one): one more than the maximum
                if let Some(gp) = pblock.parent {
                    if pblock.epoch.number == ep.number && pblock.view.compact_target() == ep.compact {
                        let n0 = self.blocks.len();
                        let mut us = Vec::new();
                        for k in 0..(MAX_UNCLES as u64 + 1) {
                            let sib = self.build_plain(gp, recipe.ts_delta + 11 + k, recipe.seed ^ (0x7a11 + k), vec![], vec![]);
                            us.push(self.blocks[sib].view.as_uncle());
                        }
                        self.rollback_to(n0);
                        uncles = us;
                        structural = Some("structural:uncle_too_many");
                    }
                }
            }
            Some("uncle_other_epoch") => {
                // the first block of an epoch embeds a sibling of its parent, which belongs to the previous epoch
                if let Some(gp) = pblock.parent {
                    if pblock.epoch.number != ep.number {
                        let n0 = self.blocks.len();
                        let sib = self.build_plain(gp, recipe.ts_delta + 13, recipe.seed ^ 0xe90c, vec![], vec![]);
                        let u = self.blocks[sib].view.as_uncle();
                        self.rollback_to(n0);
                        uncles = vec![u];
                        structural = Some("structural:uncle_other_epoch");
                    }
                }
            }
            Some("uncle_pow_invalid") => {
                // an otherwise legal uncle whose nonce does not meet its target
                if self.cfg.pow != 0 {
                    if let Some(gp) = pblock.parent {
                        if pblock.epoch.number == ep.number && pblock.view.compact_target() == ep.compact {
                            let n0 = self.blocks.len();
                            let sib = self.build_plain(gp, recipe.ts_delta + 17, recipe.seed ^ 0x90bad, vec![], vec![]);
                            let u = self.blocks[sib].view.as_uncle();
                            self.rollback_to(n0);
                            let h = u.header();
                            let pow_hash = ckb_hash::blake2b_256(h.data().raw().as_slice());
                            let mut nonce: u128 = h.nonce();
                            while pow_ok(self.cfg.pow, &pow_hash, nonce, h.compact_target()) {
                                nonce = nonce.wrapping_add(1);
                            }
                            let bad = packed::UncleBlock::new_builder()
                                .header(h.data().as_builder().nonce(nonce.pack()).build())
                                .proposals(u.data().proposals())
                                .build()
                                .into_view();
                            uncles = vec![bad];
                            structural = Some("structural:uncle_pow_invalid");
                        }
                    }
                }
            }
            Some("block_cycles_over") => {
                if cycles_over {
                    structural = Some("structural:block_cycles_over");
                }
            }
            Some("proposals_over_limit") => {
                // one id more than max_block_proposals
                if plimit <= 64 {
                    while proposals.len() < plimit + 1 {
                        let id = ProposalShortId::from_slice(&rng.bytes(10)).unwrap();
                        if !proposals.contains(&id) {
                            proposals.push(id);
                        }
                    }
                    structural = Some("structural:proposals_over_limit");
                }
            }
            Some("proposals_duplicate") => {
                // the same id twice, within the limit
                if plimit >= 2 {
                    if proposals.is_empty() {
                        proposals.push(ProposalShortId::from_slice(&rng.bytes(10)).unwrap());
                    }
                    proposals.truncate(plimit - 1);
                    let k = rng.idx(proposals.len());
                    let dup = proposals[k].clone();
                    proposals.push(dup);
                    structural = Some("structural:proposals_duplicate");
                }
            }
            Some(m @ ("uncle_proposals_over_limit" | "uncle_proposal_duplicate" | "uncle_proposals_hash" | "uncle_bad_target")) => {
                // an otherwise legal uncle (fresh sibling of the parent) whose proposal list breaks the
                // per-uncle limit, repeats an id, is not the one its header commits to, or whose target
                // is not the epoch's
                if let Some(gp) = pblock.parent {
                    if pblock.epoch.number == ep.number && pblock.view.compact_target() == ep.compact && (m != "uncle_proposals_over_limit" || plimit <= 64) {
                        let ids = |r: &mut simcore::Rng, n: usize| -> Vec<ProposalShortId> {
                            let mut v: Vec<ProposalShortId> = Vec::new();
                            while v.len() < n {
                                let id = ProposalShortId::from_slice(&r.bytes(10)).unwrap();
                                if !v.contains(&id) {
                                    v.push(id);
                                }
                            }
                            v
                        };
                        let (u, why) = match m {
                            "uncle_proposals_over_limit" => {
                                let v = ids(&mut rng, plimit + 1);
                                (self.forged_uncle(gp, recipe.ts_delta + 19, recipe.seed ^ 0x0b1, Some(v), true, false), "structural:uncle_proposals_over_limit")
                            }
                            "uncle_proposal_duplicate" if plimit >= 2 => {
                                let mut v = ids(&mut rng, 1);
                                v.push(v[0].clone());
                                (self.forged_uncle(gp, recipe.ts_delta + 23, recipe.seed ^ 0x0b2, Some(v), true, false), "structural:uncle_proposal_duplicate")
                            }
                            "uncle_proposals_hash" | "uncle_proposal_duplicate" => {
                                let v = ids(&mut rng, 1);
                                (self.forged_uncle(gp, recipe.ts_delta + 29, recipe.seed ^ 0x0b3, Some(v), false, false), "structural:uncle_proposals_hash")
                            }
                            _ => (self.forged_uncle(gp, recipe.ts_delta + 31, recipe.seed ^ 0x0b4, None, false, true), "structural:uncle_bad_target"),
                        };
                        uncles = vec![u];
                        structural = Some(why);
                    }
                }
            }
            Some("commit_immature_since") => {
                // proposed in the window, inputs live and mature, but its absolute time lock is still ahead
                let mut extra: Option<usize> = None;
                for ti in order.iter() {
                    let t = &self.txs[*ti];
                    if t.bad.is_some() || !win.contains(&t.id) || pst.txs.contains_key(&t.tx.hash()) || commits.contains(ti) {
                        continue;
                    }
                    let locked = t.tx.inputs().into_iter().any(|i| {
                        let sv: u64 = i.since().into();
                        sv != 0 && sv >> 56 == 0 && number < sv
                    });
                    let ok = t.tx.inputs().into_iter().all(|i| cells.get(&i.previous_output()).map(|c| self.mature(c, frac)).unwrap_or(false))
                        && t.tx.cell_deps().into_iter().all(|d| cells.contains_key(&d.out_point()))
                        && t.tx.header_deps().is_empty();
                    if locked && ok {
                        extra = Some(*ti);
                        break;
                    }
                }
                if let Some(ti) = extra {
                    commits.push(ti);
                    structural = Some("structural:commit_immature_since");
                }
            }
            Some("commit_bad_tx") => {
                // a proposed transaction whose inputs, deps and time locks are all fine here but which
                // breaks one transaction rule of its own
                let mut extra: Option<(usize, &'static str)> = None;
                // the rarer NervosDAO kinds first
                let mut bad_order: Vec<usize> = order.iter().cloned().filter(|i| self.txs[*i].bad.is_some()).collect();
                bad_order.sort_by_key(|i| !self.txs[*i].bad.unwrap_or("").starts_with("dao"));
                for ti in bad_order.iter() {
                    let t = &self.txs[*ti];
                    let Some(rule) = t.bad else { continue };
                    if !win.contains(&t.id) || pst.txs.contains_key(&t.tx.hash()) || commits.contains(ti) || number <= self.cfg.w_close {
                        continue;
                    }
                    let locked = t.tx.inputs().into_iter().any(|i| {
                        let sv: u64 = i.since().into();
                        sv != 0 && !(sv >> 56 == 0 && number >= sv)
                    });
                    let ok = t.tx.inputs().into_iter().all(|i| cells.get(&i.previous_output()).map(|c| self.mature(c, frac)).unwrap_or(false))
                        && t.tx.cell_deps().into_iter().all(|d| cells.contains_key(&d.out_point()))
                        && t.tx.header_deps().into_iter().all(|h| self.by_hash.get(&h).map(|i| pst.chain.get(self.blocks[*i].number as usize) == Some(i)).unwrap_or(false));
                    if ok && !locked {
                        extra = Some((*ti, rule));
                        break;
                    }
                }
                if let Some((ti, rule)) = extra {
                    for i in self.txs[ti].tx.inputs().into_iter() {
                        cells.remove(&i.previous_output());
                    }
                    commits.push(ti);
                    structural = Some(match rule {
                        "outputs_exceed_inputs" => "structural:commit_bad_tx:outputs_exceed_inputs",
                        "output_below_occupied_size" => "structural:commit_bad_tx:output_below_occupied_size",
                        "dao_withdraw_exceeds_maximum" => "structural:commit_bad_tx:dao_withdraw_exceeds_maximum",
                        _ => "structural:commit_bad_tx:dao_withdraw_output_below_occupied_size",
                    });
                }
            }
            Some("commit_unproposed") => {
                // a transaction whose inputs are live and mature but whose id is not in the window
                let mut extra: Option<usize> = None;
                for ti in order.iter() {
                    let t = &self.txs[*ti];
                    if t.bad.is_some() || win.contains(&t.id) || pst.txs.contains_key(&t.tx.hash()) || commits.contains(ti) {
                        continue;
                    }
                    let ok = t.tx.inputs().into_iter().all(|i| cells.get(&i.previous_output()).map(|c| self.mature(c, frac)).unwrap_or(false))
                        && t.tx.cell_deps().into_iter().all(|d| cells.contains_key(&d.out_point()))
                        && t.tx.header_deps().is_empty();
                    if ok {
                        extra = Some(*ti);
                        break;
                    }
                }
                if let Some(ti) = extra {
                    commits.push(ti);
                    structural = Some("structural:commit_unproposed");
                }
            }
            _ => {}
        }
        if matches!(recipe.mutation.as_deref(), Some("uncle_sibling" | "uncle_duplicate" | "uncle_double_inclusion" | "commit_unproposed" | "uncle_unknown_parent" | "commit_immature_since" | "uncle_too_many" | "uncle_other_epoch" | "uncle_pow_invalid" | "commit_bad_tx"
            | "block_cycles_over" | "proposals_over_limit" | "proposals_duplicate" | "uncle_proposals_over_limit" | "uncle_proposal_duplicate" | "uncle_proposals_hash" | "uncle_bad_target")) {
            recipe.mutation = structural.map(|s| s.to_string());
        }
        if recipe.mutation.is_none() {
            recipe.mutation = planted_invalid.map(|s| s.to_string());
        }
        if structural != Some("structural:proposals_over_limit") {
            proposals.truncate(plimit);
        }
        let committed: Vec<MTx> = commits.iter().map(|i| self.txs[*i].clone()).collect();
        self.assemble(parent, &pst, ep, ts, &recipe, committed, proposals, uncles)
    }

    /// A nonce for `raw` that meets (or, with `want_bad`, fails) its target under the run's engine.
    pub fn mine(&self, raw: &packed::RawHeader, start: u128, want_bad: bool) -> u128 {
        if self.cfg.pow == 0 {
            return start;
        }
        let pow_hash = ckb_hash::blake2b_256(raw.as_slice());
        let compact: u32 = raw.compact_target().unpack();
        let mut nonce = start;
        let mut tries = 0u64;
        while pow_ok(self.cfg.pow, &pow_hash, nonce, compact) == want_bad {
            nonce = nonce.wrapping_add(1u128 << 64).wrapping_add(0x9e37_79b9);
            tries += 1;
            if tries > 50_000_000 {
                break;
            }
        }
        nonce
    }

    /// A fresh child of `gp` (never delivered as a block) turned into an uncle whose proposal list
    /// and/or target were tampered with; its nonce is mined again where the header changed.
    pub fn forged_uncle(&mut self, gp: usize, ts_delta: u64, seed: u64, proposals: Option<Vec<ProposalShortId>>, fix_hash: bool, flip_target: bool) -> UncleBlockView {
        let n0 = self.blocks.len();
        let sib = self.build_plain(gp, ts_delta, seed, vec![], vec![]);
        let u = self.blocks[sib].view.as_uncle();
        self.rollback_to(n0);
        let h = u.header();
        let props: packed::ProposalShortIdVec = match &proposals {
            Some(p) => p.clone().pack(),
            None => u.data().proposals(),
        };
        let mut raw = h.data().raw().as_builder();
        if fix_hash {
            raw = raw.proposals_hash(props.calc_proposals_hash());
        }
        if flip_target {
            raw = raw.compact_target(Pack::<packed::Uint32>::pack(&(h.compact_target() ^ 1)));
        }
        let raw = raw.build();
        let nonce = if raw.as_slice() != h.data().raw().as_slice() { self.mine(&raw, h.nonce(), false) } else { h.nonce() };
        packed::UncleBlock::new_builder()
            .header(packed::Header::new_builder().raw(raw).nonce(nonce.pack()).build())
            .proposals(props)
            .build()
            .into_view()
    }

    /// A child of `parent` with exactly the given proposals and commits (no uncles, no new txs).
    pub fn build_plain(&mut self, parent: usize, ts_delta: u64, seed: u64, proposals: Vec<ProposalShortId>, committed: Vec<MTx>) -> usize {
        let pst = self.st(parent).clone();
        let pblock = self.blocks[parent].clone();
        let ep = self.next_epoch(&pst);
        let median = self.median_time(&pst.chain);
        let ts = (pblock.view.timestamp() + ts_delta).max(median + 1);
        let recipe = Recipe { ts_delta, miner: 2, seed, ..Default::default() };
        self.assemble(parent, &pst, ep, ts, &recipe, committed, proposals, Vec::new())
    }

    /// Forget the blocks with index >= n (they must never have been delivered).
    pub fn rollback_to(&mut self, n: usize) {
        while self.blocks.len() > n {
            let b = self.blocks.pop().unwrap();
            self.by_hash.remove(&b.view.hash());
        }
    }

    /// Put a block together from explicit parts (cellbase, dao, extension computed by the model).
    #[allow(clippy::too_many_arguments)]
    pub fn assemble(
        &mut self,
        parent: usize,
        pst: &ChainState,
        ep: MEpoch,
        ts: u64,
        recipe: &Recipe,
        committed: Vec<MTx>,
        proposals: Vec<ProposalShortId>,
        uncles: Vec<UncleBlockView>,
    ) -> usize {
        self.assemble_padded(parent, pst, ep, ts, recipe, committed, proposals, uncles, 0)
    }

    /// `msg_pad`: extra bytes in the cellbase witness message (the miner's free-form field), used to
    /// steer the serialized block size to a chosen value.
    pub fn assemble_padded(
        &mut self,
        parent: usize,
        pst: &ChainState,
        ep: MEpoch,
        ts: u64,
        recipe: &Recipe,
        mut committed: Vec<MTx>,
        mut proposals: Vec<ProposalShortId>,
        mut uncles: Vec<UncleBlockView>,
        msg_pad: usize,
    ) -> usize {
        let pblock = self.blocks[parent].clone();
        let number = pblock.number + 1;
        let frac = ep.fraction(number);
        let fees: Vec<u64> = committed.iter().map(|t| t.fee).collect();

        // cellbase
        // miners 250.. use a lock so large that, outside short epochs, the finalised reward cannot fund
        // the reward cell: the cellbase that finalises such a block has no output
        // (with a tight block size limit the oversized lock would not fit into any block)
        let miner_lock = if recipe.miner >= 250 && self.cfg.max_block_bytes > 40_000 { self.lock(&vec![0xC0; 30_000]) } else { self.lock(&[0xC0, recipe.miner]) };
        let mut cb = TransactionBuilder::default()
            .input(CellInput::new_cellbase_input(number))
            .witness(
                packed::CellbaseWitness::new_builder()
                    .lock(miner_lock)
                    .message(Bytes::from(vec![recipe.miner; (recipe.seed % 3) as usize + msg_pad]))
                    .build()
                    .as_bytes(),
            );
        let delay = self.cfg.w_far + 1;
        let mut cellbase_out: Option<(CellOutput, u64)> = None;
        if number > delay {
            let target = number - delay;
            let (p, s, c, pr) = self.reward_opt(&pst.chain, target, true);
            let total = p + s + c + pr;
            let tview = &self.blocks[pst.chain[target as usize]].view;
            // (descendants of a block with a broken cellbase witness are invalid anyway)
            let tlock = tview.transactions()[0]
                .witnesses()
                .get(0)
                .and_then(|w| packed::CellbaseWitness::from_slice(&w.raw_data()).ok())
                .map(|w| w.lock())
                .unwrap_or_default();
            let out = CellOutput::new_builder()
                .capacity(Capacity::shannons(total))
                .lock(tlock)
                .build();
            if occupied(&out, 0) <= total {
                cellbase_out = Some((out, total));
            }
        }
        if let Some((o, _)) = &cellbase_out {
            cb = cb.output(o.clone()).output_data(Bytes::new());
        }
        let cellbase = cb.build();

        // state transition + dao
        let mut cells = pst.cells.clone();
        let mut txs = pst.txs.clone();
        let mut added = 0u64;
        let mut freed = 0u64;
        let all_txs: Vec<TransactionView> =
            std::iter::once(cellbase.clone()).chain(committed.iter().map(|t| t.tx.clone())).collect();
        // sequential replay inside the block: a transaction may spend an output created earlier in
        // the same block (the creating block's hash is filled in once the header exists)
        let mut interests = 0u64;
        let mut cycles: Vec<Option<u64>> = Vec::new();
        for (ti, tx) in all_txs.iter().enumerate() {
            if ti > 0 {
                cycles.push(self.tx_cycles(tx, &cells));
                interests += self.dao_interest(tx, &cells);
                for i in tx.inputs().into_iter() {
                    if let Some(c) = cells.remove(&i.previous_output()) {
                        freed += c.occupied();
                    }
                }
            }
            for (oi, (o, d)) in tx.outputs_with_data_iter().enumerate() {
                added += occupied(&o, d.len());
                cells.insert(
                    OutPoint::new(tx.hash(), oi as u32),
                    MCell { output: o, data: d, block_hash: Byte32::zero(), block_number: number, block_epoch: frac, tx_index: ti },
                );
            }
        }
        let pd = &pst.dao;
        let g2 = ep.secondary_issuance(number, self.cfg.secondary_epoch_reward);
        let g = ep.block_reward(number) + g2;
        let miner_issuance = (g2 as u128 * pd.u as u128 / pd.c as u128) as u64;
        let dao = Dao {
            c: pd.c + g,
            u: (pd.u + added).saturating_sub(freed),
            s: (pd.s + (g2 - miner_issuance)).saturating_sub(interests),
            ar: pd.ar + (pd.ar as u128 * g2 as u128 / pd.c as u128) as u64,
        };

        // extension: chain root over ancestors, then optional extra bytes
        let root = self.chain_root(&pst.chain, pblock.number);
        let mut ext = root.calc_mmr_hash().raw_data().to_vec();
        let mut r2 = simcore::Rng::new(recipe.seed ^ 0xE7);
        ext.extend(r2.bytes(recipe.ext_extra.min(64)));
        if recipe.mutation.as_deref() == Some("extension_too_long") {
            // chain root followed by 65 bytes: one more than an extension may have
            ext.truncate(32);
            ext.extend(r2.bytes(MAX_EXTENSION_BYTES + 1 - 32));
        }

        let mut bb = BlockBuilder::default()
            .parent_hash(pblock.view.hash())
            .number(number)
            .timestamp(ts)
            .epoch(frac)
            .compact_target(ep.compact)
            .nonce((recipe.seed as u128) << 8 | recipe.miner as u128)
            .dao(dao.pack())
            .transactions(all_txs.clone())
            .proposals(proposals.clone())
            .uncles(uncles.clone())
            .extension(Some(Bytes::from(ext).pack()));
        let mut invalid = None;
        if let Some(m) = &recipe.mutation {
            let median = self.median_time(&pst.chain);
            let (b2, why) = mutate(bb, m, &all_txs, &dao, ep.compact, frac, median, number, &mut r2);
            bb = b2;
            invalid = why;
        }
        let mut view = bb.build();
        // block size rule: the serialized block, not counting the proposal ids carried by uncles,
        // may have at most max_block_bytes bytes
        if msg_pad == 0 {
            let limit = self.cfg.max_block_bytes as usize;
            let uncle_ids: usize = uncles.iter().map(|u| u.data().proposals().len()).sum();
            let size = view.data().as_slice().len() - PROPOSAL_ID_BYTES * uncle_ids;
            let want_over = recipe.mutation.as_deref() == Some("block_bytes_over");
            if want_over || recipe.fill.as_deref() == Some("bytes") {
                let target = if want_over { limit + 1 } else { limit };
                if size < target && target - size < 200_000 {
                    // every byte added to the message adds exactly one byte to the block
                    return self.assemble_padded(parent, pst, ep, ts, recipe, committed, proposals, uncles, target - size);
                }
            }
            if size > limit && recipe.mutation.is_none() {
                // a valid block has to fit: give up content, last things first
                if committed.pop().is_some() || uncles.pop().is_some() || proposals.pop().is_some() {
                    return self.assemble_padded(parent, pst, ep, ts, recipe, committed, proposals, uncles, 0);
                }
            }
        }
        if recipe.mutation.as_deref() == Some("block_bytes_over") {
            // the block is broken only if it really ended up above the limit
            let uncle_ids: usize = uncles.iter().map(|u| u.data().proposals().len()).sum();
            if view.data().as_slice().len() - PROPOSAL_ID_BYTES * uncle_ids <= self.cfg.max_block_bytes as usize {
                invalid = None;
            }
        }
        // commitments of the header to the body: broken after the block is put together
        match recipe.mutation.as_deref() {
            Some("tx_root") => {
                view = view.as_advanced_builder().transactions_root(Byte32::from_slice(&r2.bytes(32)).unwrap()).build_unchecked();
                invalid = Some("tx_root".into());
            }
            Some("proposals_hash") => {
                view = view.as_advanced_builder().proposals_hash(Byte32::from_slice(&r2.bytes(32)).unwrap()).build_unchecked();
                invalid = Some("proposals_hash".into());
            }
            Some("extension_too_long") => {
                invalid = Some("extension_too_long".into());
            }
            Some("extra_hash") => {
                view = view.as_advanced_builder().extra_hash(Byte32::from_slice(&r2.bytes(32)).unwrap()).build_unchecked();
                invalid = Some("extra_hash".into());
            }
            Some("hdr_epoch_malformed") => {
                // index == length
                let bad = EpochNumberWithFraction::new_unchecked(frac.number(), frac.length(), frac.length());
                let raw = view.data().header().raw().as_builder().epoch(bad.full_value()).build();
                let header = view.data().header().as_builder().raw(raw).build();
                view = with_header(&view, header);
            }
            Some("witness_root_only") => {
                // a witness changed after the transactions root was computed: the root binds witnesses
                if let Some(t) = all_txs.get(1) {
                    let mut ws: Vec<packed::Bytes> = t.witnesses().into_iter().collect();
                    ws.push(Bytes::from(vec![0x77]).pack());
                    let t2 = t.as_advanced_builder().set_witnesses(ws).build();
                    let mut txs = all_txs.clone();
                    txs[1] = t2;
                    view = view.as_advanced_builder().set_transactions(txs).build_unchecked();
                    invalid = Some("witness_root_only".into());
                }
            }
            _ => {}
        }
        // proof of work: the model mines a nonce (or, for the mutant, picks one that fails)
        if self.cfg.pow != 0 {
            let want_bad = recipe.mutation.as_deref() == Some("hdr_pow");
            let pow_hash = ckb_hash::blake2b_256(view.data().header().raw().as_slice());
            let mut nonce: u128 = view.nonce();
            let mut tries = 0u64;
            while pow_ok(self.cfg.pow, &pow_hash, nonce, view.compact_target()) == want_bad {
                nonce = nonce.wrapping_add(1u128 << 64).wrapping_add(0x9e37_79b9);
                tries += 1;
                if tries > 50_000_000 {
                    break;
                }
            }
            let header = view.data().header().as_builder().nonce(nonce).build();
            view = with_header(&view, header);
            if want_bad {
                invalid = Some("hdr_pow".into());
            }
        }
        if !matches!(recipe.ts_mode.as_deref(), Some("future_bound" | "future_over")) {
            self.max_ts = self.max_ts.max(view.timestamp());
        }
        let hash = view.hash();
        if let Some(i) = self.by_hash.get(&hash) {
            return *i;
        }

        let mut union_proposals: BTreeSet<ProposalShortId> = proposals.into_iter().collect();
        for u in &uncles {
            union_proposals.extend(u.data().proposals().into_iter());
        }
        let idx = self.blocks.len();
        let chain_valid = pblock.chain_valid && invalid.is_none();
        let st = if true {
            for (ti, tx) in all_txs.iter().enumerate() {
                txs.insert(tx.hash(), (idx, ti));
                for oi in 0..tx.outputs().len() {
                    if let Some(c) = cells.get_mut(&OutPoint::new(tx.hash(), oi as u32)) {
                        c.block_hash = hash.clone();
                    }
                }
            }
            let mut chain = pst.chain.clone();
            chain.push(idx);
            let mut unc = pst.uncles.clone();
            for u in &uncles {
                unc.insert(u.hash());
            }
            let new_epoch = ep.number != pst.epoch.number;
            Some(Arc::new(ChainState {
                chain,
                total_uncles: pst.total_uncles + uncles.len() as u64,
                uncles_before_epoch: if new_epoch { pst.total_uncles } else { pst.uncles_before_epoch },
                epoch_base_ts: if new_epoch { pblock.view.timestamp() } else { pst.epoch_base_ts },
                epoch: ep.clone(),
                total_difficulty: &pst.total_difficulty + bigmath::compact_to_difficulty(ep.compact),
                dao,
                cells,
                txs,
                uncles: unc,
                mmr_peaks: {
                    let mut p = pst.mmr_peaks.clone();
                    mmr_push(&mut p, leaf_digest(&view.header()));
                    p
                },
            }))
        } else {
            None
        };
        self.blocks.push(MBlock {
            idx,
            parent: Some(parent),
            number,
            invalid,
            chain_valid,
            fees,
            cycles,
            union_proposals,
            st,
            epoch: ep,
            view,
            miner: recipe.miner,
        });
        self.by_hash.insert(hash, idx);
        idx
    }

    /// The header rules of the property text for block `idx`, judged at node time `now`
    /// (milliseconds): Err(kind) names the first rule broken. Kinds "pow", "number", "ts_too_old",
    /// "ts_too_new" concern rules that only the header stage of the pipeline checks; the epoch
    /// kinds are checked again, in full, by the chain service.
    pub fn header_verdict(&self, idx: usize, now: u64) -> Result<(), &'static str> {
        let b = &self.blocks[idx];
        let h = b.view.header();
        let p = b.parent.expect("not genesis");
        let ph = self.blocks[p].view.header();
        let pow_hash = ckb_hash::blake2b_256(h.data().raw().as_slice());
        if !pow_ok(self.cfg.pow, &pow_hash, h.nonce(), h.compact_target()) {
            return Err("pow");
        }
        if h.number() != ph.number() + 1 {
            return Err("number");
        }
        let e = h.epoch();
        if e.length() == 0 || e.index() >= e.length() {
            return Err("epoch_malformed");
        }
        if ph.number() != 0 {
            let pe = ph.epoch();
            let ok = if pe.index() + 1 == pe.length() {
                e.number() == pe.number() + 1 && e.index() == 0
            } else {
                e.number() == pe.number() && e.index() == pe.index() + 1 && e.length() == pe.length()
            };
            if !ok {
                return Err("epoch_not_continuous");
            }
        }
        let median = self.median_time(&self.chain_of(p));
        if h.timestamp() <= median {
            return Err("ts_too_old");
        }
        if h.timestamp() > now + ALLOWED_FUTURE_MS {
            return Err("ts_too_new");
        }
        Ok(())
    }

    /// total difficulty of the chain ending at block idx (valid or not), by parent walk
    pub fn total_difficulty(&self, idx: usize) -> BigUint {
        let mut t = BigUint::zero();
        let mut i = Some(idx);
        while let Some(k) = i {
            t += bigmath::compact_to_difficulty(self.blocks[k].view.compact_target());
            i = self.blocks[k].parent;
        }
        t
    }

    pub fn chain_of(&self, idx: usize) -> Vec<usize> {
        let mut v = vec![];
        let mut i = Some(idx);
        while let Some(k) = i {
            v.push(k);
            i = self.blocks[k].parent;
        }
        v.reverse();
        v
    }
}

/// the same block with another header, no field recomputed (the view builders refuse some mutants)
pub fn with_header(view: &BlockView, header: packed::Header) -> BlockView {
    let data = view.data();
    if view.extension().is_some() {
        packed::BlockV1::from_slice(data.as_slice()).unwrap().as_builder().header(header).build().as_v0().into_view_without_reset_header()
    } else {
        data.as_builder().header(header).build().into_view_without_reset_header()
    }
}

/// RFC 0010 / pow rule written out: eaglesong over (pow hash ‖ nonce little-endian), for the
/// second engine hashed once more with blake2b; read as a big-endian number it must not exceed
/// the target that the header's own compact field encodes (a zero or overflowing target never passes)
pub fn pow_ok(kind: u8, pow_hash: &[u8; 32], nonce: u128, compact: u32) -> bool {
    if kind == 0 {
        return true;
    }
    let mut msg = [0u8; 48];
    msg[..32].copy_from_slice(pow_hash);
    msg[32..].copy_from_slice(&nonce.to_le_bytes());
    let mut out = [0u8; 32];
    eaglesong::eaglesong(&msg, &mut out);
    if kind == 2 {
        out = ckb_hash::blake2b_256(out);
    }
    let (target, overflow) = bigmath::compact_to_target(compact);
    if target.is_zero() || overflow {
        return false;
    }
    BigUint::from_bytes_be(&out) <= target
}

pub fn leaf_digest(h: &HeaderView) -> packed::HeaderDigest {
    let raw = h.data().raw();
    packed::HeaderDigest::new_builder()
        .children_hash(h.hash())
        .total_difficulty(bigmath::to_u256(&bigmath::compact_to_difficulty(h.compact_target())))
        .start_number(raw.number())
        .end_number(raw.number())
        .start_epoch(raw.epoch())
        .end_epoch(raw.epoch())
        .start_timestamp(raw.timestamp())
        .end_timestamp(raw.timestamp())
        .start_compact_target(raw.compact_target())
        .end_compact_target(raw.compact_target())
        .build()
}

/// RFC 0044 merge: children hash = H(lhs_mmr_hash || rhs_mmr_hash), difficulty summed,
/// start fields from the left, end fields from the right.
pub fn merge_digest(l: &packed::HeaderDigest, r: &packed::HeaderDigest) -> packed::HeaderDigest {
    let mut hasher = ckb_hash::new_blake2b();
    hasher.update(&ckb_hash::blake2b_256(l.as_slice()));
    hasher.update(&ckb_hash::blake2b_256(r.as_slice()));
    let mut hash = [0u8; 32];
    hasher.finalize(&mut hash);
    let ld: ckb_types::U256 = l.total_difficulty().into();
    let rd: ckb_types::U256 = r.total_difficulty().into();
    let sum = bigmath::from_u256(&ld) + bigmath::from_u256(&rd);
    packed::HeaderDigest::new_builder()
        .children_hash(Byte32::from_slice(&hash).unwrap())
        .total_difficulty(bigmath::to_u256(&sum))
        .start_number(l.start_number())
        .start_epoch(l.start_epoch())
        .start_timestamp(l.start_timestamp())
        .start_compact_target(l.start_compact_target())
        .end_number(r.end_number())
        .end_epoch(r.end_epoch())
        .end_timestamp(r.end_timestamp())
        .end_compact_target(r.end_compact_target())
        .build()
}

/// naive MMR root: peaks are the perfect binary trees of the binary decomposition of the leaf
/// count, left to right; peaks are bagged from the right.
pub fn mmr_root(leaves: &[packed::HeaderDigest]) -> packed::HeaderDigest {
    fn perfect(l: &[packed::HeaderDigest]) -> packed::HeaderDigest {
        if l.len() == 1 {
            return l[0].clone();
        }
        let h = l.len() / 2;
        merge_digest(&perfect(&l[..h]), &perfect(&l[h..]))
    }
    let mut peaks = Vec::new();
    let mut off = 0usize;
    let n = leaves.len();
    let mut bit = 1usize << (usize::BITS - 1 - n.leading_zeros());
    while bit > 0 {
        if n & bit != 0 {
            peaks.push(perfect(&leaves[off..off + bit]));
            off += bit;
        }
        bit >>= 1;
    }
    let mut acc = peaks.pop().unwrap();
    while let Some(p) = peaks.pop() {
        acc = merge_digest(&p, &acc);
    }
    acc
}

/// Apply one named single-rule mutation. Returns the builder and the reason the block is invalid
/// (None when the mutation turned out to be a no-op and the block stays valid).
#[allow(clippy::too_many_arguments)]
pub fn mutate(
    bb: BlockBuilder,
    m: &str,
    all_txs: &[TransactionView],
    dao: &Dao,
    compact: u32,
    frac: EpochNumberWithFraction,
    median: u64,
    number: u64,
    rng: &mut simcore::Rng,
) -> (BlockBuilder, Option<String>) {
    if m.starts_with("structural:") {
        // the block was put together with a rule-breaking uncle list / commit list
        return (bb, Some(m.into()));
    }
    match m {
        "dao_c" => {
            let mut d = dao.clone();
            d.c += 1;
            (bb.dao(d.pack()), Some(m.into()))
        }
        "dao_u" => {
            let mut d = dao.clone();
            d.u += 1;
            (bb.dao(d.pack()), Some(m.into()))
        }
        "dao_ar" => {
            let mut d = dao.clone();
            d.ar += 1;
            (bb.dao(d.pack()), Some(m.into()))
        }
        "dao_s" => {
            let mut d = dao.clone();
            d.s += 1;
            (bb.dao(d.pack()), Some(m.into()))
        }
        "target" => (bb.compact_target(compact ^ 1), Some(m.into())),
        "epoch_index" => {
            if frac.length() > 1 {
                let idx = (frac.index() + 1) % frac.length();
                (bb.epoch(EpochNumberWithFraction::new(frac.number(), idx, frac.length())), Some(m.into()))
            } else {
                (bb, None)
            }
        }
        "epoch_length" => (
            bb.epoch(EpochNumberWithFraction::new(frac.number(), frac.index(), frac.length() + 1)),
            Some(m.into()),
        ),
        "reward_plus_one" | "reward_minus_one" => {
            let cb = &all_txs[0];
            if cb.outputs().is_empty() {
                return (bb, None);
            }
            let o = cb.outputs().get(0).unwrap();
            let c: Capacity = o.capacity().into();
            let nc = if m == "reward_plus_one" { c.as_u64() + 1 } else { c.as_u64() - 1 };
            let ncb = cb
                .as_advanced_builder()
                .set_outputs(vec![o.as_builder().capacity(Capacity::shannons(nc)).build()])
                .build();
            let mut txs = all_txs.to_vec();
            txs[0] = ncb;
            (bb.set_transactions(txs), Some(m.into()))
        }
        "reward_lock" => {
            let cb = &all_txs[0];
            if cb.outputs().is_empty() {
                return (bb, None);
            }
            let o = cb.outputs().get(0).unwrap();
            let l = o.lock().as_builder().args(Bytes::from(rng.bytes(3))).build();
            let ncb = cb
                .as_advanced_builder()
                .set_outputs(vec![o.as_builder().lock(l).build()])
                .build();
            let mut txs = all_txs.to_vec();
            txs[0] = ncb;
            (bb.set_transactions(txs), Some(m.into()))
        }
        "cellbase_extra_output_early" => {
            // a cellbase output although there is no finalisation target / reward mismatch
            let cb = &all_txs[0];
            if !cb.outputs().is_empty() {
                return (bb, None);
            }
            let l = Script::new_builder().hash_type(ScriptHashType::Data).build();
            let ncb = cb
                .as_advanced_builder()
                .output(CellOutput::new_builder().capacity(Capacity::shannons(100 * SHANNONS)).lock(l).build())
                .output_data(Bytes::new())
                .build();
            let mut txs = all_txs.to_vec();
            txs[0] = ncb;
            (bb.set_transactions(txs), Some(m.into()))
        }
        "witness_swap" => {
            // same transaction content, different witness: the lock of input 0 executes witness 0,
            // so swapping always_success for always_failure makes the script fail while the tx hash
            // (and any cache entry keyed by it) stays the same
            let ok_w = always_success_bin();
            let pos = all_txs.iter().skip(1).position(|t| t.witnesses().get(0).map(|w| w.raw_data() == ok_w).unwrap_or(false));
            match pos {
                None => (bb, None),
                Some(i) => {
                    let i = i + 1;
                    let mut ws: Vec<packed::Bytes> = all_txs[i].witnesses().into_iter().collect();
                    ws[0] = always_failure_bin().pack();
                    let bad = all_txs[i].as_advanced_builder().set_witnesses(ws).build();
                    debug_assert_eq!(bad.hash(), all_txs[i].hash());
                    let mut txs = all_txs.to_vec();
                    txs[i] = bad;
                    (bb.set_transactions(txs), Some(m.into()))
                }
            }
        }
        // ---- header rules (checked by the header stage of the pipeline)
        "hdr_ts_median" => (bb.timestamp(median), Some(m.into())),
        "hdr_number" => (bb.number(number + 1), Some(m.into())),
        // (the field is patched after the block is put together: the builder refuses such a value)
        "hdr_epoch_malformed" => (bb, Some(m.into())),
        // the nonce is chosen after the block is put together
        "hdr_pow" => (bb, None),
        // ---- structure: one leading cellbase of the prescribed shape
        "two_cellbases" => {
            let extra = TransactionBuilder::default().input(CellInput::new_cellbase_input(number)).witness(all_txs[0].witnesses().get(0).unwrap()).build();
            let mut txs = all_txs.to_vec();
            txs.insert(1, extra);
            (bb.set_transactions(txs), Some(m.into()))
        }
        "cellbase_not_first" => {
            if all_txs.len() < 2 {
                return (bb, None);
            }
            let mut txs = all_txs.to_vec();
            txs.swap(0, 1);
            (bb.set_transactions(txs), Some(m.into()))
        }
        "cellbase_two_outputs" => {
            let cb = &all_txs[0];
            if cb.outputs().is_empty() {
                return (bb, None);
            }
            let o = cb.outputs().get(0).unwrap();
            let c: Capacity = o.capacity().into();
            let half = c.as_u64() / 2;
            if half < occupied(&o, 0) {
                return (bb, None);
            }
            let ncb = cb
                .as_advanced_builder()
                .set_outputs(vec![o.clone().as_builder().capacity(Capacity::shannons(half)).build(), o.as_builder().capacity(Capacity::shannons(c.as_u64() - half)).build()])
                .set_outputs_data(vec![Bytes::new().pack(), Bytes::new().pack()])
                .build();
            let mut txs = all_txs.to_vec();
            txs[0] = ncb;
            (bb.set_transactions(txs), Some(m.into()))
        }
        "cellbase_output_data" => {
            let cb = &all_txs[0];
            if cb.outputs().is_empty() {
                return (bb, None);
            }
            let ncb = cb.as_advanced_builder().set_outputs_data(vec![Bytes::from(vec![1u8]).pack()]).build();
            let mut txs = all_txs.to_vec();
            txs[0] = ncb;
            (bb.set_transactions(txs), Some(m.into()))
        }
        "cellbase_type_script" => {
            let cb = &all_txs[0];
            if cb.outputs().is_empty() {
                return (bb, None);
            }
            let o = cb.outputs().get(0).unwrap();
            let t = Script::new_builder().code_hash(o.lock().code_hash()).hash_type(ScriptHashType::Data).build();
            let ncb = cb.as_advanced_builder().set_outputs(vec![o.as_builder().type_(Some(t).pack()).build()]).build();
            let mut txs = all_txs.to_vec();
            txs[0] = ncb;
            (bb.set_transactions(txs), Some(m.into()))
        }
        "cellbase_input_since" => {
            let cb = &all_txs[0];
            let ncb = cb.as_advanced_builder().set_inputs(vec![CellInput::new_cellbase_input(number + 1)]).build();
            let mut txs = all_txs.to_vec();
            txs[0] = ncb;
            (bb.set_transactions(txs), Some(m.into()))
        }
        "cellbase_witness_garbage" => {
            let cb = &all_txs[0];
            let ncb = cb.as_advanced_builder().set_witnesses(vec![Bytes::from(rng.bytes(7)).pack()]).build();
            let mut txs = all_txs.to_vec();
            txs[0] = ncb;
            (bb.set_transactions(txs), Some(m.into()))
        }
        "cellbase_no_witness" => {
            let cb = &all_txs[0];
            let ncb = cb.as_advanced_builder().set_witnesses(vec![]).build();
            let mut txs = all_txs.to_vec();
            txs[0] = ncb;
            (bb.set_transactions(txs), Some(m.into()))
        }
        "dup_tx" => {
            if all_txs.len() < 2 {
                return (bb, None);
            }
            let mut txs = all_txs.to_vec();
            txs.push(all_txs[1].clone());
            (bb.set_transactions(txs), Some(m.into()))
        }
        "no_extension" => (bb.extension(None), Some(m.into())),
        "block_bytes_over" => (bb, Some(m.into())),
        "bad_chain_root" => {
            let e = rng.bytes(32);
            (bb.extension(Some(Bytes::from(e).pack())), Some(m.into()))
        }
        "short_extension" => {
            let e = rng.bytes(16);
            (bb.extension(Some(Bytes::from(e).pack())), Some(m.into()))
        }
        _ => (bb, None),
    }
}

impl World {
    /// Take over a block built by somebody else (the node's block assembler): derive its state by
    /// replay and check every consensus field against what the model computes for that position.
    /// Err(reason) = the block is not what the model would accept as valid there.
    pub fn adopt(&mut self, view: &BlockView) -> Result<usize, String> {
        if let Some(i) = self.by_hash.get(&view.hash()) {
            return Ok(*i);
        }
        let parent = *self
            .by_hash
            .get(&view.parent_hash())
            .ok_or_else(|| "parent unknown to the model".to_string())?;
        let pst = self.st(parent).clone();
        let pblock = self.blocks[parent].clone();
        let number = pblock.number + 1;
        if view.number() != number {
            return Err(format!("number {} != parent+1 {}", view.number(), number));
        }
        let ep = self.next_epoch(&pst);
        let frac = ep.fraction(number);
        if view.epoch() != frac {
            return Err(format!("epoch field {:#} != model {:#}", view.epoch(), frac));
        }
        if view.compact_target() != ep.compact {
            return Err(format!("compact target {:#x} != model {:#x}", view.compact_target(), ep.compact));
        }
        let median = self.median_time(&pst.chain);
        if view.timestamp() <= median {
            return Err(format!("timestamp {} <= median {}", view.timestamp(), median));
        }
        // two-phase commit window
        let win = self.proposed_in(&pst.chain, number.saturating_sub(self.cfg.w_far), number.saturating_sub(self.cfg.w_close));
        // transactions: liveness inside the block, fees
        let mut cells = pst.cells.clone();
        let mut txs = pst.txs.clone();
        let mut fees = Vec::new();
        let mut cycles = Vec::new();
        let mut added = 0u64;
        let mut freed = 0u64;
        let all = view.transactions();
        if all.is_empty() || !all[0].is_cellbase() {
            return Err("no leading cellbase".into());
        }
        let idx = self.blocks.len();
        for (ti, tx) in all.iter().enumerate() {
            if ti > 0 {
                if number <= self.cfg.w_close || !win.contains(&tx.proposal_short_id()) {
                    return Err(format!("tx {ti} committed outside the proposal window"));
                }
                if pst.txs.contains_key(&tx.hash()) {
                    return Err(format!("tx {ti} already committed on this chain"));
                }
                let mut inc = 0u64;
                cycles.push(self.tx_cycles(tx, &cells));
                for d in tx.cell_deps().into_iter() {
                    if !cells.contains_key(&d.out_point()) {
                        return Err(format!("tx {ti}: cell dep not live"));
                    }
                }
                for i in tx.inputs().into_iter() {
                    let c = cells
                        .remove(&i.previous_output())
                        .ok_or_else(|| format!("tx {ti}: input not live"))?;
                    if !self.mature(&c, frac) {
                        return Err(format!("tx {ti}: immature cellbase input"));
                    }
                    // absolute block-number time lock (the only kind pool-mode transactions carry)
                    let sv: u64 = i.since().into();
                    if sv != 0 && sv >> 56 == 0 && number < sv {
                        return Err(format!("tx {ti}: immature time lock (block number)"));
                    }
                    inc += c.capacity();
                    freed += c.occupied();
                }
                let outc: u64 = tx.outputs_capacity().map(|c| c.as_u64()).map_err(|e| e.to_string())?;
                if outc > inc {
                    return Err(format!("tx {ti}: outputs exceed inputs"));
                }
                fees.push(inc - outc);
            }
            for (oi, (o, d)) in tx.outputs_with_data_iter().enumerate() {
                added += occupied(&o, d.len());
                cells.insert(
                    OutPoint::new(tx.hash(), oi as u32),
                    MCell {
                        output: o,
                        data: d,
                        block_hash: view.hash(),
                        block_number: number,
                        block_epoch: frac,
                        tx_index: ti,
                    },
                );
            }
            txs.insert(tx.hash(), (idx, ti));
        }
        // parents-before-children order is implied by the liveness replay above
        // cellbase reward
        let delay = self.cfg.w_far + 1;
        let cb = &all[0];
        if number > delay {
            let target = number - delay;
            let (p, s, c, pr) = self.reward_opt(&pst.chain, target, true);
            let total = p + s + c + pr;
            let tview = &self.blocks[pst.chain[target as usize]].view;
            let tlock = packed::CellbaseWitness::from_slice(
                &tview.transactions()[0].witnesses().get(0).unwrap().raw_data(),
            )
            .unwrap()
            .lock();
            let out = CellOutput::new_builder().capacity(Capacity::shannons(total)).lock(tlock.clone()).build();
            if occupied(&out, 0) <= total {
                let paid: u64 = cb.outputs_capacity().map(|c| c.as_u64()).unwrap_or(0);
                if cb.outputs().len() != 1 || paid != total {
                    return Err(format!("cellbase pays {paid}, model reward {total}"));
                }
                if cb.outputs().get(0).unwrap().lock().as_slice() != tlock.as_slice() {
                    return Err("cellbase lock is not the target's".into());
                }
            } else if !cb.outputs().is_empty() {
                return Err("cellbase output although reward cannot fund a cell".into());
            }
        } else if !cb.outputs().is_empty() {
            return Err("cellbase output before any finalisation target".into());
        }
        // dao
        let pd = &pst.dao;
        let g2 = ep.secondary_issuance(number, self.cfg.secondary_epoch_reward);
        let g = ep.block_reward(number) + g2;
        let miner_issuance = (g2 as u128 * pd.u as u128 / pd.c as u128) as u64;
        let dao = Dao {
            c: pd.c + g,
            u: pd.u + added - freed,
            s: pd.s + (g2 - miner_issuance),
            ar: pd.ar + (pd.ar as u128 * g2 as u128 / pd.c as u128) as u64,
        };
        if dao.pack() != view.header().dao() {
            return Err(format!("dao field {:?} != model {:?}", Dao::unpack(&view.header().dao()), dao));
        }
        // limits: proposals (count, no repeats), serialized size without the uncles' proposal ids, script cycles
        {
            let props: Vec<ProposalShortId> = view.data().proposals().into_iter().collect();
            if props.len() as u64 > self.cfg.max_block_proposals {
                return Err(format!("{} proposals, limit {}", props.len(), self.cfg.max_block_proposals));
            }
            let uniq: BTreeSet<&ProposalShortId> = props.iter().collect();
            if uniq.len() != props.len() {
                return Err("a proposal id appears twice".into());
            }
            let uncle_ids: usize = view.uncles().into_iter().map(|u| u.data().proposals().len()).sum();
            let size = view.data().as_slice().len() - PROPOSAL_ID_BYTES * uncle_ids;
            if size as u64 > self.cfg.max_block_bytes {
                return Err(format!("block size {} above the limit {}", size, self.cfg.max_block_bytes));
            }
            if cycles.iter().all(|c| c.is_some()) {
                let sum: u64 = cycles.iter().map(|c| c.unwrap()).sum();
                if sum > self.cfg.max_block_cycles {
                    return Err(format!("block cycles {} above the limit {}", sum, self.cfg.max_block_cycles));
                }
            }
            for u in view.uncles().into_iter() {
                let up: Vec<ProposalShortId> = u.data().proposals().into_iter().collect();
                let uu: BTreeSet<&ProposalShortId> = up.iter().collect();
                if up.len() as u64 > self.cfg.max_block_proposals || uu.len() != up.len() {
                    return Err("uncle proposal list over the limit or with a repeated id".into());
                }
            }
        }
        // extension / chain root
        let root = self.chain_root(&pst.chain, pblock.number).calc_mmr_hash();
        match view.extension() {
            Some(e) if e.raw_data().len() >= 32 && e.raw_data().len() <= 96 && e.raw_data()[..32] == root.raw_data()[..] => {}
            _ => return Err("extension does not start with the chain root of the parent chain".into()),
        }
        // uncles
        let uncles = view.uncles();
        if uncles.data().len() > MAX_UNCLES {
            return Err("too many uncles".into());
        }
        let on_chain: BTreeSet<Byte32> = pst.chain.iter().map(|i| self.blocks[*i].view.hash()).collect();
        for u in uncles.clone().into_iter() {
            if u.compact_target() != ep.compact || u.epoch().number() != ep.number || u.number() >= number {
                return Err("uncle epoch/target/number rule".into());
            }
            if on_chain.contains(&u.hash()) || pst.uncles.contains(&u.hash()) {
                return Err("uncle double inclusion".into());
            }
            let ph = u.data().header().raw().parent_hash();
            let embedded = uncles.clone().into_iter().any(|o| o.hash() == ph && o.number() + 1 == u.number());
            if !(embedded || on_chain.contains(&ph) || pst.uncles.contains(&ph)) {
                return Err("uncle parent is neither on the chain nor an included uncle".into());
            }
        }
        let mut union_proposals: BTreeSet<ProposalShortId> = view.data().proposals().into_iter().collect();
        let mut unc = pst.uncles.clone();
        for u in uncles.clone().into_iter() {
            union_proposals.extend(u.data().proposals().into_iter());
            unc.insert(u.hash());
        }
        let mut chain = pst.chain.clone();
        chain.push(idx);
        let new_epoch = ep.number != pst.epoch.number;
        let st = ChainState {
            chain,
            total_uncles: pst.total_uncles + uncles.data().len() as u64,
            uncles_before_epoch: if new_epoch { pst.total_uncles } else { pst.uncles_before_epoch },
            epoch_base_ts: if new_epoch { pblock.view.timestamp() } else { pst.epoch_base_ts },
            epoch: ep.clone(),
            total_difficulty: &pst.total_difficulty + bigmath::compact_to_difficulty(ep.compact),
            dao,
            cells,
            txs,
            uncles: unc,
            mmr_peaks: {
                let mut p = pst.mmr_peaks.clone();
                mmr_push(&mut p, leaf_digest(&view.header()));
                p
            },
        };
        self.blocks.push(MBlock {
            idx,
            parent: Some(parent),
            number,
            invalid: None,
            chain_valid: pblock.chain_valid,
            fees,
            cycles,
            union_proposals,
            st: Some(Arc::new(st)),
            epoch: ep,
            view: view.clone(),
            miner: 0xff,
        });
        self.by_hash.insert(view.hash(), idx);
        Ok(idx)
    }
}
