//! C19 (light-client server): the REAL `LightClientProtocol::received` handler of
//! `ckb-light-client-protocol-server` is driven on the node under simulation (real RocksDB store,
//! real Shared/Snapshot, chain imported through the real stages with reorganisations and restarts)
//! with seeded, well-formed requests. Every captured response is checked the way a light client
//! checks it, against the MODEL only (`crate::model::World`): never against the node's own data.
//!
//! Seams: `LcNet` is a mock `CKBProtocolContext` that captures `send_message*` / `reply` / ban
//! calls; the handler's future is polled to completion on the spot with a no-op waker (the only
//! await points are the mock's sends, which are ready immediately), so no runtime, no real time.
//! All choices come from one `simcore::Rng`; nothing depends on `HashMap` iteration order (the
//! server's answer to GetTransactionsProof is ordered by a HashMap: it is compared as a set).
//!
//! Rules that are checked (source of each rule in brackets):
//!
//! * every reply: at most one message per request; the reply has the type that belongs to the
//!   request; a panic inside the handler is a violation.
//! * `SendLastState` [schema: "the verifiable header for the tip block in the server"]: header,
//!   uncles hash, extension = the model's tip block; parent chain root = model MMR root over the
//!   main chain up to tip-1; total difficulty (parent root's + own) = model total difficulty;
//!   `VerifiableHeader::is_valid` as a client calls it.
//! * a request whose `last_hash` is not on the main chain (a stored fork block, an unstored block,
//!   an unknown hash) [schema: "otherwise, returns the verifiable header for the tip block ...
//!   proof: be empty if the block hash sent from the client isn't on the chain"]: the reply carries
//!   the model's tip as `last_header`, no proof, no proved items, no missing items.
//! * `SendLastStateProof` for `last_hash` = main-chain block L, start S, `last_n_blocks` n,
//!   boundary B, difficulties D (td(k) = model total difficulty of main-chain block k):
//!     - `last_header` = model block L with parent chain root = model root over 0..L-1;
//!     - every returned header is the model's main-chain header of its number, with the model's
//!       uncles hash, extension and parent chain root;
//!     - numbers strictly ascending (a client rejects unsorted headers);
//!     - if L - S <= n: exactly the blocks S..L-1 [handler: "not enough blocks, so we take all of
//!       them; so there is no sampled blocks"];
//!     - else: the n blocks before L are all present [schema: "how many continuous blocks before
//!       the tip block should be included at least"]; every block k in [S, L) with td(k) >= B is
//!       present [schema: "all blocks, whose total difficulty is not less than this difficulty
//!       boundary, should be included"]; for every requested difficulty d the FIRST block in
//!       [S, L) whose td reaches d is present [handler: get_first_block_total_difficulty_is_
//!       not_less_than]; nothing else is returned;
//!     - if S > 0 and `start_hash` is not the main-chain block S: additionally the min(S, n)
//!       blocks before S [handler: `reorg_last_n_numbers`];
//!     - the MMR proof verifies exactly those headers' digests (model headers) at their leaf
//!       positions against the MODEL root over 0..L-1 with the MMR size derived from L, and does
//!       not verify when one header is replaced by a fork header of the same number;
//!     - requests the handler documents as client errors (status codes 4xx: start after last,
//!       difficulties not increasing / not below the boundary / not above td(S-1), boundary not in
//!       the range when sampling is needed, more than GET_LAST_STATE_PROOF_LIMIT samples) get no
//!       proof.
//! * `SendBlocksProof` for L and requested hashes H: headers = exactly the hashes of H that are
//!   main-chain blocks below L (as a set, no repeats), `missing_block_hashes` = exactly the rest
//!   (fork blocks, unknown hashes), V1 fields (uncles hashes, extensions) = the model blocks';
//!   proof as above; empty / over GET_BLOCKS_PROOF_LIMIT / duplicated hashes / H containing L
//!   itself are refused (4xx). Main-chain blocks ABOVE L can not be proved under L: they must
//!   never be served as proved; whether the server refuses or reports them missing is not
//!   documented (probe `lc_bp_req_block_after_last`, outcome probes).
//! * `SendTransactionsProof`: filtered blocks = exactly the main-chain blocks below L that commit
//!   a requested transaction, each once; header = model header; the transactions of a filtered
//!   block = exactly the requested ones it commits; CBMT proof + witnesses root reproduce the
//!   model header's transactions_root (as a client computes it); `missing_tx_hashes` = exactly
//!   the rest (committed on a fork only, unknown); V1 fields as above; MMR proof as above.
//!   Transactions committed in L itself or above L: never served as proved (probe).

use crate::bigmath;
use crate::model::{leaf_digest, World};
use ckb_light_client_protocol_server::LightClientProtocol;
use ckb_merkle_mountain_range::{leaf_index_to_mmr_size, leaf_index_to_pos};
use ckb_network::{
    async_trait, bytes::Bytes as P2pBytes, Behaviour, CKBProtocolContext, CKBProtocolHandler, Error, Peer, PeerIndex, ProtocolId, SupportProtocols, TargetSession,
};
use ckb_store::ChainStore;
use ckb_types::{
    core::HeaderView,
    packed::{self, Byte32},
    prelude::*,
    utilities::{
        merkle_mountain_range::{MMRProof, VerifiableHeader},
        merkle_root, MerkleProof as CbmtProof,
    },
};
use num_bigint_dig::BigUint;
use num_traits::{One, ToPrimitive, Zero};
use simcore::{Counters, Rng};
use std::cell::RefCell;
use std::collections::{BTreeMap, BTreeSet};
use std::future::Future;
use std::pin::Pin;
use std::sync::{Arc, Mutex};
use std::time::Duration;

/// (violation class, detail)
pub type V = (String, String);

fn v<T>(class: &str, detail: String) -> Result<T, V> {
    Err((class.to_string(), detail))
}

fn hx(h: &Byte32) -> String {
    h.as_slice().iter().take(6).map(|b| format!("{b:02x}")).collect()
}

// ------------------------------------------------------------------------------- the peer side

/// Mock network context: every send is captured, nothing leaves the process.
pub struct LcNet {
    sent: Mutex<Vec<P2pBytes>>,
    banned: Mutex<Vec<String>>,
}

impl LcNet {
    fn new() -> Self {
        LcNet { sent: Mutex::new(Vec::new()), banned: Mutex::new(Vec::new()) }
    }
    fn push(&self, data: P2pBytes) {
        self.sent.lock().unwrap().push(data);
    }
}

#[async_trait]
impl CKBProtocolContext for LcNet {
    async fn set_notify(&self, _interval: Duration, _token: u64) -> Result<(), Error> {
        Ok(())
    }
    async fn remove_notify(&self, _token: u64) -> Result<(), Error> {
        Ok(())
    }
    async fn async_quick_send_message(&self, _proto_id: ProtocolId, _peer_index: PeerIndex, data: P2pBytes) -> Result<(), Error> {
        self.push(data);
        Ok(())
    }
    async fn async_quick_send_message_to(&self, _peer_index: PeerIndex, data: P2pBytes) -> Result<(), Error> {
        self.push(data);
        Ok(())
    }
    async fn async_quick_filter_broadcast(&self, _target: TargetSession, _data: P2pBytes) -> Result<(), Error> {
        Ok(())
    }
    async fn async_future_task(&self, _task: Pin<Box<dyn Future<Output = ()> + 'static + Send>>, _blocking: bool) -> Result<(), Error> {
        Ok(())
    }
    async fn async_send_message(&self, _proto_id: ProtocolId, _peer_index: PeerIndex, data: P2pBytes) -> Result<(), Error> {
        self.push(data);
        Ok(())
    }
    async fn async_send_message_to(&self, _peer_index: PeerIndex, data: P2pBytes) -> Result<(), Error> {
        self.push(data);
        Ok(())
    }
    async fn async_filter_broadcast(&self, _target: TargetSession, _data: P2pBytes) -> Result<(), Error> {
        Ok(())
    }
    async fn async_filter_broadcast_with_proto(&self, _proto_id: ProtocolId, _target: TargetSession, _data: P2pBytes) -> Result<(), Error> {
        Ok(())
    }
    async fn async_quick_filter_broadcast_with_proto(&self, _proto_id: ProtocolId, _target: TargetSession, _data: P2pBytes) -> Result<(), Error> {
        Ok(())
    }
    async fn async_disconnect(&self, _peer_index: PeerIndex, _message: &str) -> Result<(), Error> {
        Ok(())
    }
    fn quick_send_message(&self, _proto_id: ProtocolId, _peer_index: PeerIndex, data: P2pBytes) -> Result<(), Error> {
        self.push(data);
        Ok(())
    }
    fn quick_send_message_to(&self, _peer_index: PeerIndex, data: P2pBytes) -> Result<(), Error> {
        self.push(data);
        Ok(())
    }
    fn quick_filter_broadcast(&self, _target: TargetSession, _data: P2pBytes) -> Result<(), Error> {
        Ok(())
    }
    fn quick_filter_broadcast_with_proto(&self, _proto_id: ProtocolId, _target: TargetSession, _data: P2pBytes) -> Result<(), Error> {
        Ok(())
    }
    fn future_task(&self, _task: Pin<Box<dyn Future<Output = ()> + 'static + Send>>, _blocking: bool) -> Result<(), Error> {
        Ok(())
    }
    fn send_message(&self, _proto_id: ProtocolId, _peer_index: PeerIndex, data: P2pBytes) -> Result<(), Error> {
        self.push(data);
        Ok(())
    }
    fn send_message_to(&self, _peer_index: PeerIndex, data: P2pBytes) -> Result<(), Error> {
        self.push(data);
        Ok(())
    }
    fn filter_broadcast(&self, _target: TargetSession, _data: P2pBytes) -> Result<(), Error> {
        Ok(())
    }
    fn disconnect(&self, _peer_index: PeerIndex, _message: &str) -> Result<(), Error> {
        Ok(())
    }
    fn get_peer(&self, _peer_index: PeerIndex) -> Option<Peer> {
        None
    }
    fn with_peer_mut(&self, _peer_index: PeerIndex, _f: Box<dyn FnOnce(&mut Peer)>) {}
    fn connected_peers(&self) -> Vec<PeerIndex> {
        vec![]
    }
    fn full_relay_connected_peers(&self) -> Vec<PeerIndex> {
        vec![]
    }
    fn report_peer(&self, _peer_index: PeerIndex, _behaviour: Behaviour) {}
    fn ban_peer(&self, _peer_index: PeerIndex, _duration: Duration, reason: String) {
        self.banned.lock().unwrap().push(reason);
    }
    fn protocol_id(&self) -> ProtocolId {
        SupportProtocols::LightClient.protocol_id()
    }
}

/// what came back for one request
enum Out {
    Reply(packed::LightClientMessage),
    /// no message; the peer was banned (status 4xx) with this reason
    Banned(String),
    /// no message, no ban (status 5xx or a request the server ignores)
    Silent,
}

struct Server {
    proto: LightClientProtocol,
    nc: Arc<LcNet>,
}

impl Server {
    /// Delivers one message to the real `received` handler and polls its future to completion.
    fn ask(&mut self, what: &str, msg: packed::LightClientMessage) -> Result<Out, V> {
        let data = P2pBytes::from(msg.as_slice().to_vec());
        let d: Arc<dyn CKBProtocolContext + Sync> = self.nc.clone();
        let peer: PeerIndex = 7usize.into();
        let proto = &mut self.proto;
        let r = std::panic::catch_unwind(std::panic::AssertUnwindSafe(|| {
            let mut fut = proto.received(d, peer, data);
            let mut cx = std::task::Context::from_waker(std::task::Waker::noop());
            for _ in 0..64 {
                if fut.as_mut().poll(&mut cx).is_ready() {
                    return true;
                }
            }
            false
        }));
        let sent: Vec<P2pBytes> = std::mem::take(&mut *self.nc.sent.lock().unwrap());
        let banned: Vec<String> = std::mem::take(&mut *self.nc.banned.lock().unwrap());
        match r {
            Err(_) => {
                let msg = crate::LAST_PANIC.lock().unwrap().clone().unwrap_or_default();
                return v("lc_handler_panic", format!("{what}: LightClientProtocol::received panicked: {msg}"));
            }
            Ok(false) => return v("lc_handler_did_not_complete", format!("{what}: the handler's future stayed pending although every send of the mock context is ready")),
            Ok(true) => {}
        }
        if sent.len() > 1 {
            return v("lc_multiple_replies", format!("{what}: {} messages sent for one request", sent.len()));
        }
        if let Some(bytes) = sent.into_iter().next() {
            if !banned.is_empty() {
                return v("lc_reply_and_ban", format!("{what}: the server answered and banned the peer ({})", banned[0]));
            }
            return match packed::LightClientMessageReader::from_compatible_slice(&bytes) {
                Ok(r) => Ok(Out::Reply(r.to_entity())),
                Err(e) => v("lc_reply_malformed", format!("{what}: the reply does not decode: {e}")),
            };
        }
        Ok(match banned.into_iter().next() {
            Some(reason) => Out::Banned(reason),
            None => Out::Silent,
        })
    }
}

// ------------------------------------------------------------------------------- the model side

/// The model's view of the node's main chain (position = block number) plus everything else the
/// model ever built (fork blocks, fork-only transactions).
struct Mv<'a> {
    w: &'a World,
    chain: Vec<usize>,
    tipn: u64,
    main: BTreeSet<usize>,
    /// model blocks that are not on the main chain
    forks: Vec<usize>,
    /// tx hash -> (block number, index) on the main chain
    txs: BTreeMap<Byte32, (u64, usize)>,
    tx_list: Vec<Byte32>,
    /// hashes of transactions committed only in non-main blocks
    fork_txs: Vec<Byte32>,
    roots: RefCell<BTreeMap<u64, packed::HeaderDigest>>,
}

impl<'a> Mv<'a> {
    fn new(w: &'a World, tip_idx: usize) -> Mv<'a> {
        let chain = w.st(tip_idx).chain.clone();
        let main: BTreeSet<usize> = chain.iter().cloned().collect();
        let forks: Vec<usize> = (1..w.blocks.len()).filter(|i| !main.contains(i)).collect();
        let mut txs = BTreeMap::new();
        let mut tx_list = Vec::new();
        for (n, bi) in chain.iter().enumerate() {
            for (i, tx) in w.blocks[*bi].view.transactions().iter().enumerate() {
                txs.insert(tx.hash(), (n as u64, i));
                tx_list.push(tx.hash());
            }
        }
        let mut fork_txs = Vec::new();
        let mut seen = BTreeSet::new();
        for bi in &forks {
            for tx in w.blocks[*bi].view.transactions().iter() {
                let h = tx.hash();
                if !txs.contains_key(&h) && seen.insert(h.clone()) {
                    fork_txs.push(h);
                }
            }
        }
        Mv { w, tipn: chain.len() as u64 - 1, chain, main, forks, txs, tx_list, fork_txs, roots: RefCell::new(BTreeMap::new()) }
    }
    fn blk(&self, n: u64) -> &crate::model::MBlock {
        &self.w.blocks[self.chain[n as usize]]
    }
    fn hdr(&self, n: u64) -> HeaderView {
        self.blk(n).view.header()
    }
    fn hash(&self, n: u64) -> Byte32 {
        self.blk(n).view.hash()
    }
    /// accumulated difficulty of main-chain blocks 0..=n
    fn td(&self, n: u64) -> &BigUint {
        &self.w.st(self.chain[n as usize]).total_difficulty
    }
    /// total difficulty before block n (0 before genesis)
    fn td_before(&self, n: u64) -> BigUint {
        if n == 0 { BigUint::zero() } else { self.td(n - 1).clone() }
    }
    /// MMR root over the header digests of main-chain blocks 0..=n
    fn root(&self, n: u64) -> packed::HeaderDigest {
        if let Some(r) = self.roots.borrow().get(&n) {
            return r.clone();
        }
        let r = self.w.chain_root(&self.chain, n);
        self.roots.borrow_mut().insert(n, r.clone());
        r
    }
    /// the parent chain root a verifiable header of main-chain block n must carry
    fn parent_root(&self, n: u64) -> packed::HeaderDigest {
        if n == 0 { packed::HeaderDigest::default() } else { self.root(n - 1) }
    }
    /// number of `h` if it is a main-chain block
    fn main_number(&self, h: &Byte32) -> Option<u64> {
        let i = *self.w.by_hash.get(h)?;
        if self.main.contains(&i) { Some(self.w.blocks[i].number) } else { None }
    }
    /// a model block with number n that is not the main-chain block n
    fn fork_at(&self, n: u64) -> Option<usize> {
        self.forks.iter().cloned().find(|i| self.w.blocks[*i].number == n)
    }
}

/// `what` names the slot in class names: last_state | tip_state | last_header | proved_header
fn check_vh(mv: &Mv, vh: &packed::VerifiableHeader, what: &str, ctx: &str, expect_number: Option<u64>) -> Result<u64, V> {
    let header = vh.header().into_view();
    let n = header.number();
    if let Some(e) = expect_number {
        if n != e || header.hash() != mv.hash(e) {
            return v(&format!("lc_{what}_differs"), format!("{ctx}: {what} is block {n} {} but the model's main-chain block {e} is {}", hx(&header.hash()), hx(&mv.hash(e))));
        }
    }
    if n > mv.tipn || header.hash() != mv.hash(n) {
        return v(&format!("lc_{what}_not_on_main_chain"), format!("{ctx}: {what} {} (number {n}) is not the model's main-chain block of that number", hx(&header.hash())));
    }
    let mb = mv.blk(n);
    if vh.header().as_slice() != mb.view.header().data().as_slice() {
        return v(&format!("lc_{what}_differs"), format!("{ctx}: header bytes of block {n} differ from the model's"));
    }
    if vh.uncles_hash() != mb.view.calc_uncles_hash() {
        return v(&format!("lc_{what}_uncles_hash_differs"), format!("{ctx}: uncles hash served for block {n} is not the model block's"));
    }
    let ext: Option<packed::Bytes> = vh.extension().to_opt();
    if ext.as_ref().map(|e| e.as_slice().to_vec()) != mb.view.extension().map(|e| e.as_slice().to_vec()) {
        return v(&format!("lc_{what}_extension_differs"), format!("{ctx}: extension served for block {n} is not the model block's"));
    }
    if vh.parent_chain_root().as_slice() != mv.parent_root(n).as_slice() {
        return v(&format!("lc_{what}_parent_chain_root_differs"), format!("{ctx}: parent chain root served for block {n} is not the MMR root over the model's main chain 0..{}", n.saturating_sub(1)));
    }
    // what a client computes from the verifiable header
    let cv: VerifiableHeader = vh.clone().into();
    if !cv.is_valid(0) {
        return v(&format!("lc_{what}_not_verifiable"), format!("{ctx}: VerifiableHeader::is_valid fails for block {n}"));
    }
    if bigmath::from_u256(&cv.total_difficulty()) != *mv.td(n) {
        return v(&format!("lc_{what}_total_difficulty_differs"), format!("{ctx}: total difficulty derived from the verifiable header of block {n} is {} but the model's is {}", cv.total_difficulty(), mv.td(n)));
    }
    Ok(n)
}

/// the "last block is not on the chain" form: the tip's verifiable header and nothing else
fn check_tip_state(mv: &Mv, ctx: &str, last_header: &packed::VerifiableHeader, proof_len: usize, proved: usize, missing: usize, asked: &Byte32) -> Result<(), V> {
    if last_header.header().into_view().hash() == *asked || proof_len > 0 || proved > 0 {
        return v(
            "lc_missing_block_served",
            format!("{ctx}: last_hash {} is not on the main chain, yet the reply carries last_header {} with {proof_len} proof items and {proved} proved items", hx(asked), hx(&last_header.header().into_view().hash())),
        );
    }
    if missing > 0 {
        return v("lc_tip_state_with_missing_items", format!("{ctx}: the tip-state reply lists {missing} missing items"));
    }
    check_vh(mv, last_header, "tip_state", ctx, Some(mv.tipn)).map(|_| ())
}

/// MMR proof check as a client does it: size from L, leaves from the returned headers (already
/// shown equal to the model's), root from the MODEL; plus the negative test with a fork header.
fn check_mmr(mv: &Mv, ctx: &str, cls: &str, last: u64, numbers: &[u64], items: Vec<packed::HeaderDigest>, probes: &mut Counters) -> Result<(), V> {
    if numbers.is_empty() {
        // nothing is proved: a client has nothing to verify; stray proof items prove nothing
        return Ok(());
    }
    if last == 0 {
        return v(&format!("lc_{cls}_proof_under_genesis"), format!("{ctx}: blocks {numbers:?} served as proved under the genesis block"));
    }
    let root = mv.root(last - 1);
    let size = leaf_index_to_mmr_size(last - 1);
    let leaves: Vec<(u64, packed::HeaderDigest)> = numbers.iter().map(|n| (leaf_index_to_pos(*n), leaf_digest(&mv.hdr(*n)))).collect();
    let ok = MMRProof::new(size, items.clone()).verify(root.clone(), leaves.clone()).unwrap_or(false);
    if !ok {
        return v(&format!("lc_{cls}_proof_does_not_verify"), format!("{ctx}: the MMR proof ({} items) for blocks {numbers:?} under last block {last} does not verify against the model's root over 0..{}", items.len(), last - 1));
    }
    // ... and against no other chain: one header replaced by a fork header of the same number
    let mut r = Rng::new(last ^ (numbers.len() as u64) << 32 ^ numbers[0] << 8);
    let at = r.idx(numbers.len());
    let victim = numbers[at];
    let (other, kind) = match mv.fork_at(victim) {
        Some(i) => (mv.w.blocks[i].view.header(), "fork"),
        None => (mv.hdr(if victim == mv.tipn { victim - 1 } else { victim + 1 }), "neighbour"),
    };
    if other.hash() != mv.hash(victim) {
        let mut forged = leaves.clone();
        forged[at].1 = leaf_digest(&other);
        if MMRProof::new(size, items.clone()).verify(root, forged).unwrap_or(false) {
            return v(&format!("lc_{cls}_proof_verifies_foreign_header"), format!("{ctx}: the proof under last block {last} also verifies a {kind} header at height {victim}"));
        }
        probes.inc(if kind == "fork" { "lc_negative_fork_header_rejected" } else { "lc_negative_other_header_rejected" });
    }
    if last >= 2 {
        if MMRProof::new(size, items).verify(mv.root(last - 2), leaves).unwrap_or(false) {
            return v(&format!("lc_{cls}_proof_verifies_against_other_root"), format!("{ctx}: the proof under last block {last} verifies against the root of another prefix"));
        }
    }
    Ok(())
}

// ------------------------------------------------------------------------------- request parts

#[derive(Clone, Debug)]
enum Last {
    Main(u64),
    /// a model block that is not on the main chain (index into World.blocks)
    Fork(usize),
    Unknown(Byte32),
}

fn rand_hash(r: &mut Rng) -> Byte32 {
    Byte32::from_slice(&r.bytes(32)).unwrap()
}

fn pick_main(r: &mut Rng, mv: &Mv) -> u64 {
    match r.weighted(&[30, 6, 6, 8, 50]) {
        0 => mv.tipn,
        1 => 0,
        2 => 1.min(mv.tipn),
        3 => mv.tipn.saturating_sub(1),
        _ => r.range(0, mv.tipn),
    }
}

fn pick_last(r: &mut Rng, mv: &Mv, off_main_pct: u64) -> Last {
    if r.below(100) < off_main_pct {
        if !mv.forks.is_empty() && r.chance(3, 4) {
            Last::Fork(*r.pick(&mv.forks))
        } else {
            Last::Unknown(rand_hash(r))
        }
    } else {
        Last::Main(pick_main(r, mv))
    }
}

fn last_hash(mv: &Mv, l: &Last) -> Byte32 {
    match l {
        Last::Main(n) => mv.hash(*n),
        Last::Fork(i) => mv.w.blocks[*i].view.hash(),
        Last::Unknown(h) => h.clone(),
    }
}

/// probes for a request that names something off the main chain (the store is consulted ONLY to
/// say which regime was reached, never to judge the answer)
fn note_off_main(shared: &ckb_shared::Shared, mv: &Mv, l: &Last, probes: &mut Counters) {
    match l {
        Last::Fork(i) => {
            if shared.store().get_block_header(&mv.w.blocks[*i].view.hash()).is_some() {
                probes.inc("lc_req_on_fork_block");
            } else {
                probes.inc("lc_req_on_unstored_block");
            }
        }
        Last::Unknown(_) => probes.inc("lc_req_unknown_hash"),
        Last::Main(_) => {}
    }
}

/// uniform in lo..=hi
fn between(r: &mut Rng, lo: &BigUint, hi: &BigUint) -> BigUint {
    if hi <= lo {
        return lo.clone();
    }
    let span = hi - lo;
    match span.to_u64() {
        Some(s) if s < u64::MAX => lo + BigUint::from(r.range(0, s)),
        _ => lo + ((BigUint::from(r.next_u64()) * &span) >> 64usize),
    }
}

// ------------------------------------------------------------------------------- GetLastState

fn do_last_state(p: &mut Server, mv: &Mv, r: &mut Rng, probes: &mut Counters) -> Result<(), V> {
    let subscribe = r.chance(1, 2);
    let msg = packed::LightClientMessage::new_builder().set(packed::GetLastState::new_builder().subscribe(subscribe).build()).build();
    let ctx = format!("GetLastState(subscribe={subscribe}) at tip {}", mv.tipn);
    match p.ask(&ctx, msg)? {
        Out::Reply(m) => match m.to_enum() {
            packed::LightClientMessageUnion::SendLastState(s) => {
                check_vh(mv, &s.last_header(), "last_state", &ctx, Some(mv.tipn))?;
                probes.inc("lc_last_state_checked");
                Ok(())
            }
            other => v("lc_unexpected_reply_type", format!("{ctx}: answered with {}", other.item_name())),
        },
        Out::Banned(why) => v("lc_valid_request_refused", format!("{ctx}: peer banned: {why}")),
        Out::Silent => v("lc_no_reply_to_valid_request", format!("{ctx}: no reply")),
    }
}

// ------------------------------------------------------------------------------- GetLastStateProof

#[derive(Clone, Debug)]
struct LspReq {
    last: Last,
    start_number: u64,
    start_hash: Byte32,
    n: u64,
    boundary: BigUint,
    diffs: Vec<BigUint>,
    /// which generator branch produced it (for the detail string only)
    tag: &'static str,
}

enum LspExpect {
    Refused(&'static str),
    TipState,
    Numbers { prefix: Vec<u64>, must_last_n: Vec<u64>, must_boundary: Vec<u64>, must_samples: Vec<u64>, sampling: bool },
}

/// The rules of the module comment, evaluated on the model by plain scans.
fn expect_lsp(mv: &Mv, q: &LspReq) -> LspExpect {
    if (q.n as u128) * 2 + q.diffs.len() as u128 > 1000 {
        return LspExpect::Refused("too_many_samples");
    }
    let l = match q.last {
        Last::Main(l) => l,
        _ => return LspExpect::TipState,
    };
    let s = q.start_number;
    if s > l {
        return LspExpect::Refused("start_after_last");
    }
    if q.diffs.windows(2).any(|d| d[0] >= d[1]) {
        return LspExpect::Refused("difficulties_not_increasing");
    }
    if q.diffs.last().map(|d| *d >= q.boundary).unwrap_or(false) {
        return LspExpect::Refused("difficulty_not_below_boundary");
    }
    if s > 0 && q.diffs.first().map(|d| *d <= *mv.td(s - 1)).unwrap_or(false) {
        return LspExpect::Refused("difficulty_not_above_start");
    }
    let prefix: Vec<u64> = if s == 0 || q.start_hash == mv.hash(s) { Vec::new() } else { (s - s.min(q.n)..s).collect() };
    if l - s <= q.n {
        return LspExpect::Numbers { prefix, must_last_n: (s..l).collect(), must_boundary: Vec::new(), must_samples: Vec::new(), sampling: false };
    }
    let must_boundary: Vec<u64> = (s..l).filter(|k| *mv.td(*k) >= q.boundary).collect();
    if must_boundary.is_empty() {
        return LspExpect::Refused("boundary_not_in_range");
    }
    let must_last_n: Vec<u64> = (l - q.n..l).collect();
    let mut must_samples: Vec<u64> = Vec::new();
    for d in &q.diffs {
        if let Some(k) = (s..l).find(|k| *mv.td(*k) >= *d) {
            if must_samples.last() != Some(&k) {
                must_samples.push(k);
            }
        }
    }
    LspExpect::Numbers { prefix, must_last_n, must_boundary, must_samples, sampling: true }
}

fn gen_lsp(r: &mut Rng, mv: &Mv) -> LspReq {
    let last = pick_last(r, mv, 14);
    let l = match last {
        Last::Main(l) => l,
        _ => {
            // a sane request about a block the server does not have on its chain
            let s = r.range(0, mv.tipn);
            return LspReq { last, start_number: s, start_hash: mv.hash(s), n: r.range(0, 5), boundary: mv.td(mv.tipn).clone(), diffs: Vec::new(), tag: "off_main" };
        }
    };
    // 0 everything fits in last_n, 1 sampling, 2 boundary outside, 3 a client error
    let regime = if l == 0 { *r.pick(&[0usize, 0, 3]) } else { r.weighted(&[25, 55, 8, 12]) };
    let mut q = match if l == 0 { 0 } else { regime } {
        0 => {
            let s = match r.below(4) {
                0 => 0,
                1 => l,
                2 => l.saturating_sub(r.range(0, 2)),
                _ => r.range(0, l),
            };
            let n = (l - s) + *r.pick(&[0u64, 0, 1, 2, 10, 400]);
            // boundary and difficulties are not used for choosing blocks here, but must be well-formed
            let lo = mv.td_before(s) + BigUint::one();
            let hi = mv.td(l).clone() + BigUint::from(3u32);
            let boundary = between(r, &lo, &hi) + BigUint::one();
            let mut diffs: Vec<BigUint> = (0..r.urange(0, 3)).map(|_| between(r, &lo, &boundary)).filter(|d| *d < boundary).collect();
            diffs.sort();
            diffs.dedup();
            LspReq { last: last.clone(), start_number: s, start_hash: mv.hash(s), n: n.min(480), boundary, diffs, tag: "all_in_last_n" }
        }
        _ => {
            // sampling needs L - S > n
            let s = match r.below(5) {
                0 => 0,
                1 => l - 1,
                2 => l.saturating_sub(r.range(1, 3)).min(l - 1),
                _ => r.range(0, l - 1),
            };
            let n = if r.chance(1, 6) { 0 } else { r.range(0, (l - s - 1).min(6)) };
            // boundary: the first block reaching it is `bnum`
            let bnum = match r.below(6) {
                0 => s,
                1 | 2 => l - 1,
                3 => r.range(s + (l - 1 - s) / 2, l - 1),
                _ => r.range(s, l - 1),
            };
            let b_lo = mv.td_before(bnum) + BigUint::one();
            let mut boundary = match r.below(3) {
                0 => mv.td(bnum).clone(),
                1 => b_lo.clone(),
                _ => between(r, &b_lo, mv.td(bnum)),
            };
            if regime == 2 {
                boundary = mv.td(l - 1).clone() + BigUint::from(r.range(1, 3));
            }
            // difficulties: at, just below, just above the accumulated difficulty of blocks, or anywhere
            let lo = mv.td_before(s) + BigUint::one();
            let mut diffs: Vec<BigUint> = Vec::new();
            // mostly below the tail (the blocks before min(bnum, L - n)), where sampling happens
            let tail_from = bnum.min(l - n);
            for _ in 0..r.urange(0, 8) {
                let k = if tail_from > s && r.chance(2, 3) { r.range(s, tail_from - 1) } else { r.range(s, l - 1) };
                let d = match r.below(4) {
                    0 => mv.td(k).clone(),
                    1 => mv.td(k).clone() + BigUint::one(),
                    2 => mv.td_before(k) + BigUint::one(),
                    _ => between(r, &lo, &boundary),
                };
                if d >= lo && d < boundary {
                    diffs.push(d);
                }
            }
            diffs.sort();
            diffs.dedup();
            LspReq { last: last.clone(), start_number: s, start_hash: mv.hash(s), n, boundary, diffs, tag: if regime == 2 { "boundary_outside" } else { "sampling" } }
        }
    };
    // the client's start block may have been reorganised away
    if q.start_number > 0 && r.chance(1, 4) {
        q.start_hash = match mv.fork_at(q.start_number) {
            Some(i) => mv.w.blocks[i].view.hash(),
            None => rand_hash(r),
        };
    }
    if regime == 3 {
        // break a well-formed request in one documented way
        match r.below(6) {
            0 => {
                q.start_number = l + r.range(1, 3);
                q.tag = "bad_start_after_last";
            }
            1 => {
                let d = mv.td(l).clone() + BigUint::from(5u32);
                q.boundary = d.clone() + BigUint::from(9u32);
                q.diffs = vec![d.clone() + BigUint::one(), d];
                if q.start_number > l {
                    q.start_number = l;
                }
                q.tag = "bad_unsorted";
            }
            2 => {
                q.diffs = vec![q.boundary.clone()];
                q.tag = "bad_difficulty_at_boundary";
            }
            3 => {
                q.n = *r.pick(&[500u64, 501, 1 << 40, u64::MAX, u64::MAX / 2 + 1]);
                q.diffs = vec![mv.td(l).clone() + BigUint::one()];
                q.boundary = mv.td(l).clone() + BigUint::from(2u32);
                q.tag = "bad_too_many";
            }
            4 if q.start_number > 0 => {
                q.diffs = vec![mv.td(q.start_number - 1).clone()];
                if q.boundary <= q.diffs[0] {
                    q.boundary = q.diffs[0].clone() + BigUint::one();
                }
                q.tag = "bad_difficulty_below_start";
            }
            _ => {
                q.diffs = vec![BigUint::from(7u32), BigUint::from(7u32)];
                q.boundary = q.boundary.clone() + BigUint::from(8u32);
                q.tag = "bad_repeated_difficulty";
            }
        }
    }
    q
}

fn lsp_message(mv: &Mv, q: &LspReq) -> packed::LightClientMessage {
    let diffs: Vec<packed::Uint256> = q.diffs.iter().map(|d| bigmath::to_u256(d).into()).collect();
    let content = packed::GetLastStateProof::new_builder()
        .last_hash(last_hash(mv, &q.last))
        .start_hash(q.start_hash.clone())
        .start_number(q.start_number)
        .last_n_blocks(q.n)
        .difficulty_boundary(bigmath::to_u256(&q.boundary))
        .difficulties(packed::Uint256Vec::new_builder().set(diffs).build())
        .build();
    packed::LightClientMessage::new_builder().set(content).build()
}

fn do_lsp(p: &mut Server, shared: &ckb_shared::Shared, mv: &Mv, r: &mut Rng, probes: &mut Counters) -> Result<(), V> {
    let q = gen_lsp(r, mv);
    let ctx = format!(
        "GetLastStateProof[{}](last={:?} start={}{} last_n={} boundary={} difficulties={:?}) at tip {}",
        q.tag,
        q.last,
        q.start_number,
        if q.start_number <= mv.tipn && q.start_hash == mv.hash(q.start_number) { "" } else { "(foreign hash)" },
        q.n,
        q.boundary,
        q.diffs.iter().map(|d| d.to_string()).collect::<Vec<_>>(),
        mv.tipn
    );
    let out = p.ask(&ctx, lsp_message(mv, &q))?;
    let exp = expect_lsp(mv, &q);
    let reply = match out {
        Out::Reply(m) => match m.to_enum() {
            packed::LightClientMessageUnion::SendLastStateProof(s) => Some(s),
            other => return v("lc_unexpected_reply_type", format!("{ctx}: answered with {}", other.item_name())),
        },
        Out::Banned(why) => match exp {
            LspExpect::Refused(kind) => {
                probes.inc("lc_lsp_invalid_refused");
                probes.inc(&format!("lc_lsp_refused:{kind}"));
                return Ok(());
            }
            _ => return v("lc_valid_request_refused", format!("{ctx}: peer banned: {why}")),
        },
        Out::Silent => None,
    };
    match exp {
        LspExpect::Refused(kind) => match reply {
            None => {
                probes.inc("lc_lsp_invalid_refused");
                probes.inc(&format!("lc_lsp_refused_silently:{kind}"));
                Ok(())
            }
            Some(s) => v("lc_invalid_request_answered", format!("{ctx}: a client error ({kind}) was answered with {} headers", s.headers().len())),
        },
        LspExpect::TipState => {
            let Some(s) = reply else { return v("lc_no_reply_to_valid_request", format!("{ctx}: no reply")) };
            note_off_main(shared, mv, &q.last, probes);
            check_tip_state(mv, &ctx, &s.last_header(), s.proof().len(), s.headers().len(), 0, &last_hash(mv, &q.last))?;
            probes.inc("lc_lsp_tip_state_checked");
            Ok(())
        }
        LspExpect::Numbers { prefix, must_last_n, must_boundary, must_samples, sampling } => {
            let Some(s) = reply else { return v("lc_no_reply_to_valid_request", format!("{ctx}: no reply")) };
            let Last::Main(l) = q.last else { unreachable!() };
            check_vh(mv, &s.last_header(), "last_header", &ctx, Some(l))?;
            let mut got: Vec<u64> = Vec::new();
            for vh in s.headers().into_iter() {
                got.push(check_vh(mv, &vh, "proved_header", &ctx, None)?);
            }
            let gset: BTreeSet<u64> = got.iter().cloned().collect();
            let mut allowed: BTreeSet<u64> = BTreeSet::new();
            for (list, class, what) in [
                (&must_last_n, "lc_lsp_last_n_incomplete", "one of the blocks right before the last block (last_n_blocks / everything from the start block)"),
                (&must_boundary, "lc_lsp_boundary_block_missing", "a block whose total difficulty is not less than the difficulty boundary"),
                (&must_samples, "lc_lsp_sample_missing", "the first block whose total difficulty reaches a requested difficulty"),
                (&prefix, "lc_lsp_reorg_prefix_missing", "one of the last_n_blocks blocks before a start block that is not on the chain"),
            ] {
                for k in list.iter() {
                    allowed.insert(*k);
                    if !gset.contains(k) {
                        return v(class, format!("{ctx}: block {k} is missing from the answer ({what}); returned numbers {got:?}"));
                    }
                }
            }
            if let Some(extra) = gset.iter().find(|k| !allowed.contains(k)) {
                return v("lc_lsp_unrequested_header", format!("{ctx}: block {extra} is returned but no rule asks for it (expected exactly {:?}); returned numbers {got:?}", allowed));
            }
            if got.windows(2).any(|p| p[0] >= p[1]) {
                return v("lc_lsp_headers_not_ascending", format!("{ctx}: returned numbers {got:?}"));
            }
            if l == 0 && !s.last_header().parent_chain_root().as_slice().iter().all(|b| *b == 0) {
                return v("lc_last_header_parent_chain_root_differs", format!("{ctx}: genesis with a non-default parent chain root"));
            }
            check_mmr(mv, &ctx, "lsp", l, &got, s.proof().into_iter().collect(), probes)?;
            // which regimes were actually reached
            probes.inc("lc_lsp_checked");
            probes.add("lc_lsp_headers_checked", got.len() as u64);
            if sampling {
                let in_tail: BTreeSet<u64> = must_last_n.iter().chain(must_boundary.iter()).cloned().collect();
                if must_samples.iter().any(|k| !in_tail.contains(k)) {
                    probes.inc("lc_lsp_sampled");
                } else {
                    probes.inc("lc_lsp_sampling_no_samples");
                }
                if must_boundary.len() > must_last_n.len() {
                    probes.inc("lc_lsp_boundary_before_last_n");
                } else if must_boundary.len() < must_last_n.len() {
                    probes.inc("lc_lsp_last_n_before_boundary");
                }
                if q.diffs.iter().any(|d| must_boundary.first().map(|b| *d > mv.td_before(*b)).unwrap_or(false)) {
                    probes.inc("lc_lsp_difficulty_inside_tail");
                }
            } else {
                probes.inc("lc_lsp_all_in_last_n");
            }
            if !prefix.is_empty() {
                probes.inc("lc_lsp_reorg_prefix");
            }
            if q.start_number == 0 {
                probes.inc("lc_lsp_start_genesis");
            }
            if l - q.start_number <= 2 {
                probes.inc("lc_lsp_start_near_last");
            }
            if l == mv.tipn {
                probes.inc("lc_lsp_last_is_tip");
            } else {
                probes.inc("lc_lsp_last_below_tip");
            }
            if l == 0 {
                probes.inc("lc_lsp_last_is_genesis");
            }
            Ok(())
        }
    }
}

// ------------------------------------------------------------------------------- GetBlocksProof

/// SendBlocksProof as sent today (V1 layout inside the SendBlocksProof union arm) or the legacy one
struct BpReply {
    last_header: packed::VerifiableHeader,
    proof: Vec<packed::HeaderDigest>,
    headers: Vec<packed::Header>,
    missing: Vec<Byte32>,
    v1: Option<(Vec<Byte32>, Vec<packed::BytesOpt>)>,
}

fn parse_bp(s: &packed::SendBlocksProof) -> BpReply {
    if let Ok(x) = packed::SendBlocksProofV1::from_slice(s.as_slice()) {
        BpReply {
            last_header: x.last_header(),
            proof: x.proof().into_iter().collect(),
            headers: x.headers().into_iter().collect(),
            missing: x.missing_block_hashes().into_iter().collect(),
            v1: Some((x.blocks_uncles_hash().into_iter().collect(), x.blocks_extension().into_iter().collect())),
        }
    } else {
        BpReply { last_header: s.last_header(), proof: s.proof().into_iter().collect(), headers: s.headers().into_iter().collect(), missing: s.missing_block_hashes().into_iter().collect(), v1: None }
    }
}

/// uncles hashes / extensions that accompany proved blocks (V1 replies)
fn check_v1(mv: &Mv, ctx: &str, cls: &str, numbers: &[u64], v1: &Option<(Vec<Byte32>, Vec<packed::BytesOpt>)>, probes: &mut Counters) -> Result<(), V> {
    let Some((uh, ext)) = v1 else {
        if !numbers.is_empty() {
            probes.inc(&format!("lc_{cls}_legacy_reply_without_v1_fields"));
        }
        return Ok(());
    };
    if uh.len() != numbers.len() || ext.len() != numbers.len() {
        return v(&format!("lc_{cls}_v1_fields_length"), format!("{ctx}: {} proved blocks but {} uncles hashes and {} extensions", numbers.len(), uh.len(), ext.len()));
    }
    for (i, n) in numbers.iter().enumerate() {
        let mb = mv.blk(*n);
        if uh[i] != mb.view.calc_uncles_hash() {
            return v(&format!("lc_{cls}_uncles_hash_differs"), format!("{ctx}: uncles hash #{i} is not that of the model's block {n}"));
        }
        if ext[i].to_opt().map(|e| e.as_slice().to_vec()) != mb.view.extension().map(|e| e.as_slice().to_vec()) {
            return v(&format!("lc_{cls}_extension_differs"), format!("{ctx}: extension #{i} is not that of the model's block {n}"));
        }
        // what a client does with them: rebuild the verifiable header's extra hash
        let cv = VerifiableHeader::new(mv.hdr(*n), uh[i].clone(), ext[i].to_opt(), mv.parent_root(*n));
        if !cv.is_valid(0) {
            return v(&format!("lc_{cls}_block_not_verifiable"), format!("{ctx}: block {n} with the served uncles hash / extension fails VerifiableHeader::is_valid"));
        }
    }
    Ok(())
}

fn do_bp(p: &mut Server, shared: &ckb_shared::Shared, mv: &Mv, r: &mut Rng, probes: &mut Counters) -> Result<(), V> {
    let last = pick_last(r, mv, 14);
    let lh = last_hash(mv, &last);
    let l_num = if let Last::Main(l) = last { Some(l) } else { None };
    // what the request is made of
    let mut hashes: Vec<Byte32> = Vec::new();
    let (mut n_fork, mut n_unknown, mut n_after, mut n_main) = (0u64, 0u64, 0u64, 0u64);
    let shape = r.weighted(&[72, 4, 4, 3, 3, 3, 11]); // normal, empty, duplicate, contains last, over limit, at limit, blocks after last
    let count = if shape == 1 { 0 } else { r.urange(1, 8) };
    let upper = l_num.unwrap_or(mv.tipn);
    let mut used: BTreeSet<Byte32> = BTreeSet::new();
    used.insert(lh.clone());
    for _ in 0..count {
        let h = match r.weighted(&[55, 22, 15, if shape == 6 { 40 } else { 0 }]) {
            0 if upper > 0 => {
                n_main += 1;
                mv.hash(r.range(0, upper - 1))
            }
            1 if !mv.forks.is_empty() => {
                n_fork += 1;
                mv.w.blocks[*r.pick(&mv.forks)].view.hash()
            }
            3 if l_num.map(|l| l < mv.tipn).unwrap_or(false) => {
                n_after += 1;
                mv.hash(r.range(upper + 1, mv.tipn))
            }
            _ => {
                n_unknown += 1;
                rand_hash(r)
            }
        };
        if used.insert(h.clone()) {
            hashes.push(h);
        }
    }
    match shape {
        2 if !hashes.is_empty() => {
            let d = r.pick(&hashes).clone();
            let at = r.idx(hashes.len() + 1);
            hashes.insert(at, d);
        }
        3 => {
            let at = r.idx(hashes.len() + 1);
            hashes.insert(at, lh.clone());
        }
        4 | 5 => {
            let want = if shape == 4 { 1001 } else { 1000 };
            while hashes.len() < want {
                hashes.push(rand_hash(r));
            }
            r.shuffle(&mut hashes);
        }
        _ => {}
    }
    let ctx = format!(
        "GetBlocksProof(last={:?}, {} hashes: {} main below last, {} after last, {} fork, {} unknown, shape {shape}) at tip {}",
        last,
        hashes.len(),
        n_main,
        n_after,
        n_fork,
        n_unknown,
        mv.tipn
    );
    let msg = packed::LightClientMessage::new_builder()
        .set(packed::GetBlocksProof::new_builder().last_hash(lh.clone()).block_hashes(packed::Byte32Vec::new_builder().set(hashes.clone()).build()).build())
        .build();
    let out = p.ask(&ctx, msg)?;
    // expected from the model
    let uniq: BTreeSet<&Byte32> = hashes.iter().collect();
    let refused: Option<&'static str> = if hashes.is_empty() {
        Some("empty")
    } else if hashes.len() > 1000 {
        Some("over_limit")
    } else if l_num.is_some() && (uniq.len() != hashes.len() || hashes.contains(&lh)) {
        Some("duplicate")
    } else {
        None
    };
    let reply = match out {
        Out::Reply(m) => match m.to_enum() {
            packed::LightClientMessageUnion::SendBlocksProof(s) => Some(parse_bp(&s)),
            other => return v("lc_unexpected_reply_type", format!("{ctx}: answered with {}", other.item_name())),
        },
        Out::Banned(_) | Out::Silent => None,
    };
    if let Some(kind) = refused {
        return match reply {
            None => {
                probes.inc(&format!("lc_bp_refused:{kind}"));
                Ok(())
            }
            Some(b) => v("lc_invalid_request_answered", format!("{ctx}: a client error ({kind}) was answered with {} headers", b.headers.len())),
        };
    }
    let Some(l) = l_num else {
        let Some(b) = reply else { return v("lc_no_reply_to_valid_request", format!("{ctx}: no reply")) };
        note_off_main(shared, mv, &last, probes);
        check_tip_state(mv, &ctx, &b.last_header, b.proof.len(), b.headers.len(), b.missing.len(), &lh)?;
        probes.inc("lc_bp_tip_state_checked");
        return Ok(());
    };
    let mut want_proved: BTreeSet<Byte32> = BTreeSet::new();
    let mut want_missing: BTreeSet<Byte32> = BTreeSet::new();
    let mut after_last: BTreeSet<Byte32> = BTreeSet::new();
    for h in &hashes {
        match mv.main_number(h) {
            Some(n) if n < l => {
                want_proved.insert(h.clone());
            }
            Some(_) => {
                after_last.insert(h.clone());
            }
            None => {
                want_missing.insert(h.clone());
            }
        }
    }
    if !after_last.is_empty() {
        probes.inc("lc_bp_req_block_after_last");
    }
    let Some(b) = reply else {
        if after_last.is_empty() {
            return v("lc_no_reply_to_valid_request", format!("{ctx}: no reply"));
        }
        // undocumented domain: main-chain blocks above the last block can not be proved under it
        probes.inc("lc_bp_block_after_last_unanswered");
        return Ok(());
    };
    check_vh(mv, &b.last_header, "last_header", &ctx, Some(l))?;
    let mut numbers: Vec<u64> = Vec::new();
    let mut got_proved: BTreeSet<Byte32> = BTreeSet::new();
    for h in &b.headers {
        let hv = h.clone().into_view();
        let hh = hv.hash();
        if after_last.contains(&hh) {
            return v("lc_bp_block_after_last_served", format!("{ctx}: block {} above the last block {l} is served as proved", hv.number()));
        }
        if !want_proved.contains(&hh) {
            let class = if want_missing.contains(&hh) { "lc_missing_block_served" } else { "lc_bp_unrequested_header" };
            return v(class, format!("{ctx}: header {} (number {}) is served as proved but is not a requested main-chain block below {l}", hx(&hh), hv.number()));
        }
        if !got_proved.insert(hh.clone()) {
            return v("lc_bp_header_repeated", format!("{ctx}: header {} twice", hx(&hh)));
        }
        numbers.push(hv.number());
    }
    if let Some(h) = want_proved.iter().find(|h| !got_proved.contains(*h)) {
        let class = if b.missing.contains(h) { "lc_bp_main_block_reported_missing" } else { "lc_bp_requested_block_dropped" };
        return v(class, format!("{ctx}: requested main-chain block {} (number {:?}) is not among the proved headers", hx(h), mv.main_number(h)));
    }
    let got_missing: BTreeSet<Byte32> = b.missing.iter().cloned().collect();
    if got_missing.len() != b.missing.len() {
        return v("lc_bp_missing_repeated", format!("{ctx}: missing_block_hashes has repeats"));
    }
    let mut want_missing_all = want_missing.clone();
    if !after_last.is_empty() {
        // tolerated only as "missing"
        want_missing_all.extend(after_last.iter().cloned());
        probes.inc("lc_bp_block_after_last_reported_missing");
    }
    if got_missing != want_missing_all {
        let extra = got_missing.difference(&want_missing_all).count();
        let lack = want_missing_all.difference(&got_missing).count();
        return v("lc_bp_missing_list_differs", format!("{ctx}: missing_block_hashes has {extra} hashes that are not missing and lacks {lack} that are (expected {} entries)", want_missing_all.len()));
    }
    check_v1(mv, &ctx, "bp", &numbers, &b.v1, probes)?;
    check_mmr(mv, &ctx, "bp", l, &numbers, b.proof.clone(), probes)?;
    probes.inc("lc_blocks_proof_checked");
    probes.add("lc_bp_headers_checked", numbers.len() as u64);
    if numbers.is_empty() {
        probes.inc("lc_bp_all_missing");
    }
    if !want_missing.is_empty() && !numbers.is_empty() {
        probes.inc("lc_bp_proved_and_missing_mixed");
    }
    if n_fork > 0 {
        probes.inc("lc_bp_fork_hash_requested");
    }
    if hashes.len() == 1000 {
        probes.inc("lc_bp_at_limit_answered");
    }
    Ok(())
}

// ------------------------------------------------------------------------------- GetTransactionsProof

struct TpReply {
    last_header: packed::VerifiableHeader,
    proof: Vec<packed::HeaderDigest>,
    blocks: Vec<packed::FilteredBlock>,
    missing: Vec<Byte32>,
    v1: Option<(Vec<Byte32>, Vec<packed::BytesOpt>)>,
}

fn parse_tp(s: &packed::SendTransactionsProof) -> TpReply {
    if let Ok(x) = packed::SendTransactionsProofV1::from_slice(s.as_slice()) {
        TpReply {
            last_header: x.last_header(),
            proof: x.proof().into_iter().collect(),
            blocks: x.filtered_blocks().into_iter().collect(),
            missing: x.missing_tx_hashes().into_iter().collect(),
            v1: Some((x.blocks_uncles_hash().into_iter().collect(), x.blocks_extension().into_iter().collect())),
        }
    } else {
        TpReply { last_header: s.last_header(), proof: s.proof().into_iter().collect(), blocks: s.filtered_blocks().into_iter().collect(), missing: s.missing_tx_hashes().into_iter().collect(), v1: None }
    }
}

fn do_tp(p: &mut Server, shared: &ckb_shared::Shared, mv: &Mv, r: &mut Rng, probes: &mut Counters) -> Result<(), V> {
    let last = pick_last(r, mv, 14);
    let lh = last_hash(mv, &last);
    let l_num = if let Last::Main(l) = last { Some(l) } else { None };
    let upper = l_num.unwrap_or(mv.tipn);
    let shape = r.weighted(&[82, 4, 5, 3, 6]); // normal, empty, duplicate, over limit, transactions in / above the last block
    let count = if shape == 1 { 0 } else { r.urange(1, 8) };
    let below: Vec<&Byte32> = mv.tx_list.iter().filter(|h| mv.txs[*h].0 < upper).collect();
    let at_or_above: Vec<&Byte32> = mv.tx_list.iter().filter(|h| mv.txs[*h].0 >= upper).collect();
    let mut hashes: Vec<Byte32> = Vec::new();
    let mut used: BTreeSet<Byte32> = BTreeSet::new();
    let (mut n_main, mut n_fork, mut n_unknown, mut n_after) = (0u64, 0u64, 0u64, 0u64);
    // several transactions of one block exercise multi-leaf CBMT proofs
    let focus: Option<u64> = if r.chance(1, 3) && !below.is_empty() { Some(mv.txs[*r.pick(&below)].0) } else { None };
    for _ in 0..count {
        let h = match r.weighted(&[55, 20, 15, if shape == 4 { 45 } else { 0 }]) {
            0 if !below.is_empty() => {
                n_main += 1;
                let of_focus: Vec<&&Byte32> = below.iter().filter(|h| Some(mv.txs[**h].0) == focus).collect();
                if !of_focus.is_empty() && r.chance(3, 4) { (**r.pick(&of_focus)).clone() } else { (*r.pick(&below)).clone() }
            }
            1 if !mv.fork_txs.is_empty() => {
                n_fork += 1;
                r.pick(&mv.fork_txs).clone()
            }
            3 if l_num.is_some() && !at_or_above.is_empty() => {
                n_after += 1;
                (*r.pick(&at_or_above)).clone()
            }
            _ => {
                n_unknown += 1;
                rand_hash(r)
            }
        };
        if used.insert(h.clone()) {
            hashes.push(h);
        }
    }
    match shape {
        2 if !hashes.is_empty() => {
            let d = r.pick(&hashes).clone();
            let at = r.idx(hashes.len() + 1);
            hashes.insert(at, d);
        }
        3 => {
            while hashes.len() < 1001 {
                hashes.push(rand_hash(r));
            }
            r.shuffle(&mut hashes);
        }
        _ => {}
    }
    let ctx = format!(
        "GetTransactionsProof(last={:?}, {} hashes: {} main below last, {} in/above last, {} fork-only, {} unknown, shape {shape}) at tip {}",
        last,
        hashes.len(),
        n_main,
        n_after,
        n_fork,
        n_unknown,
        mv.tipn
    );
    let msg = packed::LightClientMessage::new_builder()
        .set(packed::GetTransactionsProof::new_builder().last_hash(lh.clone()).tx_hashes(packed::Byte32Vec::new_builder().set(hashes.clone()).build()).build())
        .build();
    let out = p.ask(&ctx, msg)?;
    let uniq: BTreeSet<&Byte32> = hashes.iter().collect();
    let refused: Option<&'static str> = if hashes.is_empty() {
        Some("empty")
    } else if hashes.len() > 1000 {
        Some("over_limit")
    } else if uniq.len() != hashes.len() {
        Some("duplicate")
    } else {
        None
    };
    let reply = match out {
        Out::Reply(m) => match m.to_enum() {
            packed::LightClientMessageUnion::SendTransactionsProof(s) => Some(parse_tp(&s)),
            other => return v("lc_unexpected_reply_type", format!("{ctx}: answered with {}", other.item_name())),
        },
        Out::Banned(_) | Out::Silent => None,
    };
    if let Some(kind) = refused {
        return match reply {
            None => {
                probes.inc(&format!("lc_tp_refused:{kind}"));
                Ok(())
            }
            Some(b) => v("lc_invalid_request_answered", format!("{ctx}: a client error ({kind}) was answered with {} filtered blocks", b.blocks.len())),
        };
    }
    let Some(l) = l_num else {
        let Some(b) = reply else { return v("lc_no_reply_to_valid_request", format!("{ctx}: no reply")) };
        note_off_main(shared, mv, &last, probes);
        check_tip_state(mv, &ctx, &b.last_header, b.proof.len(), b.blocks.len(), b.missing.len(), &lh)?;
        probes.inc("lc_tp_tip_state_checked");
        return Ok(());
    };
    // expected: block number -> requested transactions it commits
    let mut want: BTreeMap<u64, BTreeSet<Byte32>> = BTreeMap::new();
    let mut want_missing: BTreeSet<Byte32> = BTreeSet::new();
    let mut after_last: BTreeSet<Byte32> = BTreeSet::new();
    for h in &hashes {
        match mv.txs.get(h) {
            Some((n, _)) if *n < l => {
                want.entry(*n).or_default().insert(h.clone());
            }
            Some(_) => {
                after_last.insert(h.clone());
            }
            None => {
                want_missing.insert(h.clone());
            }
        }
    }
    if !after_last.is_empty() {
        probes.inc("lc_tp_req_tx_in_or_after_last");
    }
    let Some(b) = reply else {
        if after_last.is_empty() {
            return v("lc_no_reply_to_valid_request", format!("{ctx}: no reply"));
        }
        probes.inc("lc_tp_tx_in_or_after_last_unanswered");
        return Ok(());
    };
    check_vh(mv, &b.last_header, "last_header", &ctx, Some(l))?;
    let mut numbers: Vec<u64> = Vec::new();
    let mut multi_leaf = false;
    for fb in &b.blocks {
        let hv = fb.header().into_view();
        let n = hv.number();
        if n > mv.tipn || hv.hash() != mv.hash(n) {
            return v("lc_tp_block_not_on_main_chain", format!("{ctx}: filtered block {} (number {n}) is not the model's main-chain block of that number", hx(&hv.hash())));
        }
        if n >= l {
            return v("lc_tp_tx_after_last_served", format!("{ctx}: filtered block {n} is not below the last block {l}"));
        }
        if numbers.contains(&n) {
            return v("lc_tp_block_repeated", format!("{ctx}: filtered block {n} twice"));
        }
        let Some(want_txs) = want.get(&n) else {
            return v("lc_tp_unrequested_block", format!("{ctx}: filtered block {n} commits none of the requested transactions"));
        };
        let got_hashes: Vec<Byte32> = fb.transactions().into_iter().map(|t| t.calc_tx_hash()).collect();
        let got_set: BTreeSet<Byte32> = got_hashes.iter().cloned().collect();
        if got_set.len() != got_hashes.len() || got_set != *want_txs {
            let class = if got_set.iter().any(|h| want_missing.contains(h)) { "lc_missing_tx_served" } else { "lc_tp_transactions_differ" };
            return v(class, format!("{ctx}: filtered block {n} carries {} transactions, the requested ones it commits are {}", got_hashes.len(), want_txs.len()));
        }
        // the client's merkle check: CBMT root of the served transactions + witnesses root = transactions_root
        let proof = CbmtProof::new(fb.proof().indices().into_iter().map(Into::into).collect(), fb.proof().lemmas().into_iter().collect());
        let ok = proof.root(&got_hashes).map(|raw_root| merkle_root(&[raw_root, fb.witnesses_root()]) == mv.hdr(n).transactions_root()).unwrap_or(false);
        if !ok {
            return v("lc_tp_merkle_proof_does_not_verify", format!("{ctx}: the transactions of filtered block {n} with the served CBMT proof and witnesses root do not give the model header's transactions_root"));
        }
        // ... and it proves these transactions, not others: one hash replaced must fail
        let mut forged = got_hashes.clone();
        forged[0] = rand_hash(&mut Rng::new(n ^ 0x7c));
        if proof.root(&forged).map(|raw_root| merkle_root(&[raw_root, fb.witnesses_root()]) == mv.hdr(n).transactions_root()).unwrap_or(false) {
            return v("lc_tp_merkle_proof_verifies_foreign_tx", format!("{ctx}: the CBMT proof of filtered block {n} also verifies a transaction that is not in the block"));
        }
        // the indices must be the positions of exactly these transactions in the model block
        let total = mv.blk(n).view.transactions().len() as u32;
        let want_idx: BTreeSet<u32> = want_txs.iter().map(|h| mv.txs[h].1 as u32 + total - 1).collect();
        let got_idx: BTreeSet<u32> = proof.indices().iter().cloned().collect();
        if want_idx != got_idx {
            return v("lc_tp_merkle_indices_differ", format!("{ctx}: CBMT indices {:?} of filtered block {n} are not the positions {:?} of the requested transactions", got_idx, want_idx));
        }
        if got_hashes.len() > 1 {
            multi_leaf = true;
        }
        numbers.push(n);
    }
    if let Some((n, _)) = want.iter().find(|(n, _)| !numbers.contains(n)) {
        let reported_missing = want[n].iter().any(|h| b.missing.contains(h));
        let class = if reported_missing { "lc_tp_main_tx_reported_missing" } else { "lc_tp_requested_tx_dropped" };
        return v(class, format!("{ctx}: main-chain block {n} commits a requested transaction but is not among the filtered blocks"));
    }
    let got_missing: BTreeSet<Byte32> = b.missing.iter().cloned().collect();
    if got_missing.len() != b.missing.len() {
        return v("lc_tp_missing_repeated", format!("{ctx}: missing_tx_hashes has repeats"));
    }
    let mut want_missing_all = want_missing.clone();
    if !after_last.is_empty() {
        want_missing_all.extend(after_last.iter().cloned());
        probes.inc("lc_tp_tx_in_or_after_last_reported_missing");
    }
    if got_missing != want_missing_all {
        let extra = got_missing.difference(&want_missing_all).count();
        let lack = want_missing_all.difference(&got_missing).count();
        return v("lc_tp_missing_list_differs", format!("{ctx}: missing_tx_hashes has {extra} hashes that are not missing and lacks {lack} that are (expected {} entries)", want_missing_all.len()));
    }
    check_v1(mv, &ctx, "tp", &numbers, &b.v1, probes)?;
    check_mmr(mv, &ctx, "tp", l, &numbers, b.proof.clone(), probes)?;
    probes.inc("lc_tx_proof_checked");
    probes.add("lc_tp_filtered_blocks_checked", numbers.len() as u64);
    if multi_leaf {
        probes.inc("lc_tp_multi_leaf_merkle_proof");
    }
    if numbers.len() > 1 {
        probes.inc("lc_tp_several_blocks");
    }
    if n_fork > 0 {
        probes.inc("lc_tp_fork_only_tx_requested");
    }
    if numbers.is_empty() {
        probes.inc("lc_tp_all_missing");
    }
    Ok(())
}

// ------------------------------------------------------------------------------- entry point

/// Drives the real light-client protocol handler of `shared` with requests derived from `seed` and
/// checks every reply against the model `w`. Returns the first violation (class starts with `lc_`).
pub fn check_light_client(shared: &ckb_shared::Shared, w: &World, seed: u64, probes: &mut Counters) -> Option<V> {
    let tip_hash = shared.snapshot().tip_hash();
    let ti = *w.by_hash.get(&tip_hash)?;
    if !w.blocks[ti].chain_valid {
        return None;
    }
    let mv = Mv::new(w, ti);
    let mut r = Rng::new(seed ^ 0x1c_c19_0044);
    let mut peer = Server { proto: LightClientProtocol::new(shared.clone()), nc: Arc::new(LcNet::new()) };
    probes.inc("lc_rounds");
    let run = |peer: &mut Server, r: &mut Rng, probes: &mut Counters| -> Result<(), V> {
        do_last_state(peer, &mv, r, probes)?;
        for _ in 0..8 {
            do_lsp(peer, shared, &mv, r, probes)?;
        }
        for _ in 0..3 {
            do_bp(peer, shared, &mv, r, probes)?;
        }
        for _ in 0..3 {
            do_tp(peer, shared, &mv, r, probes)?;
        }
        Ok(())
    };
    run(&mut peer, &mut r, probes).err()
}
