//! Pool task mode of E-NODE (C11, C12, C13): the real tx-pool service without its loops
//! (`ckb_tx_pool::verif::SimPool`), every queued controller message / reorg notification /
//! block-assembler message / verify-queue item is a task the simulator polls by hand,
//! interleaved with the chain stages.
use crate::bigmath;
use crate::exec::compare_state;
use crate::model::{always_failure_bin, always_success_bin, occupied, Cfg, MCell, MTx, Recipe, World, SHANNONS};
use crate::node::Node;
use ckb_app_config::{BlockAssemblerConfig, NetworkConfig, TxPoolConfig};
use ckb_jsonrpc_types::ScriptHashType;
use ckb_network::{network::TransportType, Flags, NetworkController, NetworkService, NetworkState};
use ckb_store::ChainStore;
use ckb_tx_pool::verif::{self as pv, BoxFut, PoolDump, SimPool};
use ckb_types::{
    bytes::Bytes,
    core::{BlockView, Capacity, FeeRate, TransactionBuilder, TransactionView},
    packed::{self, Byte32, CellInput, CellOutput, OutPoint, ProposalShortId},
    prelude::*,
};
use serde::{Deserialize, Serialize};
use simcore::*;
use std::collections::{BTreeMap, BTreeSet};
use std::path::Path;
use std::sync::Arc;
use std::task::{Context, Poll, Waker};

#[derive(Clone, Debug, Serialize, Deserialize)]
pub struct PoolCfg {
    pub max_tx_pool_size: usize,
    pub max_ancestors: usize,
    pub min_fee_rate: u64,
    pub min_rbf_rate: u64,
    pub expiry_hours: u8,
}

#[derive(Clone, Debug, Serialize, Deserialize, PartialEq)]
pub enum InRef {
    /// genesis spendable cell #k
    G(usize),
    /// output `o` of scenario transaction `t`
    T(usize, usize),
    /// the cellbase output of the main-chain block this many blocks below the tip at the moment the
    /// transaction is first materialised (nothing while that block has no cellbase output)
    C(u64),
}

#[derive(Clone, Debug, Serialize, Deserialize)]
pub struct TxSpec {
    pub inputs: Vec<InRef>,
    pub outputs: usize,
    pub fee: u64,
    /// extra cell dep on an output of another scenario transaction
    pub dep: Option<InRef>,
    pub salt: u64,
    /// header dep on the main-chain block this many blocks below the tip at the moment the
    /// transaction is first materialised (no header dep while the chain is only the genesis block)
    #[serde(default)]
    pub hdep: Option<u64>,
    /// absolute block-number time lock on the first input: (earliest commit position a submission
    /// is judged at, i.e. tip + 1 + w_close when the transaction is first materialised) + delta
    #[serde(default, skip_serializing_if = "Option::is_none")]
    pub since: Option<i64>,
}

/// C04: where the probe transaction's first input comes from (resolved against the context at probe time)
#[derive(Clone, Debug, Serialize, Deserialize, PartialEq)]
pub enum CandIn {
    /// k-th live plain cell on the main chain (always-success lock, not a cellbase output)
    Live(usize),
    /// k-th live cell whose lock runs the program carried in witness 0
    WLock(usize),
    /// cellbase output at the maturity boundary: 0 = the newest mature one, 1 = the oldest immature one
    CellbaseAt(u8),
    /// k-th cell already spent on the main chain
    Dead(usize),
    /// an out point nobody created
    Unknown,
    /// output `o` of scenario transaction `t` (pooled, committed, or neither)
    TxOut(usize, usize),
}

/// C04: one probe transaction; at most one field is set to a rule-breaking value
#[derive(Clone, Debug, Serialize, Deserialize, PartialEq)]
pub struct Cand {
    pub input: CandIn,
    /// (kind, delta): kind 0-2 absolute number/epoch/median-time, 3-5 relative ditto, value placed
    /// `delta` units after (+) or before (-) the exact boundary of the evaluation position;
    /// 6 = metric flag 0b11, 7 = reserved flag bit set, 8/9 = malformed epoch fraction (absolute/relative), 10 = zero-length fraction
    #[serde(default)]
    pub since: Option<(u8, i64)>,
    /// 0 fee 5000; 1 outputs exceed inputs by one shannon; 2 an output exactly at its occupied size;
    /// 3 one shannon below the occupied size; 4 zero fee (block path only)
    #[serde(default)]
    pub cap: u8,
    /// extra cell dep: 0 none, 1 a live cell, 2 a spent cell, 3 unknown, 4 the oldest immature cellbase output;
    /// dep groups: 5 the lock's code comes through a dep group instead of a direct dep, 6 an extra dep
    /// group one of whose members is an ordinary cell (valid while that cell is unspent), 7 a cell
    /// without out-point-vector data used as a dep group, 8 a dep group nobody created, 9 the lock's
    /// code is neither a direct dep nor in the dep group given, 10 the dep-group cell listed first as a
    /// plain cell dep and then as the dep group that carries the lock's code
    #[serde(default)]
    pub dep: u8,
    /// header dep: 0 none, 1 a main-chain header, 2 a header of a delivered block off the main chain, 3 unknown
    #[serde(default)]
    pub hdep: u8,
    /// for WLock inputs: witness 0 carries always_failure instead of always_success
    #[serde(default)]
    pub fail_script: bool,
    /// the first input appears twice
    #[serde(default)]
    pub dup: bool,
    /// a second, plain live input
    #[serde(default)]
    pub second: Option<usize>,
    pub salt: u64,
}

#[derive(Clone, Debug, Serialize, Deserialize, PartialEq)]
#[serde(tag = "op")]
pub enum POp {
    /// C04: ask the pool (dry run, `test_accept_transaction`) about a probe transaction at a quiescent point
    ProbePool { cand: Cand },
    /// C04: the model proposes the probe on top of the tip and commits it at the first legal block;
    /// the node's block verification gives the verdict
    ProbeBlock { cand: Cand },
    /// start a submission task for scenario tx t (local: verified inline; remote: queued for a worker)
    Submit { t: usize, remote: bool },
    /// start one verify-worker iteration task
    Verify,
    /// start tasks for everything queued on the pool's channels (messages, reorgs, block assembler)
    Take,
    /// poll live task #k (mod live) once; it may stop at a yield point
    Poll { k: usize },
    /// poll the oldest live task whose name starts with `kind` once (it may stop at a yield point)
    PollKind { kind: String },
    /// run every task and everything queued to completion
    Quiesce,
    /// ask for a block template now, seal it, feed it to the chain stages
    Mine,
    /// the model builds a competing branch of `len` blocks on the ancestor `back` blocks below the tip
    Fork {
        back: u64,
        len: u64,
        seed: u64,
        /// the branch proposes and commits nothing
        #[serde(default, skip_serializing_if = "std::ops::Not::not")]
        quiet: bool,
    },
    /// remove scenario tx t from the pool (RPC remove_transaction)
    Remove { t: usize },
    /// advance the simulated clock
    Clock { ms: u64 },
    /// run the pool's expiry now
    Expire,
    /// another miner extends the tip: a block proposing scenario tx t and nothing else, then, once the
    /// window opens, a block committing t and nothing else (only if that is legal on the chain)
    Foreign { t: usize, seed: u64 },
    /// another miner finds a sibling of the tip (same parent, no more work: it stays a side block and
    /// becomes an uncle candidate for the template that is being filled)
    Sibling { seed: u64 },
    /// another miner extends the tip by `n` blocks that commit nothing, each `ts_delta` ms after its
    /// parent; the first one proposes scenario tx `propose` (and nothing else), the others are empty
    Quiet { n: u64, ts_delta: u64, propose: Option<usize>, seed: u64 },
    /// another miner's branch from the ancestor `back` blocks below the tip, one block longer than
    /// the part of the main chain it replaces plus the proposal distance: its first block proposes
    /// and, once the window opens, a later one commits a WITNESS VARIANT of scenario tx t (same
    /// transaction hash, other witness bytes; the always-success lock does not read them)
    TwinBranch { t: usize, back: u64, seed: u64 },
    /// C12 "no lost transactions": scenario tx t, submitted earlier, must be in the pool now if it is not
    /// committed on the main chain and all its inputs are live on the chain or created by a pooled transaction
    ExpectPooled { t: usize },
}

#[derive(Clone, Debug, Serialize, Deserialize)]
pub struct PoolScenario {
    pub engine: String,
    pub kind: String,
    pub prop: String,
    pub seed: u64,
    pub cfg: Cfg,
    pub pool: PoolCfg,
    pub txs: Vec<TxSpec>,
    pub ops: Vec<POp>,
    /// C14 twins: the transaction verification cache (shared by pool and block verification) is
    /// emptied before every task poll and before every chain verify step
    #[serde(default, skip_serializing_if = "std::ops::Not::not")]
    pub verify_cache_cold: bool,
    /// C14 twins: sizes of the store's read caches (headers, cell data, proposals, tx hashes, uncles, extensions)
    #[serde(default, skip_serializing_if = "Option::is_none")]
    pub store_caches: Option<[usize; 6]>,
}

// ------------------------------------------------------------------ generation

pub fn generate(seed: u64, prop_name: &str) -> PoolScenario {
    // C14 (cache twins) runs the operation mixes of C12 and C13 alternately: transactions verified
    // in the pool first and in blocks later, on competing branches, at other commit positions
    let prop = match prop_name {
        "C14" => if seed % 2 == 0 { "C12" } else { "C13" },
        p => p,
    };
    let mut r = Rng::new(seed ^ 0x9001_0000);
    let mut cfg = crate::scen::gen_cfg(&mut r);
    cfg.genesis_cells = (0..r.urange(8, 16)).map(|_| r.range(3_000, 60_000) * SHANNONS).collect();
    if prop == "C04" {
        cfg.maturity = *r.pick(&[(0u64, 0u64, 1u64), (0, 1, 2), (1, 0, 1), (0, 3, 4), (2, 1, 3)]);
        cfg.wlock_cells = r.urange(2, 4);
        cfg.genesis_cells.extend((0..6).map(|_| r.range(3_000, 60_000) * SHANNONS));
        cfg.dep_groups = true;
        // one run in three: a cycle limit that single transactions reach (one always_success group
        // costs 537 cycles, the witness lock 1138): exactly at the limit is accepted, one below is not
        let mut rl = Rng::new(seed ^ 0xC04_C1C);
        if rl.chance(1, 3) {
            cfg.max_block_cycles = *rl.pick(&[537u64, 1_073, 1_074, 1_137, 1_138, 1_611, 1_675]);
        }
    }
    let mut c13_full = false;
    if prop == "C13" {
        // two runs out of five: consensus limits small enough for templates to reach them, so that
        // the block assembler's size / cycle / proposal accounting decides what fits
        let mut rl = Rng::new(seed ^ 0xC13_11A1);
        if rl.chance(2, 5) {
            cfg.max_block_proposals = rl.range(1, 6);
            cfg.max_block_bytes = *rl.pick(&[1_200u64, 1_600, 2_400, 4_000]);
            cfg.max_block_cycles = crate::model::COST_ALWAYS_SUCCESS_VM0 * rl.range(2, 8);
            if rl.chance(2, 3) {
                // "full template" skeleton (below): enough proposals per block for the size limit to bind
                cfg.max_block_proposals = rl.range(3, 6);
                cfg.max_block_cycles = crate::model::COST_ALWAYS_SUCCESS_VM0 * rl.range(6, 40);
                c13_full = true;
            }
        }
    }
    let small_pool = r.chance(1, 3);
    let mut pool = PoolCfg {
        max_tx_pool_size: if small_pool { r.urange(1_500, 6_000) } else { 180_000_000 },
        max_ancestors: *r.pick(&[3usize, 5, 25, 125]),
        min_fee_rate: 1000,
        min_rbf_rate: if r.chance(2, 3) { 1500 } else { 1000 },
        expiry_hours: if r.chance(1, 4) { 1 } else { 12 },
    };
    // C12 "back in the pool": one run in three has a pool whose policy cannot refuse a returning
    // transaction (no size limit, ancestor limit out of reach) and the clean skeleton
    // "pool at rest, reorganisation, pool at rest"
    let clean_detach = prop == "C12" && Rng::new(seed ^ 0xC12_BAC).chance(1, 3);
    if clean_detach {
        pool.max_tx_pool_size = 180_000_000;
        pool.max_ancestors = 125;
    }
    // C12 stage oracle, planted shape "a proposal that expired on the old tip is inside the window of a
    // SHORTER but heavier branch": one run in five (not combined with the clean-detach runs)
    let reopen = prop == "C12" && !clean_detach && Rng::new(seed ^ 0xC12_0BE4).chance(1, 4);
    if reopen {
        let mut rp = Rng::new(seed ^ 0xC12_0BE5);
        cfg.genesis_epoch_len = *rp.pick(&[8u64, 10]);
        cfg.permanent_difficulty = false;
        cfg.epoch_duration_target = cfg.genesis_epoch_len * 8;
        cfg.w_close = rp.range(1, 2);
        cfg.w_far = 6;
        pool.max_tx_pool_size = 180_000_000;
        pool.expiry_hours = 12;
    }
    // C13 planted shape "a pooled transaction's time lock lies beyond the earliest commit position of a
    // SHORTER but heavier branch": one run in five of those without small limits
    let timelock_shape = prop == "C13" && !c13_full && cfg.max_block_bytes >= 100_000 && Rng::new(seed ^ 0xC13_71AE).chance(1, if prop_name == "C14" { 2 } else { 5 });
    if timelock_shape {
        let mut rp = Rng::new(seed ^ 0xC13_71AF);
        cfg.genesis_epoch_len = *rp.pick(&[8u64, 10]);
        cfg.permanent_difficulty = false;
        cfg.epoch_duration_target = cfg.genesis_epoch_len * 8;
        cfg.w_close = rp.range(1, 2);
        cfg.w_far = 6;
        pool.max_tx_pool_size = 180_000_000;
        pool.expiry_hours = 12;
    }
    // transaction DAG: chains, diamonds, conflicting spends, shared deps
    let ntx = r.urange(6, 40);
    let g = cfg.genesis_cells.len();
    let mut txs: Vec<TxSpec> = Vec::new();
    let mut outs: Vec<(usize, usize)> = Vec::new(); // (tx, output) available to spend
    for t in 0..ntx {
        let mut inputs = Vec::new();
        let k = r.urange(1, 2);
        for _ in 0..k {
            let pick_conflict = r.chance(1, 6);
            let from_tx = !outs.is_empty() && r.chance(3, 5);
            let inr = if from_tx {
                let i = r.idx(outs.len());
                let (tt, oo) = if pick_conflict { outs[i] } else { outs.swap_remove(i) };
                InRef::T(tt, oo)
            } else {
                InRef::G(r.idx(g))
            };
            if !inputs.contains(&inr) {
                inputs.push(inr);
            }
        }
        let outputs = r.urange(1, 3);
        let fee = match r.below(10) {
            0 => r.range(0, 200),           // below the minimum fee rate
            1 | 2 => r.range(5_000, 60_000),
            _ => r.range(400, 3_000),
        };
        let dep = if !txs.is_empty() && r.chance(1, 5) {
            let tt = r.idx(txs.len());
            // mostly output 0, so that the same cell is often both depended on and spent
            Some(InRef::T(tt, if r.chance(3, 4) { 0 } else { r.idx(txs[tt].outputs.max(1)) }))
        } else {
            None
        };
        for o in 0..outputs {
            outs.push((t, o));
        }
        let hdep = if r.chance(1, 7) { Some(r.range(0, 3)) } else { None };
        txs.push(TxSpec { inputs, outputs, fee, dep, salt: r.below(1 << 30), hdep, since: None });
    }
    if c13_full {
        // volume for full templates: mostly independent transactions, each on a genesis cell of its own
        cfg.genesis_cells = (0..40u64).map(|i| (3_000 + 997 * i) * SHANNONS).collect();
        for (t, spec) in txs.iter_mut().enumerate() {
            if t < 34 {
                spec.inputs = vec![InRef::G(t)];
                spec.dep = None;
                spec.hdep = None;
                if spec.fee < 600 {
                    spec.fee = 600 + spec.salt % 2_000;
                }
            }
        }
    }
    // planted shape: an output of an early transaction x is referenced as cell dep by p and spent by c
    let mut planted_shape: Option<(usize, usize, usize)> = None;
    if ntx >= 4 && r.chance(1, 2) {
        let x = r.idx((ntx / 3).max(1));
        planted_shape = Some((x, txs.len(), txs.len() + 1));
        let g1 = InRef::G(r.idx(g));
        txs.push(TxSpec { inputs: vec![g1], outputs: 1, fee: r.range(600, 3_000), dep: Some(InRef::T(x, 0)), salt: r.below(1 << 30), hdep: None, since: None });
        txs.push(TxSpec { inputs: vec![InRef::T(x, 0)], outputs: r.urange(1, 2), fee: r.range(600, 3_000), dep: None, salt: r.below(1 << 30), hdep: None, since: None });
    }
    // planted replacement shape: a (cheap) <- b (expensive child); r spends a's input and pays more than
    // a alone plus the increment; in half of the cases less than a and b together plus the increment
    let mut planted_rbf: Option<(usize, usize, usize)> = None;
    if prop == "C11" && r.chance(1, 2) {
        let gk = r.idx(g);
        let fa = r.range(600, 1_500);
        let fb = r.range(8_000, 40_000);
        let a = txs.len();
        txs.push(TxSpec { inputs: vec![InRef::G(gk)], outputs: 1, fee: fa, dep: None, salt: r.below(1 << 30), hdep: None, since: None });
        txs.push(TxSpec { inputs: vec![InRef::T(a, 0)], outputs: 1, fee: fb, dep: None, salt: r.below(1 << 30), hdep: None, since: None });
        let fr = if r.chance(1, 2) { fa + fb / 2 + 1_500 } else { fa + fb + 3_000 + r.range(0, 5_000) };
        txs.push(TxSpec { inputs: vec![InRef::G(gk)], outputs: 1, fee: fr, dep: None, salt: r.below(1 << 30), hdep: None, since: None });
        planted_rbf = Some((a, a + 1, a + 2));
    }
    let ntx = txs.len();
    if prop == "C12" || prop == "C13" {
        // time-locked transactions (a stream of their own: the other draws of a seed stay as they were):
        // absolute block-number locks at and just below the position a submission is judged at, so
        // that a reorganisation to a shorter chain makes a pooled transaction immature again
        let mut rs = Rng::new(seed ^ 0x51CE_10C4);
        if rs.chance(1, 2) {
            for spec in txs.iter_mut() {
                if rs.chance(1, 6) {
                    spec.since = Some(*rs.pick(&[-3i64, -2, -1, 0, 0, 1]));
                }
            }
        }
    }
    // operations
    let nops = r.urange(20, 120);
    let mut ops = Vec::new();
    let mut next_tx = 0usize;
    let interleave = prop == "C12" || prop == "C13" || r.chance(1, 2);
    for _ in 0..nops {
        let w: [u64; 10] = [30, 8, if interleave { 10 } else { 0 }, if interleave { 25 } else { 0 }, 10, 14, 4, 3, 2, 2];
        match r.weighted(&w) {
            0 => {
                let t = if next_tx < ntx && r.chance(4, 5) {
                    next_tx += 1;
                    next_tx - 1
                } else {
                    r.idx(ntx)
                };
                ops.push(POp::Submit { t, remote: r.chance(1, 3) });
                if !interleave {
                    ops.push(POp::Quiesce);
                }
            }
            1 => ops.push(POp::Verify),
            2 => ops.push(POp::Take),
            3 => ops.push(POp::Poll { k: r.idx(8) }),
            4 => ops.push(POp::Quiesce),
            5 => ops.push(POp::Mine),
            6 => {
                if r.chance(1, 4) {
                    ops.push(POp::Fork { back: r.range(1, 30), len: 0, seed: r.below(1 << 40), quiet: false });
                } else {
                    ops.push(POp::Fork { back: r.range(1, 4), len: r.range(1, 5), seed: r.below(1 << 40), quiet: false });
                }
            }
            7 => {
                if r.chance(1, 3) {
                    ops.push(POp::Foreign { t: r.idx(ntx), seed: r.below(1 << 40) });
                } else {
                    ops.push(POp::Remove { t: r.idx(ntx) });
                }
            }
            8 => ops.push(POp::Clock { ms: *r.pick(&[1_000u64, 60_000, 3_600_000, 13 * 3_600_000]) }),
            _ => ops.push(POp::Expire),
        }
    }
    if (prop == "C11" || prop == "C12") && (r.chance(2, 5) || clean_detach) {
        // "commit, build on top, detach" skeleton: the first part of the DAG is committed, the rest
        // is submitted on top of it, then a competing branch detaches every mined block so that the
        // committed transactions return to the pool BELOW their pooled descendants and dep users
        let mut sk = Vec::new();
        let first = (ntx / 3).max(2).min(ntx);
        for t in 0..first {
            sk.push(POp::Submit { t, remote: r.chance(1, 4) });
            sk.push(POp::Quiesce);
        }
        let mines = cfg.w_close + 2 + r.range(0, 3);
        for _ in 0..mines {
            sk.push(POp::Mine);
            sk.push(POp::Quiesce);
        }
        for t in first..ntx {
            sk.push(POp::Submit { t, remote: r.chance(1, 4) });
            if r.chance(2, 3) {
                sk.push(POp::Quiesce);
            }
        }
        sk.push(POp::Quiesce);
        sk.push(POp::Fork { back: r.range(1, mines), len: r.range(1, 3), seed: r.below(1 << 40), quiet: false });
        if r.chance(1, 2) && !clean_detach {
            sk.push(POp::Poll { k: r.idx(8) });
            sk.push(POp::Submit { t: r.idx(ntx), remote: false });
        }
        sk.push(POp::Quiesce);
        sk.extend(ops.drain(..).take(30));
        ops = sk;
    }
    if let Some((a, b, rr)) = planted_rbf {
        let at = r.idx(ops.len().min(30) + 1);
        let seq = vec![POp::Submit { t: a, remote: false }, POp::Submit { t: b, remote: false }, POp::Quiesce, POp::Submit { t: rr, remote: r.chance(1, 3) }, POp::Quiesce];
        for (k, o) in seq.into_iter().enumerate() {
            ops.insert(at + k, o);
        }
    }
    if let (Some((x, p, c)), true) = (planted_shape, (prop == "C11" || prop == "C12" || prop == "C13") && r.chance(1, 3)) {
        // "foreign miner" skeleton: x is committed by the node's own templates; p (cell dep on x:0)
        // and c (spends x:0) wait in the pool; another miner's blocks commit one of them alone
        let mut sk = Vec::new();
        sk.push(POp::Submit { t: x, remote: false });
        sk.push(POp::Quiesce);
        for _ in 0..(cfg.w_close + 2 + r.range(0, 2)) {
            sk.push(POp::Mine);
            sk.push(POp::Quiesce);
        }
        sk.push(POp::Submit { t: p, remote: r.chance(1, 3) });
        sk.push(POp::Submit { t: c, remote: r.chance(1, 3) });
        sk.push(POp::Quiesce);
        sk.push(POp::Foreign { t: if r.chance(3, 4) { c } else { p }, seed: r.below(1 << 40) });
        if r.chance(1, 2) {
            sk.push(POp::Poll { k: r.idx(8) });
            sk.push(POp::Submit { t: r.idx(ntx), remote: false });
        }
        sk.push(POp::Quiesce);
        sk.extend(ops.drain(..).take(40));
        ops = sk;
    }
    if prop == "C13" && r.chance(1, 3) {
        // "template between the two halves of a reorg" skeleton: two transactions reach the proposed
        // stage, one is removed by RPC, a competing branch detaches the proposing blocks; the reorg
        // task is stopped after it has reset the template to the new tip and before the pool has
        // been reorganised; the removed transaction is submitted again (still "proposed" in the
        // pool's old view), the block assembler handles the resulting notification, and a template
        // is requested
        let mut sk = Vec::new();
        let a = 0usize;
        let b = 1usize.min(ntx - 1);
        sk.push(POp::Submit { t: a, remote: false });
        sk.push(POp::Submit { t: b, remote: false });
        sk.push(POp::Quiesce);
        // block 1 proposes both; after w_close blocks they are "proposed" and not yet committed
        let mines = cfg.w_close;
        for _ in 0..mines {
            sk.push(POp::Mine);
            sk.push(POp::Quiesce);
        }
        sk.push(POp::Remove { t: b });
        sk.push(POp::Quiesce);
        sk.push(POp::Fork { back: mines + r.range(0, 1), len: r.range(1, 3), seed: r.below(1 << 40), quiet: false });
        sk.push(POp::Take);
        sk.push(POp::PollKind { kind: "reorg".into() });
        sk.push(POp::Submit { t: b, remote: false });
        for _ in 0..4 {
            sk.push(POp::PollKind { kind: "submit".into() });
        }
        sk.push(POp::Take);
        for _ in 0..r.urange(1, 3) {
            sk.push(POp::PollKind { kind: "block_assembler".into() });
        }
        sk.push(POp::Mine);
        sk.push(POp::Quiesce);
        sk.push(POp::Mine);
        sk.extend(ops.drain(..).take(40));
        ops = sk;
    }
    if reopen {
        // blocks 1..f are mined quickly by another miner, block f-1 proposes transaction 0 (which waits in
        // the pool) and nobody commits it; the chain A goes on SLOWLY (its next epoch gets half the
        // difficulty) until the proposal has left the window: the transaction is pending again. A branch
        // B leaves A at f, runs fast (its next epoch gets twice the difficulty) and outweighs A while
        // still shorter: the window of B's tip reaches back below the fork point to block f-1, so the
        // transaction is proposed again.
        let l = cfg.genesis_epoch_len;
        let f = l - 2;
        let slow = cfg.epoch_duration_target * 1000 * 2 + 777;
        let mut rp = Rng::new(seed ^ 0xC12_0BE6);
        // transaction 0 must be plainly valid: one genesis input, decent fee
        txs[0].inputs = vec![InRef::G(0)];
        txs[0].dep = None;
        txs[0].hdep = None;
        txs[0].fee = 2_000 + rp.range(0, 2_000);
        let mut sk = vec![POp::Submit { t: 0, remote: false }, POp::Quiesce];
        sk.push(POp::Quiet { n: f - 2, ts_delta: 5, propose: None, seed: rp.below(1 << 40) });
        sk.push(POp::Quiet { n: 2, ts_delta: 7, propose: Some(0), seed: rp.below(1 << 40) });
        sk.push(POp::Quiesce);
        // A: one slow block ends the genesis epoch, then into epoch 1 until the proposal has expired
        sk.push(POp::Quiet { n: 1, ts_delta: slow, propose: None, seed: rp.below(1 << 40) });
        // (the fork point must still be inside A's pruned window while block f-1 has just left it)
        let n_epoch1 = cfg.w_far - 3 + rp.range(0, 2);
        sk.push(POp::Quiet { n: n_epoch1, ts_delta: 3_000, propose: None, seed: rp.below(1 << 40) });
        sk.push(POp::Quiesce);
        sk.push(POp::Fork { back: 1 + n_epoch1, len: 0, seed: rp.below(1 << 40), quiet: true });
        if rp.chance(1, 3) {
            sk.push(POp::Take);
            sk.push(POp::Poll { k: rp.idx(8) });
        }
        sk.push(POp::Quiesce);
        sk.push(POp::Mine);
        sk.push(POp::Quiesce);
        sk.extend(ops.drain(..).take(25));
        ops = sk;
    }
    // C12 planted shape "an id leaves the committable set in the very block that proposes it again":
    // the pooled transaction must move from proposed to gap (one run in six of the plain C12 runs)
    if prop == "C12" && !clean_detach && !reopen && Rng::new(seed ^ 0xC12_ED6E).chance(1, 6) {
        let mut rp = Rng::new(seed ^ 0xC12_ED6F);
        txs[0].inputs = vec![InRef::G(0)];
        txs[0].dep = None;
        txs[0].hdep = None;
        txs[0].since = None;
        txs[0].fee = 2_000 + rp.range(0, 2_000);
        let mut sk = vec![POp::Submit { t: 0, remote: false }, POp::Quiesce];
        let lead = rp.range(0, 3);
        if lead > 0 {
            sk.push(POp::Quiet { n: lead, ts_delta: 3_000, propose: None, seed: rp.below(1 << 40) });
        }
        // block a proposes the transaction, nobody commits it; block a + w_far proposes it again
        sk.push(POp::Quiet { n: cfg.w_far, ts_delta: 3_000, propose: Some(0), seed: rp.below(1 << 40) });
        if rp.chance(1, 2) {
            sk.push(POp::Quiesce);
        }
        sk.push(POp::Quiet { n: 1, ts_delta: 3_000, propose: Some(0), seed: rp.below(1 << 40) });
        sk.push(POp::Quiesce);
        sk.extend(ops.drain(..).take(40));
        ops = sk;
    }
    // C12 planted shape "a cell that one pooled transaction spends and another only references is
    // spent on the chain by a third transaction": both pooled transactions must go (one run in eight of
    // the plain C12 runs, not combined with the shape above)
    if prop == "C12" && !clean_detach && !reopen && !Rng::new(seed ^ 0xC12_ED6E).chance(1, 6) && Rng::new(seed ^ 0xC12_DE9A).chance(1, 8) {
        let mut rp = Rng::new(seed ^ 0xC12_DE9B);
        let a = txs.len();
        let g0 = rp.idx(g);
        let mut g1 = rp.idx(g);
        if g1 == g0 {
            g1 = (g0 + 1) % g;
        }
        // a: creates the cell; y: references it as cell dep; x and x2: two different spenders of it
        txs.push(TxSpec { inputs: vec![InRef::G(g0)], outputs: 2, fee: 2_000 + rp.range(0, 2_000), dep: None, salt: rp.below(1 << 30), hdep: None, since: None });
        txs.push(TxSpec { inputs: vec![InRef::G(g1)], outputs: 1, fee: 2_000 + rp.range(0, 2_000), dep: Some(InRef::T(a, 0)), salt: rp.below(1 << 30), hdep: None, since: None });
        txs.push(TxSpec { inputs: vec![InRef::T(a, 0)], outputs: 1, fee: 6_000 + rp.range(0, 2_000), dep: None, salt: rp.below(1 << 30), hdep: None, since: None });
        txs.push(TxSpec { inputs: vec![InRef::T(a, 0)], outputs: 1, fee: 1_000 + rp.range(0, 500), dep: None, salt: rp.below(1 << 30), hdep: None, since: None });
        let mut sk = vec![POp::Submit { t: a, remote: false }, POp::Quiesce];
        sk.push(POp::Foreign { t: a, seed: rp.below(1 << 40) });
        sk.push(POp::Quiesce);
        sk.push(POp::Submit { t: a + 1, remote: false });
        sk.push(POp::Quiesce);
        sk.push(POp::Submit { t: a + 2, remote: false });
        sk.push(POp::Quiesce);
        // the second spender is refused by the pool (it pays less than the first) but the other miner has it
        sk.push(POp::Submit { t: a + 3, remote: false });
        sk.push(POp::Quiesce);
        sk.push(POp::Foreign { t: a + 3, seed: rp.below(1 << 40) });
        sk.push(POp::Quiesce);
        sk.extend(ops.drain(..).take(40));
        ops = sk;
    }
    // C12 planted shape "the new branch commits the same transaction with other witness bytes": a pooled
    // child of that transaction keeps a live input and must stay (clean-detach configuration only: a
    // pool whose policy cannot refuse; one of those runs in four)
    if clean_detach && Rng::new(seed ^ 0xC12_7719).chance(1, 4) {
        let mut rp = Rng::new(seed ^ 0xC12_771A);
        let a = txs.len();
        txs.push(TxSpec { inputs: vec![InRef::G(rp.idx(g))], outputs: 2, fee: 3_000 + rp.range(0, 2_000), dep: None, salt: rp.below(1 << 30), hdep: None, since: None });
        txs.push(TxSpec { inputs: vec![InRef::T(a, 0)], outputs: 1, fee: 3_000 + rp.range(0, 2_000), dep: None, salt: rp.below(1 << 30), hdep: None, since: None });
        let mut sk = vec![POp::Submit { t: a, remote: false }, POp::Quiesce];
        let mines = cfg.w_close + 2;
        for _ in 0..mines {
            sk.push(POp::Mine);
            sk.push(POp::Quiesce);
        }
        sk.push(POp::Submit { t: a + 1, remote: false });
        sk.push(POp::Quiesce);
        sk.push(POp::TwinBranch { t: a, back: mines, seed: rp.below(1 << 40) });
        sk.push(POp::Quiesce);
        sk.push(POp::ExpectPooled { t: a + 1 });
        sk.extend(ops.drain(..).take(30));
        ops = sk;
    }
    // C11 planted shapes (one run in eight each, streams of their own):
    //  (a) "a committed entry with a referrer parent and a grandchild": P references cell X as dep, T
    //      spends X (P becomes T's parent), C spends T, G spends C; another miner commits T alone: G's
    //      ancestor aggregates must lose P's weight too;
    //  (b) "a returning transaction under a chain at the ancestor limit": B is mined, C <- G <- H are
    //      pooled on top of it with H exactly at the limit (3); a quiet branch detaches B: B comes back
    //      below C and H would have four ancestors.
    if prop == "C11" && Rng::new(seed ^ 0xC11_5AA1).chance(1, 8) {
        let mut rp = Rng::new(seed ^ 0xC11_5AA2);
        let x = txs.len();
        let (g0, g1) = (rp.idx(g), rp.idx(g));
        let g1 = if g1 == g0 { (g0 + 1) % g } else { g1 };
        txs.push(TxSpec { inputs: vec![InRef::G(g0)], outputs: 2, fee: 2_500, dep: None, salt: rp.below(1 << 30), hdep: None, since: None }); // X maker
        txs.push(TxSpec { inputs: vec![InRef::G(g1)], outputs: 1, fee: 2_000 + rp.range(0, 900), dep: Some(InRef::T(x, 0)), salt: rp.below(1 << 30), hdep: None, since: None }); // P
        txs.push(TxSpec { inputs: vec![InRef::T(x, 0)], outputs: 1, fee: 2_000 + rp.range(0, 900), dep: None, salt: rp.below(1 << 30), hdep: None, since: None }); // T
        txs.push(TxSpec { inputs: vec![InRef::T(x + 2, 0)], outputs: 1, fee: 2_000 + rp.range(0, 900), dep: None, salt: rp.below(1 << 30), hdep: None, since: None }); // C
        txs.push(TxSpec { inputs: vec![InRef::T(x + 3, 0)], outputs: 1, fee: 2_000 + rp.range(0, 900), dep: None, salt: rp.below(1 << 30), hdep: None, since: None }); // G
        pool.max_ancestors = pool.max_ancestors.max(25);
        pool.max_tx_pool_size = 180_000_000;
        let mut sk = vec![POp::Submit { t: x, remote: false }, POp::Quiesce, POp::Foreign { t: x, seed: rp.below(1 << 40) }, POp::Quiesce];
        for t in [x + 1, x + 2, x + 3, x + 4] {
            sk.push(POp::Submit { t, remote: false });
            sk.push(POp::Quiesce);
        }
        sk.push(POp::Foreign { t: x + 2, seed: rp.below(1 << 40) });
        sk.push(POp::Quiesce);
        sk.extend(ops.drain(..).take(40));
        ops = sk;
    } else if prop == "C11" && Rng::new(seed ^ 0xC11_5AB1).chance(1, 8) {
        let mut rp = Rng::new(seed ^ 0xC11_5AB2);
        let b = txs.len();
        txs.push(TxSpec { inputs: vec![InRef::G(rp.idx(g))], outputs: 1, fee: 3_000, dep: None, salt: rp.below(1 << 30), hdep: None, since: None });
        for k in 0..3 {
            txs.push(TxSpec { inputs: vec![InRef::T(b + k, 0)], outputs: 1, fee: 2_000 + rp.range(0, 900), dep: None, salt: rp.below(1 << 30), hdep: None, since: None });
        }
        pool.max_ancestors = 3;
        pool.max_tx_pool_size = 180_000_000;
        let mines = cfg.w_close + 2;
        let mut sk = vec![POp::Submit { t: b, remote: false }, POp::Quiesce];
        for _ in 0..mines {
            sk.push(POp::Mine);
            sk.push(POp::Quiesce);
        }
        for k in 1..=3 {
            sk.push(POp::Submit { t: b + k, remote: false });
            sk.push(POp::Quiesce);
        }
        sk.push(POp::Fork { back: mines, len: 1, seed: rp.below(1 << 40), quiet: true });
        sk.push(POp::Quiesce);
        sk.extend(ops.drain(..).take(40));
        ops = sk;
    }
    if timelock_shape {
        // chain A: the genesis epoch mined quickly, one slow block ends it (A's next epoch gets half the
        // difficulty), a few blocks into epoch 1; transaction 0, locked until the earliest position the
        // pool can commit it at on A (or one block before), is admitted. Branch B leaves A two blocks
        // before the epoch boundary, runs fast and outweighs A while still shorter: on B the lock lies
        // beyond the position at which the pool's transaction can be committed first.
        let l = cfg.genesis_epoch_len;
        let f = l - 2;
        let slow = cfg.epoch_duration_target * 1000 * 2 + 777;
        let mut rp = Rng::new(seed ^ 0xC13_71B0);
        txs[0].inputs = vec![InRef::G(0)];
        txs[0].dep = None;
        txs[0].hdep = None;
        txs[0].fee = 2_000 + rp.range(0, 2_000);
        txs[0].since = Some(*rp.pick(&[0i64, 0, -1]));
        let mut sk = Vec::new();
        sk.push(POp::Quiet { n: f, ts_delta: 5, propose: None, seed: rp.below(1 << 40) });
        sk.push(POp::Quiet { n: 1, ts_delta: slow, propose: None, seed: rp.below(1 << 40) });
        let n_epoch1 = cfg.w_far - 3 + rp.range(0, 2);
        sk.push(POp::Quiet { n: n_epoch1, ts_delta: 3_000, propose: None, seed: rp.below(1 << 40) });
        sk.push(POp::Quiesce);
        sk.push(POp::Submit { t: 0, remote: false });
        sk.push(POp::Quiesce);
        // variants (a stream of their own): the transaction is committed on A before B takes over (it
        // comes back through the re-add of detached transactions, judged again at B's tip); the
        // submitter tries again after the reorganisation (judged again with its first verdict cached)
        let mut rv = Rng::new(seed ^ 0xC13_71B1);
        let mut mined_on_a = 0;
        if rv.chance(1, 2) {
            mined_on_a = cfg.w_close + 2;
            for _ in 0..mined_on_a {
                sk.push(POp::Mine);
                sk.push(POp::Quiesce);
            }
        }
        sk.push(POp::Fork { back: 1 + n_epoch1 + mined_on_a, len: 0, seed: rp.below(1 << 40), quiet: true });
        if rp.chance(1, 3) {
            sk.push(POp::Take);
            sk.push(POp::Poll { k: rp.idx(8) });
        }
        if rv.chance(1, 2) {
            sk.push(POp::Quiesce);
            sk.push(POp::Submit { t: 0, remote: rv.chance(1, 3) });
        }
        for _ in 0..4 {
            sk.push(POp::Quiesce);
            sk.push(POp::Mine);
        }
        sk.push(POp::Quiesce);
        sk.extend(ops.drain(..).take(25));
        ops = sk;
    }
    if c13_full {
        // "full template" skeleton: the whole DAG waits in the pool, blocks are mined until the
        // window is full of proposals and every template commits as much as the size limit admits;
        // siblings of the tip arrive while a template is full (uncles join a filled template),
        // proposals change under a filled template
        let mut rs = Rng::new(seed ^ 0xC13_F011);
        let mut sk = Vec::new();
        for t in 0..ntx {
            sk.push(POp::Submit { t, remote: rs.chance(1, 4) });
            if rs.chance(1, 3) {
                sk.push(POp::Quiesce);
            }
        }
        sk.push(POp::Quiesce);
        for k in 0..(cfg.w_close + 4 + rs.range(0, 4)) {
            sk.push(POp::Mine);
            sk.push(POp::Quiesce);
            if k + 1 == cfg.w_close && rs.chance(1, 2) {
                // "late submission": transactions that are already proposed on the chain leave the
                // pool (RPC removal) and are submitted again one by one, so that each of them is
                // added to the existing template (update_transactions) rather than to a fresh one
                let late: Vec<usize> = (0..ntx).filter(|_| rs.chance(1, 2)).collect();
                for t in late.iter().rev() {
                    sk.push(POp::Remove { t: *t });
                }
                sk.push(POp::Quiesce);
                sk.push(POp::Mine);
                sk.push(POp::Quiesce);
                for t in late.iter() {
                    sk.push(POp::Submit { t: *t, remote: false });
                    sk.push(POp::Quiesce);
                }
            }
            if k >= cfg.w_close && rs.chance(1, 2) {
                // a proposed transaction leaves and comes back while the template for this tip is full
                for _ in 0..rs.urange(1, 2) {
                    let t = rs.idx(ntx);
                    sk.push(POp::Remove { t });
                    sk.push(POp::Quiesce);
                    sk.push(POp::Submit { t, remote: false });
                    sk.push(POp::Quiesce);
                }
            }
            if k >= cfg.w_close && rs.chance(1, 2) {
                sk.push(POp::Sibling { seed: rs.below(1 << 40) });
                if rs.chance(1, 2) {
                    sk.push(POp::Quiesce);
                } else {
                    sk.push(POp::Take);
                    sk.push(POp::Poll { k: rs.idx(8) });
                }
            }
        }
        sk.extend(ops.drain(..).take(30));
        ops = sk;
    }
    if prop == "C04" {
        // probes at arbitrary points of the history (the pool is brought to rest before each)
        let k = r.urange(8, 30);
        for _ in 0..k {
            let at = r.idx(ops.len() + 1);
            let cand = gen_cand(&mut r, ntx);
            if r.chance(2, 5) {
                ops.insert(at, POp::ProbeBlock { cand });
            } else {
                ops.insert(at, POp::ProbePool { cand });
            }
        }
    }
    if (prop == "C12" || prop == "C13") && !c13_full {
        // transactions that spend the reward cell of a recent block (cellbase maturity is zero in these
        // runs): a reorganisation that detaches that block takes the cell away for good — the cellbase
        // cannot come back through the pool. A stream of their own; submitted in the later part of the run.
        let mut rc = Rng::new(seed ^ 0xC12_CB05);
        if rc.chance(1, 2) {
            for _ in 0..rc.urange(1, 3) {
                let t = txs.len();
                txs.push(TxSpec { inputs: vec![InRef::C(rc.range(0, 3))], outputs: rc.urange(1, 2), fee: rc.range(800, 4_000), dep: None, salt: rc.below(1 << 30), hdep: None, since: None });
                for _ in 0..rc.urange(2, 4) {
                    let at = ops.len() / 3 + rc.idx((ops.len() - ops.len() / 3).max(1));
                    ops.insert(at.min(ops.len()), POp::Submit { t, remote: false });
                }
            }
        }
    }
    PoolScenario { engine: "simnode".into(), kind: "pool".into(), prop: prop_name.into(), seed, cfg, pool, txs, ops, verify_cache_cold: false, store_caches: None }
}

pub fn gen_cand(r: &mut Rng, ntx: usize) -> Cand {
    let mut c = Cand { input: CandIn::Live(r.idx(64)), since: None, cap: 0, dep: 0, hdep: 0, fail_script: false, dup: false, second: None, salt: r.below(1 << 40) };
    let delta = |r: &mut Rng| *r.pick(&[-1i64, 0, 0, 1, 1, 3]);
    match r.below(14) {
        0 => {}
        1 | 2 | 3 => {
            // time locks at the boundary of the evaluation position
            c.since = Some((r.below(6) as u8, delta(r)));
            if r.chance(1, 4) {
                c.input = CandIn::CellbaseAt(0);
            }
        }
        4 => c.since = Some((*r.pick(&[6u8, 7, 8, 9, 10]), delta(r))),
        5 => {
            c.input = match r.below(4) {
                0 => CandIn::Dead(r.idx(64)),
                1 => CandIn::Unknown,
                _ => CandIn::TxOut(r.idx(ntx.max(1)), r.idx(3)),
            }
        }
        6 => c.dup = true,
        7 | 8 => c.input = CandIn::CellbaseAt(r.below(2) as u8),
        9 => c.cap = r.range(1, 4) as u8,
        10 => c.dep = r.range(1, 10) as u8,
        11 => c.hdep = r.range(1, 3) as u8,
        12 => {
            c.input = CandIn::WLock(r.idx(8));
            c.fail_script = r.chance(1, 2);
        }
        _ => c.second = Some(r.idx(64)),
    }
    c
}

/// C04: the position a transaction is evaluated at
#[derive(Clone, Debug)]
pub struct C04Env {
    pub number: u64,
    pub epoch: (u64, u64, u64),
    /// median time of the blocks ending at the parent of the position
    pub median_ms: u64,
    pub ts_by_number: Vec<u64>,
    pub main_hashes: Vec<Byte32>,
}

#[derive(Clone, Debug)]
pub struct CInfo {
    pub cell: MCell,
    /// false: created by a pooled transaction (no block yet)
    pub on_chain: bool,
}

fn frac((n, i, l): (u64, u64, u64)) -> (u128, u128) {
    if l == 0 { (n as u128, 1) } else { ((n as u128) * (l as u128) + i as u128, l as u128) }
}
fn efrac(e: &ckb_types::core::EpochNumberWithFraction) -> (u128, u128) {
    frac((e.number(), e.index(), e.length()))
}
fn ratio_add(a: (u128, u128), b: (u128, u128)) -> (u128, u128) {
    (a.0 * b.1 + b.0 * a.1, a.1 * b.1)
}
fn ratio_ge(a: (u128, u128), b: (u128, u128)) -> bool {
    a.0 * b.1 >= b.0 * a.1
}
fn live_or(chain: &BTreeMap<OutPoint, MCell>, live: &BTreeMap<OutPoint, CInfo>, op: &OutPoint) -> Option<u64> {
    chain.get(op).map(|c| c.capacity()).or_else(|| live.get(op).map(|c| c.cell.capacity()))
}
fn cand_dim(c: &Cand) -> String {
    let mut v = Vec::new();
    if let Some((k, d)) = c.since {
        v.push(format!("since{k}d{d}"));
    }
    if c.cap != 0 {
        v.push(format!("cap{}", c.cap));
    }
    if c.dep != 0 {
        v.push(format!("dep{}", c.dep));
    }
    if c.hdep != 0 {
        v.push(format!("hdep{}", c.hdep));
    }
    v.push(match &c.input {
        CandIn::Live(_) => "live".to_string(),
        CandIn::WLock(_) => "wlock".to_string(),
        CandIn::CellbaseAt(d) => format!("cellbase{d}"),
        CandIn::Dead(_) => "dead".to_string(),
        CandIn::Unknown => "unknown".to_string(),
        CandIn::TxOut(..) => "txout".to_string(),
    });
    v.join("+")
}

// ------------------------------------------------------------------ execution

static VERIFY_PANICKED: std::sync::atomic::AtomicBool = std::sync::atomic::AtomicBool::new(false);

struct Task {
    name: String,
    fut: BoxFut<()>,
}

pub struct PoolExec {
    sc: PoolScenario,
    w: World,
    node: Node,
    pool: SimPool,
    rt: ckb_async_runtime::Handle,
    txs: Vec<Option<TransactionView>>,
    tasks: Vec<Task>,
    results: Arc<std::sync::Mutex<Vec<(usize, Result<u64, String>)>>>,
    now: u64,
    ft: ckb_systemtime::FaketimeGuard,
    pub res: RunResult,
    log: Fnv,
    il: Fnv,
    _net: NetworkController,
    tip_idx: usize,
    genesis_outs: Vec<OutPoint>,
    /// pool contents at the last quiescent point (ids)
    stale_templates: u64,
    /// transactions taken out of the pool by RPC removal (pool-internal events)
    internal_removed: BTreeSet<Byte32>,
    /// C12 "back in the pool": the main chain before a reorganisation that started from a pool at
    /// rest (previous operation was a Quiesce); evaluated at the next Quiesce if nothing else happened
    readd_watch: Option<Vec<usize>>,
    last_op_quiesce: bool,
    /// C14: every verdict and answer of the run as (label, fingerprint); compared between twins
    c14: Vec<(String, u64)>,
    /// C14: number of task polls and verify steps so far (hash keys of their threads)
    poll_seq: u64,
}

fn dummy_network(shared: &ckb_shared::Shared, dir: &Path) -> NetworkController {
    let config = NetworkConfig {
        max_peers: 19,
        max_outbound_peers: 5,
        path: dir.join("net"),
        ping_interval_secs: 15,
        ping_timeout_secs: 20,
        connect_outbound_interval_secs: 1,
        discovery_local_address: true,
        bootnode_mode: true,
        reuse_port_on_linux: true,
        ..Default::default()
    };
    let network_state = Arc::new(NetworkState::from_config(config).expect("Init network state failed"));
    NetworkService::new(
        network_state,
        vec![],
        vec![],
        (shared.consensus().identify_name(), "test".to_string(), Flags::COMPATIBILITY),
        TransportType::Tcp,
    )
    .start(shared.async_handle())
    .expect("Start network service failed")
}

fn hex(b: &Byte32) -> String {
    format!("{:#x}", b)
}

/// polls task i until it finishes (true) or stops at a yield point (false); second value: stuck
fn poll_loop(tasks: &mut Vec<Task>, pool: &mut SimPool, rt: &ckb_async_runtime::Handle, i: usize) -> (bool, bool) {
    let waker = Waker::noop();
    let mut cx = Context::from_waker(waker);
    let mut spins = 0u64;
    let mut stuck = false;
    let done = rt.enter(|| loop {
        let before = pv::yield_count();
        match tasks[i].fut.as_mut().poll(&mut cx) {
            Poll::Ready(()) => break true,
            Poll::Pending => {
                if pv::yield_count() > before {
                    break false;
                }
                // the block-assembler loop runs beside the service loop and empties its bounded
                // channel all the time: a sender blocked on the full channel gets room again
                // (the messages join the task list in their order; see the drain below)
                while let Some(fut) = pool.next_block_assembler() {
                    tasks.push(Task { name: "block_assembler".into(), fut });
                }
                // waiting for a helper (script VM on the runtime): spin, do not interleave
                std::thread::sleep(std::time::Duration::from_micros(30));
                spins += 1;
                if spins > 200_000 {
                    // a task that waits for something no helper will ever deliver: harness error, not a hang
                    stuck = true;
                    break true;
                }
            }
        }
    });
    (done, stuck)
}

impl PoolExec {
    fn viol(&mut self, prop: &str, class: &str, detail: String) {
        if self.res.violation.is_none() && (prop == self.sc.prop || self.sc.prop == "ALL") {
            self.res.violation = Some(Violation { property: prop.into(), class: class.into(), detail });
        }
    }
    fn ev(&mut self, s: &str) {
        self.log.write_str(s);
        if std::env::var_os("SIM_TRACE").is_some() {
            eprintln!("[ev] {s}");
        }
    }

    pub fn open(sc: PoolScenario, dir: &Path) -> Result<PoolExec, String> {
        let w = World::new(sc.cfg.clone());
        let ft = ckb_systemtime::faketime();
        let now = sc.cfg.genesis_ts + 10_000;
        ft.set_faketime(now);
        std::fs::create_dir_all(dir).map_err(|e| e.to_string())?;
        let (rt, _stop, runtime) = ckb_async_runtime::new_global_runtime(Some(1));
        Box::leak(Box::new(runtime));
        Box::leak(Box::new(_stop));
        let lock = w.lock(&[0xC0, 9]);
        let ba = BlockAssemblerConfig {
            code_hash: ckb_types::H256::from_slice(lock.code_hash().as_slice()).unwrap(),
            args: ckb_jsonrpc_types::JsonBytes::from_bytes(lock.args().raw_data()),
            hash_type: ScriptHashType::Data,
            message: Default::default(),
            use_binary_version_as_message_prefix: false,
            binary_version: "SIM".to_string(),
            update_interval_millis: 0,
            notify: vec![],
            notify_scripts: vec![],
            notify_timeout_millis: 800,
        };
        let tp = TxPoolConfig {
            max_tx_pool_size: sc.pool.max_tx_pool_size,
            max_ancestors_count: sc.pool.max_ancestors,
            min_fee_rate: FeeRate::from_u64(sc.pool.min_fee_rate),
            min_rbf_rate: FeeRate::from_u64(sc.pool.min_rbf_rate),
            expiry_hours: sc.pool.expiry_hours,
            ..Default::default()
        };
        let store_cfg = sc.store_caches.map(|c| {
            let mut cfg = ckb_app_config::StoreConfig::default();
            cfg.header_cache_size = c[0];
            cfg.cell_data_cache_size = c[1];
            cfg.block_proposals_cache_size = c[2];
            cfg.block_tx_hashes_cache_size = c[3];
            cfg.block_uncles_cache_size = c[4];
            cfg.block_extensions_cache_size = c[5];
            cfg
        });
        let mut node = Node::open_with(dir, w.consensus.clone(), false, store_cfg, Some(rt.clone()), Some(tp), Some(ba))?;
        let net = dummy_network(&node.shared, dir);
        let pool = node.pack.take_tx_pool_builder().verif_into_sim(net.clone());
        let g0 = w.blocks[0].view.clone();
        // plain genesis cells only (witness-locked ones need their program in witness 0)
        let genesis_outs = g0
            .transactions()
            .iter()
            .skip(1)
            .filter(|t| t.outputs().get(0).map(|o| o.lock().code_hash() == w.code_hash).unwrap_or(false))
            .map(|t| OutPoint::new(t.hash(), 0))
            .collect();
        let ntx = sc.txs.len();
        Ok(PoolExec {
            res: RunResult { seed: sc.seed, ..Default::default() },
            sc,
            w,
            node,
            pool,
            rt,
            txs: vec![None; ntx],
            tasks: Vec::new(),
            results: Arc::new(std::sync::Mutex::new(Vec::new())),
            now,
            ft,
            log: Fnv::new(),
            il: Fnv::new(),
            _net: net,
            tip_idx: 0,
            genesis_outs,
            stale_templates: 0,
            internal_removed: BTreeSet::new(),
            readd_watch: None,
            last_op_quiesce: false,
            c14: Vec::new(),
            poll_seq: 0,
        })
    }

    /// materialise scenario tx t (needs its parents materialised)
    fn tx(&mut self, t: usize) -> Option<TransactionView> {
        if let Some(x) = &self.txs[t] {
            return Some(x.clone());
        }
        let spec = self.sc.txs[t].clone();
        let mut total = 0u64;
        let mut tb = TransactionBuilder::default().cell_dep(self.w.code_dep.clone());
        for i in &spec.inputs {
            let (op, cap) = match i {
                InRef::G(k) => {
                    let op = self.genesis_outs[*k % self.genesis_outs.len()].clone();
                    let cap = self.w.st(0).cells.get(&op)?.capacity();
                    (op, cap)
                }
                InRef::C(back) => {
                    let st = self.w.st(self.tip_idx);
                    let tipn = st.chain.len() - 1;
                    let n = tipn.checked_sub(*back as usize).filter(|n| *n > 0)?;
                    let cb = self.w.blocks[st.chain[n]].view.transactions()[0].clone();
                    let out = cb.outputs().get(0)?;
                    if out.lock().code_hash() != self.w.code_hash {
                        return None;
                    }
                    let op = OutPoint::new(cb.hash(), 0);
                    let cap = st.cells.get(&op)?.capacity();
                    (op, cap)
                }
                InRef::T(tt, oo) => {
                    if *tt >= t {
                        return None;
                    }
                    let p = self.tx(*tt)?;
                    let o = p.outputs().get(*oo)?;
                    let c: Capacity = o.capacity().into();
                    (OutPoint::new(p.hash(), *oo as u32), c.as_u64())
                }
            };
            total += cap;
            let since = match (spec.since, total == cap) {
                // first input only
                (Some(d), true) => {
                    let tipn = (self.w.st(self.tip_idx).chain.len() - 1) as i64;
                    (tipn + 1 + self.w.cfg.w_close as i64 + d).max(1) as u64
                }
                _ => 0,
            };
            tb = tb.input(CellInput::new(op, since));
        }
        if let Some(InRef::T(tt, oo)) = &spec.dep {
            if *tt < t {
                if let Some(p) = self.tx(*tt) {
                    if p.outputs().get(*oo).is_some() {
                        tb = tb.cell_dep(
                            packed::CellDep::new_builder()
                                .out_point(OutPoint::new(p.hash(), *oo as u32))
                                .build(),
                        );
                    }
                }
            }
        }
        if total <= spec.fee {
            return None;
        }
        let left = total - spec.fee;
        let n = spec.outputs.max(1) as u64;
        let lock = self.w.lock(&[(spec.salt % 5) as u8]);
        let o0 = CellOutput::new_builder().lock(lock).build();
        let min = occupied(&o0, 0);
        let n = n.min(left / min).max(1);
        if left < min {
            return None;
        }
        for j in 0..n {
            let cap = if j + 1 == n { left - (left / n) * (n - 1) } else { left / n };
            tb = tb.output(o0.clone().as_builder().capacity(Capacity::shannons(cap)).build()).output_data(Bytes::new());
        }
        tb = tb.witness(Bytes::from(spec.salt.to_le_bytes().to_vec()).pack());
        if let Some(back) = spec.hdep {
            let chain = &self.w.st(self.tip_idx).chain;
            let tipn = chain.len() - 1;
            if tipn > 0 {
                let n = tipn - (back as usize % tipn.min(4));
                tb = tb.header_dep(self.w.blocks[chain[n]].view.hash());
            }
        }
        let tx = tb.build();
        self.w.add_tx(tx.clone(), spec.fee);
        self.txs[t] = Some(tx.clone());
        Some(tx)
    }

    fn barrier(&self) {
        // spawned helper tasks (verify-cache insert, recovered-tx enqueue) run on the single
        // runtime worker in FIFO order: a barrier task after them means they are done
        let (tx, rx) = std::sync::mpsc::channel();
        self.rt.spawn(async move {
            let _ = tx.send(());
        });
        let _ = rx.recv();
    }

    /// poll one task; true = finished
    fn poll_task(&mut self, i: usize, allow_yield: bool) -> bool {
        // a submission changes the pool in its last segment only (after its last yield point): the
        // contents right before every poll of such a task are the "before" of a possible replacement
        let watch = self.tasks[i].name.starts_with("submit") || self.tasks[i].name.starts_with("verify_worker");
        let before = if watch { Some(self.dump()) } else { None };
        let done = self.poll_task_inner(i, allow_yield);
        if let (true, Some(b)) = (done, before) {
            let after = self.dump();
            self.rbf_oracle(&b, &after);
        }
        done
    }

    /// C11: "a replacement is admitted only if it pays at least the replaced transactions' fees plus
    /// the configured increment and never leaves both the replaced and the replacing transaction in
    /// the pool". Replaced = the pooled transactions that spend one of the newcomer's inputs and
    /// everything that spends their outputs (a subset of what the pool itself counts, so the bound
    /// demanded here is never higher than the rule's).
    fn rbf_oracle(&mut self, before: &PoolDump, after: &PoolDump) {
        let was: BTreeSet<Byte32> = before.entries.iter().map(|e| e.tx.hash()).collect();
        let now: BTreeSet<Byte32> = after.entries.iter().map(|e| e.tx.hash()).collect();
        for t in after.entries.iter().filter(|e| !was.contains(&e.tx.hash())) {
            let ins: BTreeSet<OutPoint> = t.tx.inputs().into_iter().map(|i| i.previous_output()).collect();
            let mut replaced: BTreeSet<Byte32> = before.entries.iter().filter(|e| e.tx.inputs().into_iter().any(|i| ins.contains(&i.previous_output()))).map(|e| e.tx.hash()).collect();
            if replaced.is_empty() {
                continue;
            }
            self.res.probes.inc("rbf_replacement_admitted");
            loop {
                let more: Vec<Byte32> = before.entries.iter().filter(|e| !replaced.contains(&e.tx.hash()) && e.tx.inputs().into_iter().any(|i| replaced.contains(&i.previous_output().tx_hash()))).map(|e| e.tx.hash()).collect();
                if more.is_empty() {
                    break;
                }
                replaced.extend(more);
            }
            if replaced.len() > 1 {
                self.res.probes.inc("rbf_replaced_has_descendants");
            }
            let sum: u64 = before.entries.iter().filter(|e| replaced.contains(&e.tx.hash())).map(|e| e.fee.as_u64()).sum();
            let extra = after.limits.2.saturating_mul(t.size as u64) / 1000;
            if t.fee.as_u64() < sum + extra {
                self.viol("C11", "rbf_underpaid", format!("tx {} (fee {}, size {}) replaced {} pooled transaction(s) paying {} in total; rule demands at least {} + {}", hex(&t.tx.hash()), t.fee.as_u64(), t.size, replaced.len(), sum, sum, extra));
            }
            if let Some(h) = replaced.iter().find(|h| now.contains(*h)) {
                self.viol("C11", "rbf_replaced_tx_still_pooled", format!("tx {} replaced {} which is still pooled", hex(&t.tx.hash()), hex(h)));
            }
        }
    }

    /// A block the model built (valid by construction) was refused by the node. In the cache-twin runs
    /// that is a verdict a cache may have changed (C14); elsewhere the model and the node disagree
    /// for a reason the run's property does not speak about: harness error, never ignored.
    fn model_block_rejected(&mut self, kind: &str, e: &str) {
        if self.sc.prop == "C14" {
            let class: String = e.split('(').take(3).collect::<Vec<_>>().join("(");
            self.viol("C14", &format!("valid_block_refused:{class}"), format!("a block built by the model ({kind}; every rule met in its context) was refused: {e}"));
        } else {
            self.res.harness_error = Some(format!("model-built {kind} block rejected: {e}"));
        }
    }

    /// cold twin of C14: the verification cache is emptied (between polls nobody holds its lock)
    fn cool_verify_cache(&mut self) {
        if self.sc.verify_cache_cold {
            let cache = self.node.shared.txs_verify_cache();
            match cache.try_write() {
                Ok(mut g) => {
                    if g.len() > 0 {
                        self.res.faults.inc("verify_cache_cleared");
                    }
                    g.clear();
                }
                Err(_) => self.res.probes.inc("verify_cache_busy_not_cleared"),
            };
        }
    }

    fn poll_task_inner(&mut self, i: usize, allow_yield: bool) -> bool {
        self.cool_verify_cache();
        pv::arm_yield(allow_yield);
        let rt = self.rt.clone();
        let (done, stuck) = if self.sc.prop == "C14" {
            // cache twins: every poll runs on a thread of its own whose HashMap keys are a function of
            // the poll's position in the run, so that the iteration order of the maps a task creates
            // does not depend on how many maps earlier (cache-dependent) work created on this thread
            self.poll_seq += 1;
            crate::reset_hash_ctr(self.poll_seq.wrapping_mul(0x1000));
            let tasks = &mut self.tasks;
            let pool = &mut self.pool;
            std::thread::scope(|s| s.spawn(|| poll_loop(tasks, pool, &rt, i)).join()).unwrap_or_else(|e| std::panic::resume_unwind(e))
        } else {
            poll_loop(&mut self.tasks, &mut self.pool, &rt, i)
        };
        if stuck && self.res.harness_error.is_none() {
            self.res.harness_error = Some(format!("task '{}' makes no progress (waits for an event nobody delivers)", self.tasks[i].name));
        }
        pv::arm_yield(false);
        self.barrier();
        // whatever the task sent to the block assembler joins the task list now, whether or not the
        // channel ran full meanwhile: the order of tasks does not depend on real-time waits
        while let Some(fut) = self.pool.next_block_assembler() {
            self.tasks.push(Task { name: "block_assembler".into(), fut });
        }
        done
    }

    fn take_queued(&mut self) -> usize {
        let mut n = 0;
        while let Some((kind, fut)) = self.pool.next_message() {
            self.tasks.push(Task { name: format!("msg:{kind}"), fut });
            n += 1;
        }
        while let Some(fut) = self.pool.next_reorg() {
            self.tasks.push(Task { name: "reorg".into(), fut });
            n += 1;
        }
        while let Some(fut) = self.pool.next_block_assembler() {
            self.tasks.push(Task { name: "block_assembler".into(), fut });
            n += 1;
        }
        n
    }

    fn run_value<T: Send + 'static>(&mut self, fut: BoxFut<T>) -> T {
        self.run_value_named("inline", fut)
    }

    fn run_value_named<T: Send + 'static>(&mut self, name: &str, fut: BoxFut<T>) -> T {
        let slot: Arc<std::sync::Mutex<Option<T>>> = Arc::new(std::sync::Mutex::new(None));
        let s2 = Arc::clone(&slot);
        self.tasks.push(Task {
            name: name.into(),
            fut: Box::pin(async move {
                let v = fut.await;
                *s2.lock().unwrap() = Some(v);
            }),
        });
        let i = self.tasks.len() - 1;
        while !self.poll_task(i, false) {}
        self.tasks.remove(i);
        let v = slot.lock().unwrap().take().unwrap();
        v
    }

    fn quiesce(&mut self) {
        let mut guard = 0;
        loop {
            guard += 1;
            if guard > 10_000 {
                self.res.harness_error = Some("quiesce does not terminate".into());
                return;
            }
            // FIFO: oldest task first
            if !self.tasks.is_empty() {
                while !self.poll_task(0, false) {}
                let t = self.tasks.remove(0);
                self.ev(&format!("done {}", t.name));
                if self.res.harness_error.is_some() {
                    return;
                }
                // bookkeeping must be consistent after every completed task, not only at the end
                self.check_dump(&format!("after_{}", t.name.split(':').next().unwrap_or("")));
                if self.res.violation.is_some() {
                    return;
                }
                continue;
            }
            if self.take_queued() > 0 {
                continue;
            }
            let more = self.run_value_named("verify_worker_inline", self.pool.next_verify());
            if more {
                continue;
            }
            if self.take_queued() == 0 && self.tasks.is_empty() {
                break;
            }
        }
    }

    /// chain verify stage on a helper thread; this thread serves only UpdateIBDState meanwhile
    fn chain_drain(&mut self) {
        loop {
            let mut progressed = false;
            while self.node.chain.step_insert_queued() {
                progressed = true;
            }
            while self.node.chain.step_preload() {
                progressed = true;
            }
            if self.node.chain.verify_pending() > 0 {
                progressed = true;
                self.cool_verify_cache();
                if self.sc.prop == "C14" {
                    self.poll_seq += 1;
                    crate::reset_hash_ctr(self.poll_seq.wrapping_mul(0x1000));
                }
                let chain = &mut self.node.chain;
                let pool = &mut self.pool;
                let tasks = &mut self.tasks;
                let rt = self.rt.clone();
                std::thread::scope(|s| {
                    let h = s.spawn(|| chain.step_verify());
                    while !h.is_finished() {
                        while let Some((kind, mut fut)) = pool.next_message() {
                            if kind == "update_ibd_state" {
                                let waker = Waker::noop();
                                let mut cx = Context::from_waker(waker);
                                rt.enter(|| while fut.as_mut().poll(&mut cx).is_pending() {});
                            } else {
                                tasks.push(Task { name: format!("msg:{kind}"), fut });
                            }
                        }
                        std::thread::sleep(std::time::Duration::from_micros(40));
                    }
                    if h.join().is_err() {
                        VERIFY_PANICKED.store(true, std::sync::atomic::Ordering::SeqCst);
                    }
                });
                if VERIFY_PANICKED.swap(false, std::sync::atomic::Ordering::SeqCst) {
                    let msg = crate::LAST_PANIC.lock().unwrap().clone().unwrap_or_default();
                    let prop = self.sc.prop.clone();
                    self.res.faults.inc("node_panic");
                    self.viol(&prop, &format!("node_panic:{}", msg.split(" | ").next().unwrap_or("")), format!("the chain verify stage panicked: {msg}"));
                    return;
                }
                // messages sent at the very end of the verify step
                while let Some((kind, mut fut)) = self.pool.next_message() {
                    if kind == "update_ibd_state" {
                        let waker = Waker::noop();
                        let mut cx = Context::from_waker(waker);
                        let rt = self.rt.clone();
                        rt.enter(|| while fut.as_mut().poll(&mut cx).is_pending() {});
                    } else {
                        self.tasks.push(Task { name: format!("msg:{kind}"), fut });
                    }
                }
            }
            if !progressed {
                break;
            }
        }
        let snap = self.node.shared.cloned_snapshot();
        if let Some(i) = self.w.by_hash.get(&snap.tip_hash()) {
            self.tip_idx = *i;
        }
    }

    fn deliver(&mut self, b: &BlockView) -> Option<Result<bool, String>> {
        let before = self.node.verdicts.lock().unwrap().len();
        self.node.deliver(b);
        self.chain_drain();
        let v = self.node.verdicts.lock().unwrap();
        v.get(before).map(|x| x.1.clone())
    }

    pub fn run(&mut self) -> RunResult {
        let ops = self.sc.ops.clone();
        for op in ops.iter() {
            if self.res.violation.is_some() || self.res.harness_error.is_some() {
                break;
            }
            self.ft.set_faketime(self.now);
            let r = std::panic::catch_unwind(std::panic::AssertUnwindSafe(|| self.step(op)));
            if r.is_err() {
                let msg = crate::LAST_PANIC.lock().unwrap().clone().unwrap_or_default();
                let prop = self.sc.prop.clone();
                self.res.faults.inc("node_panic");
                self.viol(&prop, &format!("node_panic:{}", msg.split(" | ").next().unwrap_or("")), format!("panic while executing {:?}: {}", op, msg));
                break;
            }
            self.res.steps += 1;
        }
        if self.res.violation.is_none() && self.res.harness_error.is_none() {
            let r = std::panic::catch_unwind(std::panic::AssertUnwindSafe(|| {
                self.quiesce();
                self.check_quiescent("final");
            }));
            if r.is_err() {
                let msg = crate::LAST_PANIC.lock().unwrap().clone().unwrap_or_default();
                let prop = self.sc.prop.clone();
                self.viol(&prop, &format!("node_panic:{}", msg.split(" | ").next().unwrap_or("")), format!("panic during final quiesce: {}", msg));
            }
        }
        if self.res.violation.is_some() {
            // a harness complaint that follows a violation (e.g. no verdict after a node panic) is its consequence
            self.res.harness_error = None;
        }
        self.res.probes.add("stale_templates_not_verified", self.stale_templates);
        if self.sc.prop == "C14" {
            let mut out = std::mem::take(&mut self.c14);
            for (k, (t, r)) in self.results.lock().unwrap().iter().enumerate() {
                let s = match r {
                    Ok(c) => format!("ok:{c}"),
                    Err(e) => format!("err:{e}"),
                };
                out.push((format!("submission[{k}]:tx{t}"), simcore::fp_bytes(s.as_bytes())));
            }
            for (k, (h, v)) in self.node.verdicts.lock().unwrap().iter().enumerate() {
                let s = match v {
                    Ok(b) => format!("ok:{b}"),
                    Err(e) => format!("err:{}", e.split('(').next().unwrap_or("")),
                };
                out.push((format!("block_verdict[{k}]:{}", &hex(h)[..10]), simcore::fp_bytes(s.as_bytes())));
            }
            // recorded fees and cycles of every main-chain block
            let snap = self.node.shared.cloned_snapshot();
            let store = self.node.shared.store();
            out.push(("tip".into(), simcore::fp_bytes(snap.tip_hash().as_slice())));
            for n in 0..=snap.tip_number() {
                if let Some(h) = store.get_block_hash(n) {
                    let s = store.get_block_ext(&h).map(|e| format!("{:?}:{:?}:{:?}:{:#x}", e.verified, e.txs_fees.iter().map(|c| c.as_u64()).collect::<Vec<_>>(), e.cycles, e.total_difficulty)).unwrap_or_default();
                    out.push((format!("ext#{n}"), simcore::fp_bytes(s.as_bytes())));
                    out.push((format!("block#{n}"), simcore::fp_bytes(h.as_slice())));
                }
            }
            self.res.extra = Some(serde_json::json!({ "c14": out }));
        }
        self.res.log_hash = self.log.finish();
        self.res.interleaving = self.il.finish();
        self.res.sim_ms = self.now - self.sc.cfg.genesis_ts;
        self.res.clone()
    }

    fn step(&mut self, op: &POp) {
        if !matches!(op, POp::Quiesce) {
            self.readd_watch = None;
        }
        self.step_inner(op);
        self.last_op_quiesce = matches!(op, POp::Quiesce) && self.tasks.is_empty();
    }

    fn step_inner(&mut self, op: &POp) {
        match op {
            POp::ProbePool { cand } => {
                self.il.write_u64(0x30);
                self.quiesce();
                self.c04_probe_pool(cand);
            }
            POp::ProbeBlock { cand } => {
                self.il.write_u64(0x31);
                self.quiesce();
                self.c04_probe_block(cand);
            }
            POp::Submit { t, remote } => {
                self.il.write_u64(0x100 + *t as u64 * 2 + *remote as u64);
                let Some(tx) = self.tx(*t) else { return };
                let results = Arc::clone(&self.results);
                let tt = *t;
                if *remote {
                    let f = self.pool.submit_remote_tx(tx, 10_000_000, 1usize.into());
                    // remote submissions declare cycles; a wrong declaration is rejected by design,
                    // so declare "unknown" through the local path half of the time instead
                    self.tasks.push(Task {
                        name: format!("submit_remote:{t}"),
                        fut: Box::pin(async move {
                            let r = f.await;
                            results.lock().unwrap().push((tt, r.map(|_| 0).map_err(|e| e.to_string())));
                        }),
                    });
                } else {
                    let f = self.pool.submit_local_tx(tx);
                    self.tasks.push(Task {
                        name: format!("submit_local:{t}"),
                        fut: Box::pin(async move {
                            let r = f.await;
                            results.lock().unwrap().push((tt, r.map(|c| c.cycles).map_err(|e| e.to_string())));
                        }),
                    });
                }
                self.ev(&format!("submit {t} remote={remote}"));
            }
            POp::Verify => {
                self.il.write_u64(2);
                let f = self.pool.next_verify();
                self.tasks.push(Task { name: "verify_worker".into(), fut: Box::pin(async move { let _ = f.await; }) });
            }
            POp::Take => {
                self.il.write_u64(3);
                let n = self.take_queued();
                self.ev(&format!("take {n}"));
            }
            POp::Poll { k } => {
                // the service runs reorg notifications in one sequential loop and block-assembler
                // messages in another: of those only the oldest unfinished one may make progress.
                // Controller messages and verify workers are independent tasks.
                let mut pollable = Vec::new();
                let (mut seen_reorg, mut seen_ba) = (false, false);
                for (i, t) in self.tasks.iter().enumerate() {
                    match t.name.as_str() {
                        "reorg" => {
                            if !seen_reorg {
                                pollable.push(i);
                            }
                            seen_reorg = true;
                        }
                        "block_assembler" => {
                            if !seen_ba {
                                pollable.push(i);
                            }
                            seen_ba = true;
                        }
                        _ => pollable.push(i),
                    }
                }
                if pollable.is_empty() {
                    return;
                }
                let i = pollable[k % pollable.len()];
                self.il.write_u64(0x40 + i as u64);
                let yields_before = pv::yield_count();
                let done = self.poll_task(i, true);
                if pv::yield_count() > yields_before {
                    self.res.faults.inc("task_suspended_at_yield_point");
                    self.res.nontrivial = true;
                }
                let name = self.tasks[i].name.clone();
                if done {
                    self.tasks.remove(i);
                }
                self.ev(&format!("poll {name} done={done}"));
                self.check_dump("poll");
            }
            POp::PollKind { kind } => {
                let Some(i) = self.tasks.iter().position(|t| t.name.starts_with(kind.as_str())) else { return };
                self.il.write_u64(0x60 + i as u64);
                let yields_before = pv::yield_count();
                let done = self.poll_task(i, true);
                if pv::yield_count() > yields_before {
                    self.res.faults.inc("task_suspended_at_yield_point");
                    self.res.nontrivial = true;
                }
                let name = self.tasks[i].name.clone();
                if done {
                    self.tasks.remove(i);
                }
                self.ev(&format!("poll {name} done={done}"));
                self.check_dump("poll");
            }
            POp::Quiesce => {
                self.il.write_u64(5);
                self.quiesce();
                self.ev("quiesce");
                self.check_quiescent("quiesce");
            }
            POp::Mine => {
                self.il.write_u64(6);
                self.mine();
            }
            POp::Fork { back, len, seed, quiet } => {
                self.il.write_u64(7);
                self.fork(*back, *len, *seed, *quiet);
            }
            POp::Remove { t } => {
                self.il.write_u64(8);
                if let Some(tx) = self.txs[*t].clone() {
                    let before: BTreeSet<Byte32> = self.dump().entries.iter().map(|e| e.tx.hash()).collect();
                    let f = self.pool.remove_tx(tx.hash());
                    let _ = self.run_value(f);
                    let after: BTreeSet<Byte32> = self.dump().entries.iter().map(|e| e.tx.hash()).collect();
                    // removed by RPC (with descendants): a submission suspended right now may still add
                    // a child of one of these - a pool-internal race, not a chain matter
                    self.internal_removed.extend(before.difference(&after).cloned());
                    self.res.faults.inc("remove_tx");
                    self.check_dump("remove");
                }
            }
            POp::Clock { ms } => {
                self.il.write_u64(9);
                self.now += ms;
                self.res.faults.inc("clock_advance");
            }
            POp::Foreign { t, seed } => {
                self.il.write_u64(11);
                self.foreign(*t, *seed);
            }
            POp::Sibling { seed } => {
                self.il.write_u64(12);
                self.sibling(*seed);
            }
            POp::TwinBranch { t, back, seed } => {
                self.il.write_u64(14);
                self.twin_branch(*t, *back, *seed);
            }
            POp::ExpectPooled { t } => {
                self.il.write_u64(15);
                self.quiesce();
                self.expect_pooled(*t);
            }
            POp::Quiet { n, ts_delta, propose, seed } => {
                self.il.write_u64(13);
                self.quiet(*n, *ts_delta, *propose, *seed);
            }
            POp::Expire => {
                self.il.write_u64(10);
                // the service runs the expiry pass only inside a reorg notification, together with
                // the switch to the new snapshot (a submission that is suspended meanwhile re-checks
                // its inputs because the tip changed): a bare pass cannot overlap a submission
                if self.tasks.iter().any(|t| t.name.starts_with("submit")) {
                    self.res.probes.inc("expiry_pass_skipped_submission_in_flight");
                    return;
                }
                let f = self.pool.remove_expired();
                self.run_value(f);
                self.res.faults.inc("expiry_pass");
                self.check_dump("expire");
            }
        }
    }

    /// C13: the template, sealed, must pass the node's own pipeline
    fn mine(&mut self) {
        let pending_ba = self.tasks.iter().filter(|t| t.name == "block_assembler" || t.name == "reorg").count();
        if pending_ba > 0 {
            self.res.faults.inc("template_requested_with_updates_pending");
            self.res.nontrivial = true;
        }
        let tpl = match self.run_value(self.pool.get_block_template()) {
            Ok(t) => t,
            Err(e) => {
                self.viol("C13", "template_error", e.to_string());
                return;
            }
        };
        let block: packed::Block = tpl.into();
        let mut view = block.as_advanced_builder().nonce(self.res.steps as u128).build();
        if self.sc.prop == "C14" {
            // the proposal list of a template comes out of a HashSet: its order follows the process's
            // hash seeds and the number of maps created before, which differs between cache twins for
            // reasons that are not answers. The miner may order proposals freely: sorted here.
            let mut ps: Vec<packed::ProposalShortId> = view.data().proposals().into_iter().collect();
            ps.sort_by(|a, b| a.as_slice().cmp(b.as_slice()));
            // the same holds for the order of uncles of one height (candidates are kept in a HashSet)
            let mut us: Vec<ckb_types::core::UncleBlockView> = view.uncles().into_iter().collect();
            us.sort_by(|a, b| a.hash().as_slice().cmp(b.hash().as_slice()));
            view = view.as_advanced_builder().set_proposals(ps).set_uncles(us).build();
        }
        let snap = self.node.shared.cloned_snapshot();
        let on_tip = view.parent_hash() == snap.tip_hash();
        // the block's timestamp must not be in the node's future
        self.now = self.now.max(view.timestamp());
        self.ft.set_faketime(self.now);
        self.now += 1_000 + (self.res.steps % 7) * 3_000;
        // ordered parents-first and closed under in-pool ancestors
        {
            let mut seen: BTreeSet<Byte32> = BTreeSet::new();
            let committed: BTreeSet<Byte32> = view.transactions().iter().map(|t| t.hash()).collect();
            for tx in view.transactions().iter().skip(1) {
                for i in tx.inputs().into_iter() {
                    let h = i.previous_output().tx_hash();
                    if committed.contains(&h) && !seen.contains(&h) {
                        self.viol("C13", "template_child_before_parent", format!("tx {} precedes its parent {}", hex(&tx.hash()), hex(&h)));
                    }
                }
                seen.insert(tx.hash());
            }
        }
        let model = self.w.adopt(&view);
        let verdict = self.deliver(&view);
        let ntx = view.transactions().len() - 1;
        if self.sc.prop == "C14" {
            let k = self.c14.len();
            self.c14.push((format!("template[{k}]:n{}", view.number()), simcore::fp_bytes(view.data().as_slice())));
            let s = match &verdict {
                Some(Ok(b)) => format!("ok:{b}"),
                Some(Err(e)) => format!("err:{}", e.split('(').next().unwrap_or("")),
                None => "none".into(),
            };
            self.c14.push((format!("template_verdict[{k}]:n{}", view.number()), simcore::fp_bytes(s.as_bytes())));
        }
        self.ev(&format!("mine n={} txs={} proposals={} uncles={} on_tip={} verdict={:?} model={:?}", view.number(), ntx, view.data().proposals().len(), view.data().uncles().len(), on_tip, verdict, model.as_ref().map(|_| ())));
        if ntx > 0 {
            self.res.probes.inc("template_commits_txs");
        }
        if view.transactions().iter().skip(1).any(|t| t.inputs().into_iter().any(|i| Into::<u64>::into(i.since()) != 0)) {
            self.res.probes.inc("template_commits_time_locked_tx");
        }
        if !view.data().proposals().is_empty() {
            self.res.probes.inc("template_proposes_txs");
        }
        if !view.data().uncles().is_empty() {
            self.res.probes.inc("template_includes_uncles");
        }
        if view.number() > self.w.cfg.w_far + 1 && view.transactions()[0].outputs().is_empty() {
            self.res.probes.inc("template_cellbase_without_output_reward_cannot_fund_cell");
        }
        // did the template reach a consensus limit?
        if self.w.cfg.max_block_bytes < 100_000 {
            self.res.probes.inc("template_under_small_limits");
            if view.data().proposals().len() as u64 == self.w.cfg.max_block_proposals {
                self.res.probes.inc("template_at_proposal_limit");
            }
            let uncle_ids: usize = view.uncles().into_iter().map(|u| u.data().proposals().len()).sum();
            let size = (view.data().as_slice().len() - 10 * uncle_ids) as u64;
            if size + 250 > self.w.cfg.max_block_bytes {
                self.res.probes.inc("template_within_250_bytes_of_size_limit");
            }
            if let Ok(i) = &model {
                let cy = &self.w.blocks[*i].cycles;
                if cy.iter().all(|c| c.is_some()) {
                    let sum: u64 = cy.iter().map(|c| c.unwrap()).sum();
                    if sum + crate::model::COST_ALWAYS_SUCCESS_VM0 > self.w.cfg.max_block_cycles {
                        self.res.probes.inc("template_at_cycle_limit");
                    }
                }
            }
        }
        match verdict {
            Some(Ok(true)) => {
                if on_tip {
                    let now_tip = self.node.shared.snapshot().tip_hash();
                    if now_tip != view.hash() {
                        self.viol("C13", "template_on_tip_did_not_become_tip", format!("block {} accepted but tip is {}", hex(&view.hash()), hex(&now_tip)));
                    }
                    self.res.probes.inc("template_verified_as_new_tip");
                    if let Err(e) = &model {
                        self.res.harness_error = Some(format!("node accepted a template the model rejects: {e}"));
                    }
                } else {
                    // stored as a side block: the node verified nothing. The template must still be a
                    // valid block on the parent it names: the reference model judges it alone here.
                    self.stale_templates += 1;
                    if let Err(e) = &model {
                        let reason: String = e.chars().map(|c| if c.is_ascii_digit() { '#' } else { c }).collect();
                        self.viol("C13", &format!("stale_parent_template_invalid:{}", reason.split(':').next().unwrap_or("")), format!("template n={} names parent {} (no longer the tip) and is not a valid block on that parent: {e}", view.number(), hex(&view.parent_hash())));
                    }
                }
            }
            Some(Ok(false)) => {}
            Some(Err(e)) => {
                self.viol("C13", &format!("template_rejected:{}", e.split('(').take(3).collect::<Vec<_>>().join("(")), format!("sealed template (n={}, {} txs, on_tip={}) rejected by the node: {} [model: {:?}]", view.number(), ntx, on_tip, e, model.err()));
            }
            None => {
                self.res.harness_error = Some("no verdict for a mined block".into());
            }
        }
        self.check_dump("mine");
    }

    /// blocks of another miner on top of the tip that propose and then commit one pool transaction
    fn foreign(&mut self, t: usize, seed: u64) {
        let Some(tx) = self.tx(t % self.sc.txs.len().max(1)) else { return };
        if self.w.st(self.tip_idx).txs.contains_key(&tx.hash()) {
            return;
        }
        let name = format!("pt{}", t % self.sc.txs.len().max(1));
        if !self.w.planted.contains_key(&name) {
            let Some(idx) = self.w.txs.iter().position(|m| m.tx.hash() == tx.hash()) else { return };
            self.w.planted.insert(name.clone(), idx);
        }
        let wc = self.w.cfg.w_close;
        let mut parent = self.tip_idx;
        for j in 0..=wc {
            let plant: Vec<String> = if j == 0 { vec![format!("propose:{name}")] } else if j == wc { vec![format!("commit:{name}")] } else { vec![] };
            let recipe = crate::scen::plain_recipe((seed << 8) ^ j ^ ((self.w.blocks.len() as u64) << 44), &plant);
            let b = self.w.build_child(parent, &recipe);
            let v = self.w.blocks[b].view.clone();
            self.now = self.now.max(v.timestamp());
            self.ft.set_faketime(self.now);
            if let Some(Err(e)) = self.deliver(&v) {
                self.model_block_rejected("foreign", &e);
                return;
            }
            if j == wc && v.transactions().len() > 1 {
                self.res.probes.inc("foreign_block_commits_pool_tx");
                self.res.nontrivial = true;
            }
            parent = b;
        }
        self.res.faults.inc("foreign_miner_blocks");
        self.ev(&format!("foreign t={t} -> tip #{}", self.tip_idx));
    }

    /// see POp::TwinBranch
    fn twin_branch(&mut self, t: usize, back: u64, seed: u64) {
        let t = t % self.sc.txs.len().max(1);
        let Some(tx) = self.tx(t) else { return };
        let Some(idx) = self.w.txs.iter().position(|m| m.tx.hash() == tx.hash()) else { return };
        // the other miner's copy of the transaction carries other witness bytes
        let variant = tx.as_advanced_builder().set_witnesses(vec![Bytes::from(vec![0xEEu8; 9]).pack()]).build();
        if variant.hash() != tx.hash() || variant.witness_hash() == tx.witness_hash() {
            return;
        }
        self.w.txs[idx].tx = variant;
        let name = format!("pt{t}");
        self.w.planted.insert(name.clone(), idx);
        let chain = self.w.st(self.tip_idx).chain.clone();
        let tipn = chain.len() as u64 - 1;
        let base_n = tipn.saturating_sub(back);
        let wc = self.w.cfg.w_close;
        let mut parent = chain[base_n as usize];
        for j in 0..(tipn - base_n + wc + 2) {
            let plant: Vec<String> = if j == 0 { vec![format!("propose:{name}")] } else if j == wc { vec![format!("commit:{name}")] } else { vec![] };
            let recipe = crate::scen::plain_recipe((seed << 8) ^ j ^ ((self.w.blocks.len() as u64) << 44), &plant);
            let b = self.w.build_child(parent, &recipe);
            let v = self.w.blocks[b].view.clone();
            self.now = self.now.max(v.timestamp());
            self.ft.set_faketime(self.now);
            if let Some(Err(e)) = self.deliver(&v) {
                self.model_block_rejected("twin-branch", &e);
                return;
            }
            if j == wc && v.transactions().iter().skip(1).any(|x| x.hash() == tx.hash() && x.witness_hash() != tx.witness_hash()) {
                self.res.probes.inc("branch_commits_witness_variant_of_detached_tx");
                self.res.nontrivial = true;
            }
            self.take_queued();
            parent = b;
        }
        self.res.faults.inc("competing_branch");
        self.ev(&format!("twin_branch t={t} back={back} -> tip #{}", self.tip_idx));
    }

    /// see POp::ExpectPooled (the pool is at rest)
    fn expect_pooled(&mut self, t: usize) {
        let Some(tx) = self.txs.get(t).cloned().flatten() else { return };
        let d = self.dump();
        let st = self.w.st(self.tip_idx).clone();
        if st.txs.contains_key(&tx.hash()) {
            return;
        }
        let pooled: BTreeSet<Byte32> = d.entries.iter().map(|e| e.tx.hash()).collect();
        if pooled.contains(&tx.hash()) {
            self.res.probes.inc("expected_pooled_tx_is_pooled");
            return;
        }
        // was it ever admitted?
        let admitted = self.results.lock().unwrap().iter().any(|(tt, r)| *tt == t && r.is_ok());
        let inputs_ok = tx.inputs().into_iter().all(|i| {
            let op = i.previous_output();
            st.cells.contains_key(&op) || pooled.contains(&op.tx_hash())
        }) && tx.cell_deps().into_iter().all(|dep| st.cells.contains_key(&dep.out_point()) || pooled.contains(&dep.out_point().tx_hash()));
        let contested = d.entries.iter().any(|e| e.tx.inputs().into_iter().any(|i| tx.inputs().into_iter().any(|j| j.previous_output() == i.previous_output())));
        if admitted && inputs_ok && !contested {
            self.viol("C12", "valid_pooled_tx_lost_in_reorg", format!("tx {} was admitted, is not committed on the main chain, every input and dep of it is live on the chain or created by a pooled transaction, nothing else in the pool spends its inputs, and it is gone from the pool", hex(&tx.hash())));
        } else {
            self.res.probes.inc("expected_pooled_tx_not_assertable");
        }
    }

    /// blocks of another miner that commit nothing (see POp::Quiet)
    fn quiet(&mut self, n: u64, ts_delta: u64, propose: Option<usize>, seed: u64) {
        let mut plant: Vec<String> = Vec::new();
        if let Some(t) = propose {
            let t = t % self.sc.txs.len().max(1);
            if let Some(tx) = self.tx(t) {
                let name = format!("pt{t}");
                if !self.w.planted.contains_key(&name) {
                    let idx = match self.w.txs.iter().position(|m| m.tx.hash() == tx.hash()) {
                        Some(i) => i,
                        None => {
                            // not yet known to the model: register it with the fee the scenario gave it
                            let fee = self.sc.txs[t].fee;
                            self.w.add_tx(tx.clone(), fee)
                        }
                    };
                    self.w.planted.insert(name.clone(), idx);
                }
                plant.push(format!("propose:{name}"));
            }
        }
        let mut parent = self.tip_idx;
        for j in 0..n {
            let recipe = Recipe {
                ts_delta,
                miner: 2,
                seed: (seed << 8) ^ j ^ ((self.w.blocks.len() as u64) << 44),
                plant: if j == 0 { plant.clone() } else { Vec::new() },
                ..Default::default()
            };
            let b = self.w.build_child(parent, &recipe);
            let v = self.w.blocks[b].view.clone();
            self.now = self.now.max(v.timestamp());
            self.ft.set_faketime(self.now);
            if let Some(Err(e)) = self.deliver(&v) {
                self.model_block_rejected("quiet", &e);
                return;
            }
            self.take_queued();
            parent = b;
        }
        self.res.faults.inc("quiet_miner_blocks");
        self.ev(&format!("quiet n={n} -> tip #{}", self.tip_idx));
    }

    /// a sibling of the tip: stored as a side block (equal work, the first seen stays), announced to
    /// the pool as a new uncle candidate
    fn sibling(&mut self, seed: u64) {
        let Some(parent) = self.w.blocks[self.tip_idx].parent else { return };
        let tip_before = self.tip_idx;
        let recipe = crate::scen::plain_recipe((seed << 8) ^ ((self.w.blocks.len() as u64) << 44), &[]);
        let b = self.w.build_child(parent, &recipe);
        if b == tip_before {
            return;
        }
        let v = self.w.blocks[b].view.clone();
        self.now = self.now.max(v.timestamp());
        self.ft.set_faketime(self.now);
        if let Some(Err(e)) = self.deliver(&v) {
            self.model_block_rejected("sibling", &e);
            return;
        }
        self.res.faults.inc("sibling_of_tip_delivered");
        self.ev(&format!("sibling seed={seed} -> tip #{}", self.tip_idx));
    }

    /// a model-built competing branch that overtakes the tip
    fn fork(&mut self, back: u64, len: u64, seed: u64, quiet: bool) {
        let chain = self.w.st(self.tip_idx).chain.clone();
        let tipn = chain.len() as u64 - 1;
        // len == 0: a fast-paced branch that leaves the main chain inside the genesis epoch, so that
        // after the epoch boundary its blocks carry more work each than the main chain's; it is
        // extended only until it outweighs the tip: the reorganisation may go to a SHORTER chain
        let heavy = len == 0;
        let base_n = if heavy { tipn.saturating_sub(back).min(self.w.cfg.genesis_epoch_len.saturating_sub(2)) } else { tipn.saturating_sub(back) };
        let tip_td = self.w.st(self.tip_idx).total_difficulty.clone();
        let mut parent = chain[base_n as usize];
        let need = if heavy { 40 } else { (tipn - base_n) + len };
        let mut r = Rng::new(seed);
        for j in 0..need {
            if heavy && self.w.st(parent).total_difficulty > tip_td {
                if self.w.blocks[parent].number < tipn {
                    self.res.probes.inc("fork_to_shorter_heavier_branch");
                }
                break;
            }
            let recipe = Recipe {
                ts_delta: if heavy { r.range(1, 20) } else { r.range(1_000, 9_000) },
                miner: if r.chance(1, 6) { 250 } else { 3 },
                new_txs: 0,
                propose: if quiet { 0 } else { r.urange(0, 4) },
                commit: if quiet { 0 } else { r.urange(0, 4) },
                uncles: if r.chance(1, 3) { 1 } else { 0 },
                ext_extra: 0,
                seed: (seed << 8) ^ j ^ ((self.w.blocks.len() as u64) << 44),
                mutation: None,
                plant: Vec::new(),
                ts_mode: None,
                fill: None,
            };
            let b = self.w.build_child(parent, &recipe);
            let v = self.w.blocks[b].view.clone();
            self.now = self.now.max(v.timestamp());
            self.ft.set_faketime(self.now);
            let verdict = self.deliver(&v);
            if heavy {
                // a long branch: move the notifications out of the (bounded) channels as the service's
                // loops would, keeping their order; they are executed later like any queued task
                self.take_queued();
            }
            if let Some(Err(e)) = verdict {
                // C04: a block of transactions that meet every rule in their context was refused
                // (e.g. a context reached through a reorganisation)
                if self.sc.prop == "C04" {
                    self.viol("C04", "block_rejects_valid_tx:model_branch", format!("a competing branch built by the model (every transaction valid in its context) was refused: {e}"));
                } else {
                    self.model_block_rejected("fork", &e);
                }
                return;
            }
            parent = b;
        }
        self.res.faults.inc("competing_branch");
        if back > 0 {
            self.res.nontrivial = true;
        }
        if self.last_op_quiesce && !self.w.st(self.tip_idx).chain.contains(chain.last().unwrap()) {
            // the pool was at rest and the old tip left the main chain
            self.readd_watch = Some(chain.clone());
        }
        self.ev(&format!("fork back={back} len={len} -> tip #{}", self.tip_idx));
    }

    // ------------------------------------------------------------------ C04

    fn c04_chain_env(&self, chain: &[usize], number: u64, epoch: (u64, u64, u64)) -> C04Env {
        C04Env {
            number,
            epoch,
            median_ms: self.w.median_time(chain),
            ts_by_number: chain.iter().map(|i| self.w.blocks[*i].view.timestamp()).collect(),
            main_hashes: chain.iter().map(|i| self.w.blocks[*i].view.hash()).collect(),
        }
    }

    fn c04_chain_live(&self, cells: &BTreeMap<OutPoint, MCell>) -> BTreeMap<OutPoint, CInfo> {
        cells.iter().map(|(k, v)| (k.clone(), CInfo { cell: v.clone(), on_chain: true })).collect()
    }

    /// outputs spent on the main chain `chain` (sorted)
    fn c04_dead(&self, chain: &[usize]) -> Vec<OutPoint> {
        let mut v = Vec::new();
        for i in chain {
            for tx in self.w.blocks[*i].view.transactions().iter().skip(1) {
                for inp in tx.inputs().into_iter() {
                    v.push(inp.previous_output());
                }
            }
        }
        v.sort();
        v
    }

    /// Build the probe transaction for this context. None = the context offers nothing to build it from.
    fn c04_build(&mut self, cand: &Cand, env: &C04Env, live: &BTreeMap<OutPoint, CInfo>, chain: &[usize]) -> Option<TransactionView> {
        let code_hash = self.w.code_hash.clone();
        let wcode_hash = self.w.wcode_hash.clone();
        let g0 = self.w.blocks[0].view.transactions()[0].hash();
        let plain: Vec<(&OutPoint, &CInfo)> = live
            .iter()
            .filter(|(op, c)| c.on_chain && c.cell.output.lock().code_hash() == code_hash && c.cell.output.type_().is_none() && !(c.cell.is_cellbase() && c.cell.block_number > 0) && op.tx_hash() != g0 && c.cell.capacity() >= 300 * SHANNONS)
            .collect();
        let maturity = self.w.cfg.maturity;
        let mature = |c: &MCell| ratio_ge(frac(env.epoch), ratio_add(efrac(&c.block_epoch), frac(maturity)));
        let mut cellbases: Vec<(&OutPoint, &CInfo)> = live.iter().filter(|(_, c)| c.on_chain && c.cell.is_cellbase() && c.cell.block_number > 0 && c.cell.capacity() >= 300 * SHANNONS).collect();
        cellbases.sort_by_key(|(_, c)| c.cell.block_number);
        let newest_mature = cellbases.iter().filter(|(_, c)| mature(&c.cell)).last().cloned();
        let oldest_immature = cellbases.iter().find(|(_, c)| !mature(&c.cell)).cloned();
        let dead = self.c04_dead(chain);
        let mut r = Rng::new(cand.salt);
        // (out point, capacity, lock is wlock, info if live)
        let first: (OutPoint, u64, bool, Option<CInfo>) = match &cand.input {
            CandIn::Live(k) => {
                if plain.is_empty() {
                    return None;
                }
                let (op, c) = plain[k % plain.len()];
                (op.clone(), c.cell.capacity(), false, Some(c.clone()))
            }
            CandIn::WLock(k) => {
                let w: Vec<(&OutPoint, &CInfo)> = live.iter().filter(|(_, c)| c.on_chain && c.cell.output.lock().code_hash() == wcode_hash).collect();
                if w.is_empty() {
                    return None;
                }
                let (op, c) = w[k % w.len()];
                (op.clone(), c.cell.capacity(), true, Some(c.clone()))
            }
            CandIn::CellbaseAt(d) => {
                let pick = if *d == 0 { newest_mature } else { oldest_immature };
                let (op, c) = pick?;
                (op.clone(), c.cell.capacity(), false, Some(c.clone()))
            }
            CandIn::Dead(k) => {
                if dead.is_empty() {
                    return None;
                }
                (dead[k % dead.len()].clone(), 1_000 * SHANNONS, false, None)
            }
            CandIn::Unknown => (OutPoint::new(ckb_hash::blake2b_256(cand.salt.to_le_bytes()).pack(), 0), 1_000 * SHANNONS, false, None),
            CandIn::TxOut(t, o) => {
                let t = *t % self.sc.txs.len().max(1);
                let p = self.tx(t)?;
                let o = *o % p.outputs().len().max(1);
                let out = p.outputs().get(o)?;
                let c: Capacity = out.capacity().into();
                let op = OutPoint::new(p.hash(), o as u32);
                let info = live.get(&op).cloned();
                (op, c.as_u64(), false, info)
            }
        };
        let mut total = first.1;
        // since for input 0
        let since: u64 = match cand.since {
            None => 0,
            Some((kind, delta)) => {
                let add = |v: u64| -> u64 { if delta >= 0 { v.saturating_add(delta as u64) } else { v.saturating_sub((-delta) as u64) } };
                let pack_epoch = |(n, i, l): (u64, u64, u64)| -> u64 { (n & 0xff_ffff) | ((i & 0xffff) << 24) | ((l & 0xffff) << 40) };
                let shift_epoch = |(n, i, l): (u64, u64, u64), d: i64| -> (u64, u64, u64) {
                    let l2 = l.max(1);
                    let tot = (n * l2 + i) as i64 + d;
                    if tot < 0 { (0, 0, l2) } else { ((tot as u64) / l2, (tot as u64) % l2, l2) }
                };
                const REL: u64 = 1 << 63;
                const M_EPOCH: u64 = 1 << 61;
                const M_TS: u64 = 1 << 62;
                let cell = first.3.as_ref().filter(|c| c.on_chain).map(|c| c.cell.clone());
                match kind {
                    0 => add(env.number) & 0x00ff_ffff_ffff_ffff,
                    1 => M_EPOCH | pack_epoch(shift_epoch(env.epoch, delta)),
                    2 => M_TS | (add(env.median_ms / 1000) & 0x00ff_ffff_ffff_ffff),
                    3 => {
                        let base = cell.as_ref().map(|c| c.block_number).unwrap_or(0);
                        REL | (add(env.number.saturating_sub(base)) & 0x00ff_ffff_ffff_ffff)
                    }
                    4 => {
                        let c = cell.as_ref().map(|c| (c.block_epoch.number(), c.block_epoch.index(), c.block_epoch.length())).unwrap_or((0, 0, 1));
                        // v with cell_epoch + v == env.epoch exactly when representable, then shifted by delta steps of 1/q
                        let (en, ed) = frac(env.epoch);
                        let (cn, cd) = frac(c);
                        let q = ed * cd;
                        let diff = (en * cd).saturating_sub(cn * ed); // over q
                        if q <= 0xffff {
                            let tot = diff as i128 + delta as i128;
                            let tot = tot.max(0) as u128;
                            REL | M_EPOCH | pack_epoch(((tot / q) as u64, (tot % q) as u64, q as u64))
                        } else {
                            let k = (diff / q) as i64 + delta.max(0);
                            REL | M_EPOCH | pack_epoch((k.max(0) as u64, 0, 1))
                        }
                    }
                    5 => {
                        let base = cell.as_ref().map(|c| env.ts_by_number.get(c.block_number as usize).cloned().unwrap_or(0)).unwrap_or(0);
                        REL | M_TS | (add(env.median_ms.saturating_sub(base) / 1000) & 0x00ff_ffff_ffff_ffff)
                    }
                    6 => M_EPOCH | M_TS | 0,
                    7 => (1u64 << (56 + (cand.salt % 5))) | 1,
                    8 => M_EPOCH | pack_epoch((0, 3 + cand.salt % 4, 3)),
                    9 => REL | M_EPOCH | pack_epoch((0, 3 + cand.salt % 4, 3)),
                    _ => M_EPOCH | pack_epoch((shift_epoch(env.epoch, delta).0, 0, 0)),
                }
            }
        };
        let dgs = self.w.dep_group_cells.clone();
        let group_dep = |op: &OutPoint| packed::CellDep::new_builder().out_point(op.clone()).dep_type(ckb_types::core::DepType::DepGroup).build();
        if cand.dep >= 5 && dgs.len() < 3 {
            return None;
        }
        let mut tb = TransactionBuilder::default();
        tb = match cand.dep {
            5 => tb.cell_dep(group_dep(&dgs[0])),
            // the dep-group cell listed twice: first as a plain cell dep, then as the group that carries the code
            10 => tb.cell_dep(packed::CellDep::new_builder().out_point(dgs[0].clone()).build()).cell_dep(group_dep(&dgs[0])),
            9 => tb.cell_dep(group_dep(&dgs[2])),
            _ => tb.cell_dep(self.w.code_dep.clone()),
        };
        tb = tb.input(CellInput::new(first.0.clone(), since));
        if cand.dup {
            tb = tb.input(CellInput::new(first.0.clone(), 0));
        }
        if let Some(k) = cand.second {
            let others: Vec<&(&OutPoint, &CInfo)> = plain.iter().filter(|(op, _)| **op != first.0).collect();
            if !others.is_empty() {
                let (op, c) = others[k % others.len()];
                total += c.cell.capacity();
                tb = tb.input(CellInput::new((*op).clone(), 0));
            }
        }
        if first.2 {
            let prog = if cand.fail_script { always_failure_bin() } else { always_success_bin() };
            tb = tb.cell_dep(self.w.wcode_dep.clone()).witness(prog.pack());
        } else {
            tb = tb.witness(Bytes::from(cand.salt.to_le_bytes().to_vec()).pack());
        }
        // extra cell dep
        let used = |op: &OutPoint| *op == first.0 || *op == self.w.code_dep.out_point() || *op == self.w.wcode_dep.out_point();
        match cand.dep {
            1 => {
                if let Some((op, _)) = plain.iter().rev().find(|(op, _)| !used(op)) {
                    tb = tb.cell_dep(packed::CellDep::new_builder().out_point((*op).clone()).build());
                }
            }
            2 => {
                if let Some(op) = dead.iter().find(|op| !used(op) && !live.contains_key(*op)) {
                    tb = tb.cell_dep(packed::CellDep::new_builder().out_point(op.clone()).build());
                }
            }
            3 => {
                tb = tb.cell_dep(packed::CellDep::new_builder().out_point(OutPoint::new(ckb_hash::blake2b_256((cand.salt ^ 0xdead).to_le_bytes()).pack(), 1)).build());
            }
            4 => {
                if let Some((op, _)) = oldest_immature {
                    if !used(op) {
                        tb = tb.cell_dep(packed::CellDep::new_builder().out_point(op.clone()).build());
                    }
                }
            }
            6 => {
                // the group is usable exactly as long as the ordinary cell it lists is unspent (and
                // the probe itself does not spend it: a cell may be dep and input of one transaction)
                tb = tb.cell_dep(group_dep(&dgs[1]));
            }
            7 => {
                if let Some((op, _)) = plain.iter().rev().find(|(op, _)| !used(op)) {
                    tb = tb.cell_dep(group_dep(op));
                }
            }
            8 => {
                tb = tb.cell_dep(group_dep(&OutPoint::new(ckb_hash::blake2b_256((cand.salt ^ 0xd69).to_le_bytes()).pack(), 2)));
            }
            _ => {}
        }
        match cand.hdep {
            1 => {
                let h = env.main_hashes[r.idx(env.main_hashes.len())].clone();
                tb = tb.header_dep(h);
            }
            2 => {
                let main: BTreeSet<&Byte32> = env.main_hashes.iter().collect();
                let delivered: BTreeSet<Byte32> = self.node.verdicts.lock().unwrap().iter().map(|(h, _)| h.clone()).collect();
                if let Some(h) = self.w.blocks.iter().map(|b| b.view.hash()).find(|h| !main.contains(h) && delivered.contains(h)) {
                    tb = tb.header_dep(h);
                }
            }
            3 => {
                tb = tb.header_dep(ckb_hash::blake2b_256((cand.salt ^ 0xbeef).to_le_bytes()).pack());
            }
            _ => {}
        }
        // outputs
        let lock = self.w.lock(&[(cand.salt % 5) as u8, 0x04]);
        let o0 = CellOutput::new_builder().lock(lock).build();
        let min = occupied(&o0, 0);
        let fee = if cand.cap == 4 { 0 } else { 5_000 };
        if total < 2 * min + fee + 2 {
            return None;
        }
        let outs: Vec<u64> = match cand.cap {
            1 => vec![total + 1],
            2 => vec![min, total - fee - min],
            3 => vec![min - 1, total - fee - (min - 1)],
            _ => vec![total - fee],
        };
        for cap in outs {
            tb = tb.output(o0.clone().as_builder().capacity(Capacity::shannons(cap)).build()).output_data(Bytes::new());
        }
        Some(tb.build())
    }

    /// C04 oracle, written from the property text and RFC 0017: are all transaction rules met by
    /// `tx` at the position `env` given the live cells `live`?
    fn c04_eval(&self, tx: &TransactionView, env: &C04Env, live: &BTreeMap<OutPoint, CInfo>) -> Result<(), String> {
        let mut seen = BTreeSet::new();
        let mut ins: Vec<(CInfo, u64)> = Vec::new();
        for i in tx.inputs().into_iter() {
            let op = i.previous_output();
            if !seen.insert(op.clone()) {
                return Err("input_listed_twice".into());
            }
            match live.get(&op) {
                Some(c) => ins.push((c.clone(), i.since().into())),
                None => return Err("input_not_live".into()),
            }
        }
        // cell deps resolve to live cells; a dep group stands for the cells its data lists (a vector of
        // out points: 4-byte little-endian count, then 36 bytes each), all of which must be live too
        let mut deps: Vec<CInfo> = Vec::new();
        let mut dep_points: BTreeSet<OutPoint> = BTreeSet::new();
        for d in tx.cell_deps().into_iter() {
            let c = match live.get(&d.out_point()) {
                Some(c) => c.clone(),
                None => return Err("cell_dep_not_live".into()),
            };
            let is_group: u8 = d.dep_type().into();
            if is_group == 1 {
                let data = &c.cell.data;
                let n = if data.len() >= 4 { u32::from_le_bytes(data[0..4].try_into().unwrap()) as usize } else { 0 };
                if n == 0 || data.len() != 4 + 36 * n {
                    return Err("dep_group_malformed".into());
                }
                for k in 0..n {
                    let raw = &data[4 + 36 * k..4 + 36 * (k + 1)];
                    let op = OutPoint::new(Byte32::from_slice(&raw[0..32]).unwrap(), u32::from_le_bytes(raw[32..36].try_into().unwrap()));
                    match live.get(&op) {
                        Some(m) => {
                            deps.push(m.clone());
                            dep_points.insert(op);
                        }
                        None => return Err("dep_group_member_not_live".into()),
                    }
                }
            } else {
                deps.push(c);
                dep_points.insert(d.out_point());
            }
        }
        for h in tx.header_deps().into_iter() {
            if !env.main_hashes.contains(&h) {
                return Err("header_dep_not_on_main_chain".into());
            }
        }
        let maturity = frac(self.w.cfg.maturity);
        for c in ins.iter().map(|(c, _)| c).chain(deps.iter()) {
            if c.on_chain && c.cell.block_number > 0 && c.cell.is_cellbase() && !ratio_ge(frac(env.epoch), ratio_add(efrac(&c.cell.block_epoch), maturity)) {
                return Err("cellbase_immature".into());
            }
        }
        for (c, since) in &ins {
            let s = *since;
            if s == 0 {
                continue;
            }
            let flags = s >> 56;
            if flags & 0x1f != 0 || (flags >> 5) & 3 == 3 {
                return Err("since_malformed".into());
            }
            let relative = flags & 0x80 != 0;
            let metric = (flags >> 5) & 3;
            let value = s & 0x00ff_ffff_ffff_ffff;
            if relative && !c.on_chain {
                return Err("since_relative_to_unconfirmed_cell".into());
            }
            match metric {
                0 => {
                    let need = if relative { c.cell.block_number + value } else { value };
                    if env.number < need {
                        return Err("since_immature_number".into());
                    }
                }
                1 => {
                    let (n, i, l) = (value & 0xff_ffff, (value >> 24) & 0xffff, (value >> 40) & 0xffff);
                    if !((l == 0 && i == 0) || i < l) {
                        return Err("since_malformed_epoch".into());
                    }
                    let v = frac((n, i, l));
                    let need = if relative { ratio_add(efrac(&c.cell.block_epoch), v) } else { v };
                    if !ratio_ge(frac(env.epoch), need) {
                        return Err("since_immature_epoch".into());
                    }
                }
                _ => {
                    let base = if relative { env.ts_by_number.get(c.cell.block_number as usize).cloned().unwrap_or(u64::MAX / 4) } else { 0 };
                    if (env.median_ms as u128) < base as u128 + value as u128 * 1000 {
                        return Err("since_immature_time".into());
                    }
                }
            }
        }
        let in_sum: u128 = ins.iter().map(|(c, _)| c.cell.capacity() as u128).sum();
        let mut out_sum: u128 = 0;
        for (o, d) in tx.outputs_with_data_iter() {
            let cap: Capacity = o.capacity().into();
            out_sum += cap.as_u64() as u128;
            if cap.as_u64() < occupied(&o, d.len()) {
                return Err("output_below_occupied_size".into());
            }
        }
        if in_sum < out_sum {
            return Err("outputs_exceed_inputs".into());
        }
        // scripts: the simulated world has two lock programs; the program must be among the resolved deps
        for (k, (c, _)) in ins.iter().enumerate() {
            let ch = c.cell.output.lock().code_hash();
            if ch == self.w.code_hash {
                if !dep_points.contains(&self.w.code_dep.out_point()) {
                    return Err("script_code_not_among_deps".into());
                }
                continue;
            }
            if ch == self.w.wcode_hash {
                if !dep_points.contains(&self.w.wcode_dep.out_point()) {
                    return Err("script_code_not_among_deps".into());
                }
                // runs the program in witness 0 (the probe has this input at index 0)
                let prog = tx.witnesses().get(0).map(|w| w.raw_data());
                if k == 0 && prog.as_ref() == Some(&always_success_bin()) {
                    continue;
                }
                return Err("lock_script_fails".into());
            }
            return Err("unknown_lock".into());
        }
        // ... within the cycle limit
        let cells: BTreeMap<OutPoint, MCell> = ins.iter().zip(tx.inputs().into_iter()).map(|((c, _), i)| (i.previous_output(), c.cell.clone())).collect();
        if let Some(cy) = self.w.tx_cycles(tx, &cells) {
            if cy > self.w.cfg.max_block_cycles {
                return Err("cycle_limit".into());
            }
        }
        Ok(())
    }

    fn c04_probe_pool(&mut self, cand: &Cand) {
        if self.res.violation.is_some() || self.res.harness_error.is_some() {
            return;
        }
        let d = self.dump();
        let snap = self.node.shared.cloned_snapshot();
        if d.snapshot_tip != snap.tip_hash() {
            return;
        }
        let Some(ti) = self.w.by_hash.get(&snap.tip_hash()).cloned() else { return };
        let st = self.w.st(ti).clone();
        let tipv = self.w.blocks[ti].view.clone();
        let e = tipv.epoch();
        let env = self.c04_chain_env(&st.chain, tipv.number() + 1 + self.w.cfg.w_close, (e.number(), e.index(), e.length()));
        // the pool's view: chain cells, plus pooled outputs, minus pooled inputs
        let mut live = self.c04_chain_live(&st.cells);
        let mut pool_spent: BTreeSet<OutPoint> = BTreeSet::new();
        for en in &d.entries {
            for (oi, (o, dt)) in en.tx.outputs_with_data_iter().enumerate() {
                live.insert(
                    OutPoint::new(en.tx.hash(), oi as u32),
                    CInfo { cell: MCell { output: o, data: dt, block_hash: Byte32::zero(), block_number: 0, block_epoch: e, tx_index: 1 }, on_chain: false },
                );
            }
        }
        for en in &d.entries {
            for i in en.tx.inputs().into_iter() {
                live.remove(&i.previous_output());
                pool_spent.insert(i.previous_output());
            }
        }
        if cand.cap == 4 {
            return; // zero fee: pool policy, not a transaction rule
        }
        let Some(tx) = self.c04_build(cand, &env, &live, &st.chain) else {
            self.res.probes.inc("c04_probe_not_buildable");
            return;
        };
        // a probe that conflicts with a pooled transaction is a replacement request (C11's business)
        if tx.inputs().into_iter().any(|i| pool_spent.contains(&i.previous_output())) {
            self.res.probes.inc("c04_probe_conflicts_with_pool");
            return;
        }
        // ancestor limit is pool policy
        let parents: BTreeSet<Byte32> = tx.inputs().into_iter().map(|i| i.previous_output().tx_hash()).chain(tx.cell_deps().into_iter().map(|c| c.out_point().tx_hash())).collect();
        let anc: usize = d.entries.iter().filter(|en| parents.contains(&en.tx.hash())).map(|en| en.ancestors.0).sum();
        if anc + 1 > d.limits.1 {
            self.res.probes.inc("c04_probe_over_ancestor_limit");
            return;
        }
        let want = self.c04_eval(&tx, &env, &live);
        let got = self.run_value(self.pool.test_accept_tx(tx.clone()));
        self.ev(&format!("probe_pool {:?} want={:?} got={:?}", cand, want, got.as_ref().map(|c| c.cycles).map_err(|e| e.to_string())));
        self.res.probes.inc(if want.is_ok() { "c04_pool_probe_valid" } else { "c04_pool_probe_invalid" });
        if want.is_ok() && (cand.dep == 5 || cand.dep == 6 || cand.dep == 10) {
            self.res.probes.inc("c04_pool_probe_valid_through_dep_group");
        }
        if want.is_ok() && self.w.cfg.max_block_cycles < 1_000_000 && self.w.tx_cycles(&tx, &live.iter().map(|(k, v)| (k.clone(), v.cell.clone())).collect()) == Some(self.w.cfg.max_block_cycles) {
            self.res.probes.inc("c04_pool_probe_valid_exactly_at_cycle_limit");
        }
        if let Err(w) = &want {
            self.res.probes.inc(&format!("c04_pool:{w}"));
        }
        self.res.nontrivial = true;
        match (&want, &got) {
            (Ok(()), Err(e)) => self.viol("C04", &format!("pool_rejects_valid_tx:{}", cand_dim(cand)), format!("tip #{} n={}: probe {:?} meets every rule at the earliest commit position (number {}, epoch {:?}, median {}) but the pool answers {}", ti, tipv.number(), cand, env.number, env.epoch, env.median_ms, e)),
            (Err(w), Ok(_)) => self.viol("C04", &format!("pool_accepts_invalid_tx:{w}"), format!("tip #{} n={}: probe {:?} breaks the rule '{}' at the earliest commit position (number {}, epoch {:?}, median {}) but the pool accepts it", ti, tipv.number(), cand, w, env.number, env.epoch, env.median_ms)),
            _ => {}
        }
    }

    fn c04_probe_block(&mut self, cand: &Cand) {
        if self.res.violation.is_some() || self.res.harness_error.is_some() {
            return;
        }
        let snap = self.node.shared.cloned_snapshot();
        let Some(tip) = self.w.by_hash.get(&snap.tip_hash()).cloned() else { return };
        let wc = self.w.cfg.w_close;
        let mut r = Rng::new(cand.salt ^ 0xb10c);
        let deltas: Vec<u64> = (0..=wc).map(|_| *r.pick(&[1u64, 500, 1_000, 4_000, 9_000, 30_000])).collect();
        let seed0 = cand.salt << 8 ^ ((self.w.blocks.len() as u64) << 40);
        // dry pass: the position the probe will be committed at
        let n0 = self.w.blocks.len();
        let mut p = tip;
        for j in 0..wc {
            p = self.w.build_plain(p, deltas[j as usize], seed0 + j, vec![], vec![]);
        }
        let pst = self.w.st(p).clone();
        let ep = self.w.next_epoch(&pst);
        let number = self.w.blocks[p].number + 1;
        let f = ep.fraction(number);
        let env = self.c04_chain_env(&pst.chain, number, (f.number(), f.index(), f.length()));
        let mut live = self.c04_chain_live(&pst.cells);
        let orig_chain: Vec<usize> = self.w.st(tip).chain.clone();
        // header deps and spent cells are taken from blocks that exist for real
        let mut env_build = self.c04_chain_env(&orig_chain, number, env.epoch);
        env_build.median_ms = env.median_ms;
        env_build.ts_by_number = env.ts_by_number.clone();
        self.w.rollback_to(n0);
        // an unconfirmed parent is committed earlier in the same block when it is valid there itself
        let mut commit: Vec<TransactionView> = Vec::new();
        if let CandIn::TxOut(t, _) = &cand.input {
            let t = *t % self.sc.txs.len().max(1);
            if let Some(ptx) = self.tx(t) {
                if !pst.txs.contains_key(&ptx.hash()) {
                    if self.c04_eval(&ptx, &env, &live).is_ok() {
                        for i in ptx.inputs().into_iter() {
                            live.remove(&i.previous_output());
                        }
                        for (oi, (o, dt)) in ptx.outputs_with_data_iter().enumerate() {
                            live.insert(OutPoint::new(ptx.hash(), oi as u32), CInfo { cell: MCell { output: o, data: dt, block_hash: Byte32::zero(), block_number: number, block_epoch: f, tx_index: 1 }, on_chain: true });
                        }
                        commit.push(ptx);
                    }
                }
            }
        }
        let mut c2 = cand.clone();
        if !commit.is_empty() {
            c2.since = None; // the creating block is the committing block
        }
        let Some(tx) = self.c04_build(&c2, &env_build, &live, &orig_chain) else {
            self.res.probes.inc("c04_probe_not_buildable");
            return;
        };
        let want = self.c04_eval(&tx, &env, &live);
        commit.push(tx.clone());
        if want.is_ok() && commit.len() > 1 {
            // parent and probe share one block: together they must fit the block's cycle limit
            let cells: BTreeMap<OutPoint, MCell> = live.iter().map(|(k, v)| (k.clone(), v.cell.clone())).chain(pst.cells.iter().map(|(k, v)| (k.clone(), v.clone()))).collect();
            let sum: u64 = commit.iter().filter_map(|t| self.w.tx_cycles(t, &cells)).sum();
            if sum > self.w.cfg.max_block_cycles {
                self.res.probes.inc("c04_probe_not_buildable");
                return;
            }
        }
        // real pass
        let ids: Vec<ProposalShortId> = commit.iter().map(|t| t.proposal_short_id()).collect();
        let mut p = tip;
        for j in 0..wc {
            p = self.w.build_plain(p, deltas[j as usize], seed0 + j, if j == 0 { ids.clone() } else { vec![] }, vec![]);
            let v = self.w.blocks[p].view.clone();
            self.now = self.now.max(v.timestamp());
            self.ft.set_faketime(self.now);
            match self.deliver(&v) {
                Some(Ok(_)) => {}
                other => {
                    self.res.harness_error = Some(format!("model-built proposing block rejected: {other:?}"));
                    return;
                }
            }
        }
        let st_p = self.w.st(p).clone();
        let mtxs: Vec<MTx> = commit
            .iter()
            .map(|t| {
                let ins: u64 = t.inputs().into_iter().filter_map(|i| live_or(&st_p.cells, &live, &i.previous_output())).sum();
                let outs: u64 = t.outputs().into_iter().map(|o| { let c: Capacity = o.capacity().into(); c.as_u64() }).sum();
                MTx { tx: t.clone(), fee: ins.saturating_sub(outs), id: t.proposal_short_id(), bad: None }
            })
            .collect();
        let cb = self.w.build_plain(p, deltas[wc as usize], seed0 + wc, vec![], mtxs);
        if want.is_err() {
            self.w.blocks[cb].invalid = Some(format!("c04 probe: {}", want.clone().unwrap_err()));
            self.w.blocks[cb].chain_valid = false;
        }
        let v = self.w.blocks[cb].view.clone();
        if v.number() != env.number || v.epoch() != f || self.w.median_time(&st_p.chain) != env.median_ms {
            self.res.harness_error = Some("c04: dry pass and real pass disagree on the commit position".into());
            return;
        }
        self.now = self.now.max(v.timestamp());
        self.ft.set_faketime(self.now);
        let got = self.deliver(&v);
        self.ev(&format!("probe_block {:?} want={:?} got={:?}", cand, want, got));
        self.res.probes.inc(if want.is_ok() { "c04_block_probe_valid" } else { "c04_block_probe_invalid" });
        if want.is_ok() && (cand.dep == 5 || cand.dep == 6 || cand.dep == 10) {
            self.res.probes.inc("c04_block_probe_valid_through_dep_group");
        }
        if want.is_ok() && self.w.cfg.max_block_cycles < 1_000_000 && self.w.tx_cycles(&tx, &live.iter().map(|(k, v)| (k.clone(), v.cell.clone())).collect()) == Some(self.w.cfg.max_block_cycles) {
            self.res.probes.inc("c04_block_probe_valid_exactly_at_cycle_limit");
        }
        if let Err(w) = &want {
            self.res.probes.inc(&format!("c04_block:{w}"));
        }
        self.res.nontrivial = true;
        match (&want, &got) {
            (Ok(()), Some(Err(e))) => self.viol("C04", &format!("block_rejects_valid_tx:{}", cand_dim(cand)), format!("block n={} committing probe {:?} (position number {}, epoch {:?}, parent median {}) meets every rule but is rejected: {}", v.number(), cand, env.number, env.epoch, env.median_ms, e)),
            (Err(w), Some(Ok(_))) => self.viol("C04", &format!("block_accepts_invalid_tx:{w}"), format!("block n={} committing probe {:?} breaks the rule '{}' (position number {}, epoch {:?}, parent median {}) but is accepted", v.number(), cand, w, env.number, env.epoch, env.median_ms)),
            (_, None) => {
                if self.res.violation.is_none() {
                    self.res.harness_error = Some("no verdict for a probe block".into())
                }
            }
            _ => {}
        }
    }

    fn dump(&mut self) -> PoolDump {
        let f = self.pool.dump();
        self.run_value(f)
    }

    /// C11: bookkeeping mutually consistent (recomputed from the dump)
    fn check_dump(&mut self, why: &str) {
        let d = self.dump();
        if let Err((class, detail)) = check_c11(&d) {
            self.viol("C11", &format!("{class}:{why}"), detail);
        }
        let n = d.entries.len();
        self.res.states.push(fp(&[n as u64, d.counts.0 as u64, d.counts.1 as u64, d.counts.2 as u64, d.verify_queue_len as u64, d.orphan_len as u64, self.tasks.len() as u64]));
    }

    /// C11 + C12 at a quiescent point
    fn check_quiescent(&mut self, why: &str) {
        self.check_dump(why);
        let d = self.dump();
        let snap = self.node.shared.cloned_snapshot();
        if d.snapshot_tip != snap.tip_hash() {
            self.viol("C12", "pool_snapshot_lags_after_quiesce", format!("{why}: pool resolves against {} but tip is {}", hex(&d.snapshot_tip), hex(&snap.tip_hash())));
            return;
        }
        if self.sc.prop == "C14" {
            // pool contents with everything the pool recorded per entry (status, cycles, fee, aggregates)
            let mut rows: Vec<String> = d
                .entries
                .iter()
                .map(|e| format!("{}:{}:{}:{}:{}:{:?}:{:?}", hex(&e.tx.witness_hash()), e.status, e.cycles, e.size, e.fee.as_u64(), (e.ancestors.0, e.ancestors.1, e.ancestors.2, e.ancestors.3.as_u64()), (e.descendants.0, e.descendants.1, e.descendants.2, e.descendants.3.as_u64())))
                .collect();
            rows.sort();
            let k = self.c14.len();
            self.c14.push((format!("pool_at_rest[{k}]:{}entries", rows.len()), simcore::fp_bytes(rows.join("|").as_bytes())));
            self.c14.push((format!("tip_at_rest[{k}]"), simcore::fp_bytes(snap.tip_hash().as_slice())));
        }
        let Some(ti) = self.w.by_hash.get(&snap.tip_hash()).cloned() else { return };
        let st = self.w.st(ti).clone();
        if std::env::var_os("SIM_TRACE").is_some() {
            for e in &d.entries {
                eprintln!("[pool] {} status {} inputs {:?}", &hex(&e.tx.hash())[..10], e.status, e.tx.inputs().into_iter().map(|i| format!("{}:{}", &hex(&i.previous_output().tx_hash())[..10], Into::<u32>::into(i.previous_output().index()))).collect::<Vec<_>>());
            }
        }
        self.ev(&format!("pool at rest: {} entries (pending {}, gap {}, proposed {}) at tip n={}", d.entries.len(), d.counts.0, d.counts.1, d.counts.2, st.chain.len() - 1));
        let pooled: BTreeMap<Byte32, &pv::EntryDump> = d.entries.iter().map(|e| (e.tx.hash(), e)).collect();
        // time-locked transactions in the pool; after a reorganisation to a shorter chain the lock may
        // lie beyond the earliest commit position again
        for e in &d.entries {
            for i in e.tx.inputs().into_iter() {
                let sv: u64 = i.since().into();
                if sv != 0 && sv >> 56 == 0 {
                    self.res.probes.inc("pooled_time_locked_tx_at_rest");
                    let tipn = (st.chain.len() - 1) as u64;
                    if tipn + 1 + self.w.cfg.w_close < sv {
                        self.res.probes.inc("pooled_time_locked_tx_immature_again_on_shorter_chain");
                    }
                }
            }
        }
        let mut spent: BTreeMap<OutPoint, Byte32> = BTreeMap::new();
        for e in &d.entries {
            let h = e.tx.hash();
            if st.txs.contains_key(&h) {
                self.viol("C12", "committed_tx_still_pooled", format!("{why}: tx {} is committed on the main chain and still in the pool", hex(&h)));
            }
            for i in e.tx.inputs().into_iter() {
                let op = i.previous_output();
                let live = st.cells.contains_key(&op) || pooled.get(&op.tx_hash()).map(|p| (Into::<u32>::into(op.index()) as usize) < p.tx.outputs().len()).unwrap_or(false);
                // C12 speaks about the pool after chain changes. A parent that vanished through a purely
                // pool-internal event (RPC removal, RBF, eviction racing with a suspended submission)
                // was never on any chain the model knows: observed, counted, not a C12 violation.
                let chain_related = self.w.blocks.iter().any(|b| b.view.transactions().iter().any(|t| t.hash() == op.tx_hash()))
                    || self.w.blocks.iter().any(|b| b.view.transactions().iter().skip(1).any(|t| t.inputs().into_iter().any(|j| j.previous_output() == op)));
                let chain_related = chain_related && !self.internal_removed.contains(&op.tx_hash());
                if !live && !chain_related {
                    self.res.probes.inc("pool_internal_lost_parent_race_observed");
                }
                if !live && chain_related {
                    self.viol("C12", "pooled_tx_with_dead_input", format!("{why}: tx {} spends {}:{} which is neither live on the chain nor created by a pooled tx", hex(&h), hex(&op.tx_hash()), Into::<u32>::into(op.index())));
                }
                if let Some(other) = spent.insert(op.clone(), h.clone()) {
                    self.viol("C11", "double_spend_in_pool", format!("{why}: {} and {} spend the same cell", hex(&other), hex(&h)));
                }
            }
            for hd in e.tx.header_deps().into_iter() {
                let on_main = self.w.by_hash.get(&hd).map(|i| st.chain.get(self.w.blocks[*i].number as usize) == Some(i)).unwrap_or(false);
                if !on_main {
                    self.viol("C12", "pooled_tx_with_detached_header_dep", format!("{why}: tx {} depends on header {} which is not on the main chain", hex(&h), hex(&hd)));
                } else {
                    self.res.probes.inc("pooled_tx_with_header_dep_checked");
                }
            }
            for dep in e.tx.cell_deps().into_iter() {
                let op = dep.out_point();
                let live = st.cells.contains_key(&op) || pooled.contains_key(&op.tx_hash());
                // same distinction as for inputs: a dep that vanished through a purely pool-internal
                // event (RPC removal / RBF racing with a suspended submission) is observed, not a C12 matter
                let chain_related = self.w.blocks.iter().any(|b| b.view.transactions().iter().any(|t| t.hash() == op.tx_hash()))
                    || self.w.blocks.iter().any(|b| b.view.transactions().iter().skip(1).any(|t| t.inputs().into_iter().any(|j| j.previous_output() == op)));
                let chain_related = chain_related && !self.internal_removed.contains(&op.tx_hash());
                if !live && !chain_related {
                    self.res.probes.inc("pool_internal_lost_parent_race_observed");
                }
                if !live && chain_related {
                    self.viol("C12", "pooled_tx_with_dead_dep", format!("{why}: tx {} depends on a cell that is neither live nor pooled", hex(&h)));
                }
            }
        }
        // stage vs the model's proposal window (mining node)
        let (set, gap) = self.w.proposal_view(&st.chain);
        for e in &d.entries {
            let want = if set.contains(&e.id) { 2 } else if gap.contains(&e.id) { 1 } else { 0 };
            if e.status != want {
                let names = ["pending", "gap", "proposed"];
                self.viol(
                    "C12",
                    &format!("stage_mismatch:{}_should_be_{}", names[e.status as usize], names[want as usize]),
                    format!("{why}: tx {} is {} in the pool but the chain's window says {}", hex(&e.tx.hash()), names[e.status as usize], names[want as usize]),
                );
            }
        }
        if !d.entries.is_empty() {
            self.res.probes.inc("quiescent_check_with_pooled_txs");
        }
        if d.entries.iter().any(|e| e.status == 2) {
            self.res.probes.inc("pool_has_proposed_txs");
        }
        // the chain itself stays consistent
        if let Err((class, detail)) = compare_state(&self.w, &*snap, Some(&*snap)) {
            if self.sc.prop == "C04" && (class.starts_with("cell") || class.starts_with("txinfo") || class.starts_with("index")) {
                // the context transactions are judged in (live cells with their creating block, epoch
                // and index, transaction locations) is not the one the chain's history implies:
                // verdicts that read it depend on how the node arrived here
                self.viol("C04", &format!("chain_context_differs_from_replay:{class}"), detail);
            } else if self.sc.prop == "C14" {
                // cache twins: what the node recorded (fees, cycles, cells) is not what a replay of its own
                // main chain gives — "every recorded fee and cycle count ... identical to that of a node
                // running with all caches empty" (the cold twin agrees with the replay)
                self.viol("C14", &format!("recorded_state_differs_from_replay:{class}"), detail);
            } else {
                self.res.harness_error = Some(format!("chain state diverged from model in pool mode: {class} {detail}"));
            }
        }
        let _ = bigmath::big(0);
        // "transactions that were committed only on the abandoned branch and are still admissible
        // are back in the pool". Decided only where admissibility is unambiguous: unlimited pool,
        // ancestor limit out of reach, every input and dep live ON THE NEW CHAIN (no dependence on
        // other returning transactions), no time locks, no cellbase inputs, fee at least twice the
        // minimum, nobody else (pooled or returning) spends one of its inputs.
        if let Some(old_chain) = self.readd_watch.take() {
            if self.sc.pool.max_tx_pool_size >= 100_000_000 && self.sc.pool.max_ancestors >= 125 && self.res.violation.is_none() {
                let new_chain: BTreeSet<usize> = st.chain.iter().cloned().collect();
                let mut returning: Vec<TransactionView> = Vec::new();
                for bi in old_chain.iter().filter(|b| !new_chain.contains(*b)) {
                    for tx in self.w.blocks[*bi].view.transactions().iter().skip(1) {
                        if !st.txs.contains_key(&tx.hash()) {
                            returning.push(tx.clone());
                        }
                    }
                }
                let mut claims: BTreeMap<OutPoint, usize> = BTreeMap::new();
                for tx in returning.iter() {
                    for i in tx.inputs().into_iter() {
                        *claims.entry(i.previous_output()).or_default() += 1;
                    }
                }
                for e in &d.entries {
                    if !returning.iter().any(|t| t.hash() == e.tx.hash()) {
                        for i in e.tx.inputs().into_iter() {
                            *claims.entry(i.previous_output()).or_default() += 1;
                        }
                    }
                }
                // outputs of returning transactions already found admissible (block order = parents first)
                let mut back: BTreeMap<OutPoint, u64> = BTreeMap::new();
                for tx in returning.iter() {
                    self.res.probes.inc("detached_tx_seen_after_clean_reorg");
                    let mut in_sum = 0u64;
                    let mut ok = true;
                    for i in tx.inputs().into_iter() {
                        let sv: u64 = i.since().into();
                        let single = claims.get(&i.previous_output()) == Some(&1);
                        match (st.cells.get(&i.previous_output()), back.get(&i.previous_output())) {
                            (Some(c), _) if sv == 0 && !(c.is_cellbase() && c.block_number > 0) && single => in_sum += c.capacity(),
                            (None, Some(cap)) if sv == 0 && single => in_sum += *cap,
                            _ => ok = false,
                        }
                    }
                    for dp in tx.cell_deps().into_iter() {
                        let is_group: u8 = dp.dep_type().into();
                        match st.cells.get(&dp.out_point()) {
                            // a cell that a pooled or another returning transaction spends is dead for whoever
                            // arrives later, referrers included (the pool's own rule): not plainly admissible
                            Some(c) if is_group == 0 && !(c.is_cellbase() && c.block_number > 0) && !claims.contains_key(&dp.out_point()) => {}
                            _ => ok = false,
                        }
                    }
                    for h in tx.header_deps().into_iter() {
                        if !self.w.by_hash.get(&h).map(|i| st.chain.get(self.w.blocks[*i].number as usize) == Some(i)).unwrap_or(false) {
                            ok = false;
                        }
                    }
                    let out_sum: u64 = tx.outputs().into_iter().map(|o| { let c: Capacity = o.capacity().into(); c.as_u64() }).sum();
                    let size = tx.data().serialized_size_in_block() as u64;
                    if !ok || in_sum < out_sum || (in_sum - out_sum) < 2 * self.sc.pool.min_fee_rate * size / 1000 + 2 {
                        self.res.probes.inc("detached_tx_admissibility_ambiguous");
                        self.res.probes.inc(if !ok { "detached_tx_ambiguous:input_or_dep_not_plainly_live" } else { "detached_tx_ambiguous:fee_near_minimum" });
                        continue;
                    }
                    self.res.probes.inc("detached_admissible_tx_checked");
                    for (oi, o) in tx.outputs().into_iter().enumerate() {
                        let c: Capacity = o.capacity().into();
                        back.insert(OutPoint::new(tx.hash(), oi as u32), c.as_u64());
                    }
                    if !pooled.contains_key(&tx.hash()) {
                        self.viol("C12", "detached_admissible_tx_not_back_in_pool", format!("{why}: tx {} was committed only on the abandoned branch, all its inputs and deps are live on the new chain, it pays {} for {} bytes and nothing conflicts with it, but it is not in the pool", hex(&tx.hash()), in_sum - out_sum, size));
                    }
                }
            }
        }
    }
}

/// C11 oracle: everything recomputed from the entries.
pub fn check_c11(d: &PoolDump) -> Result<(), (String, String)> {
    let ids: BTreeMap<ProposalShortId, &pv::EntryDump> = d.entries.iter().map(|e| (e.id.clone(), e)).collect();
    let by_hash: BTreeMap<Byte32, &pv::EntryDump> = d.entries.iter().map(|e| (e.tx.hash(), e)).collect();
    // counts and totals
    let cnt = |s: u8| d.entries.iter().filter(|e| e.status == s).count();
    if (cnt(0), cnt(1), cnt(2)) != d.counts {
        return Err(("status_counts".into(), format!("entries {:?} vs counters {:?}", (cnt(0), cnt(1), cnt(2)), d.counts)));
    }
    let tsize: usize = d.entries.iter().map(|e| e.size).sum();
    let tcyc: u64 = d.entries.iter().map(|e| e.cycles).sum();
    if tsize != d.total_tx_size || tcyc != d.total_tx_cycles {
        return Err(("totals".into(), format!("size {} vs {}, cycles {} vs {}", tsize, d.total_tx_size, tcyc, d.total_tx_cycles)));
    }
    // no two entries share an input; input edges == inputs of entries
    let mut ins: BTreeMap<OutPoint, ProposalShortId> = BTreeMap::new();
    for e in &d.entries {
        for i in e.tx.inputs().into_iter() {
            if let Some(o) = ins.insert(i.previous_output(), e.id.clone()) {
                return Err(("double_spend_in_pool".into(), format!("{:?} and {:?}", o, e.id)));
            }
        }
    }
    let edge_ins: BTreeMap<OutPoint, ProposalShortId> = d.inputs.iter().cloned().collect();
    if edge_ins != ins {
        return Err(("input_edges".into(), format!("{} edges vs {} inputs of pooled txs", edge_ins.len(), ins.len())));
    }
    // dep edges: every recorded dep belongs to a pooled tx that has that cell dep; every cell dep of a pooled tx is recorded
    let mut deps: BTreeMap<OutPoint, BTreeSet<ProposalShortId>> = BTreeMap::new();
    for e in &d.entries {
        for c in e.tx.cell_deps().into_iter() {
            deps.entry(c.out_point()).or_default().insert(e.id.clone());
        }
    }
    let edge_deps: BTreeMap<OutPoint, BTreeSet<ProposalShortId>> = d.deps.iter().filter(|(_, v)| !v.is_empty()).map(|(k, v)| (k.clone(), v.iter().cloned().collect())).collect();
    for (op, s) in &deps {
        let got = edge_deps.get(op).cloned().unwrap_or_default();
        if !s.is_subset(&got) {
            return Err(("dep_edges_missing".into(), format!("dep {:?}: recorded {:?} want {:?}", op, got, s)));
        }
    }
    for (op, s) in &edge_deps {
        for id in s {
            if !ids.contains_key(id) {
                return Err(("dep_edges_stale".into(), format!("dep {:?} recorded for {:?} which is not pooled", op, id)));
            }
        }
    }
    // header deps
    for (id, _) in &d.header_deps {
        if !ids.contains_key(id) {
            return Err(("header_dep_edges_stale".into(), format!("{:?}", id)));
        }
    }
    // links == actual spend/dep relations among pooled txs
    let mut parents: BTreeMap<ProposalShortId, BTreeSet<ProposalShortId>> = BTreeMap::new();
    let mut children: BTreeMap<ProposalShortId, BTreeSet<ProposalShortId>> = BTreeMap::new();
    for e in &d.entries {
        parents.entry(e.id.clone()).or_default();
        children.entry(e.id.clone()).or_default();
    }
    for e in &d.entries {
        let mut refs: Vec<Byte32> = e.tx.inputs().into_iter().map(|i| i.previous_output().tx_hash()).collect();
        refs.extend(e.tx.cell_deps().into_iter().map(|c| c.out_point().tx_hash()));
        for h in refs {
            if let Some(p) = by_hash.get(&h) {
                if p.id != e.id {
                    parents.get_mut(&e.id).unwrap().insert(p.id.clone());
                    children.get_mut(&p.id).unwrap().insert(e.id.clone());
                }
            }
        }
    }
    // ordering dependency through a shared cell: a pooled tx that references cell X as a dep is
    // linked as a parent of the pooled tx that consumes X when the consumer arrives second; the
    // pool records it only in that arrival order, so the oracle accepts it as optional
    let mut opt_parents: BTreeMap<ProposalShortId, BTreeSet<ProposalShortId>> = BTreeMap::new();
    let mut opt_children: BTreeMap<ProposalShortId, BTreeSet<ProposalShortId>> = BTreeMap::new();
    for e in &d.entries {
        for i in e.tx.inputs().into_iter() {
            if let Some(users) = deps.get(&i.previous_output()) {
                for u in users {
                    if *u != e.id {
                        opt_parents.entry(e.id.clone()).or_default().insert(u.clone());
                        opt_children.entry(u.clone()).or_default().insert(e.id.clone());
                    }
                }
            }
        }
    }
    let lparents: BTreeMap<ProposalShortId, BTreeSet<ProposalShortId>> = d.links.iter().map(|(id, p, _)| (id.clone(), p.iter().cloned().collect())).collect();
    let lchildren: BTreeMap<ProposalShortId, BTreeSet<ProposalShortId>> = d.links.iter().map(|(id, _, c)| (id.clone(), c.iter().cloned().collect())).collect();
    for id in ids.keys() {
        let lp = lparents.get(id).cloned().unwrap_or_default();
        let lc = lchildren.get(id).cloned().unwrap_or_default();
        let opt_p = opt_parents.get(id).cloned().unwrap_or_default();
        let opt_c = opt_children.get(id).cloned().unwrap_or_default();
        let lp_ok = parents[id].is_subset(&lp) && lp.difference(&parents[id]).all(|x| opt_p.contains(x));
        let lc_ok = children[id].is_subset(&lc) && lc.difference(&children[id]).all(|x| opt_c.contains(x));
        if !lp_ok {
            return Err(("links_parents".into(), format!("{:?}: links {:?} vs actual {:?}", id, lp, parents[id])));
        }
        if !lc_ok {
            return Err(("links_children".into(), format!("{:?}: links {:?} vs actual {:?}", id, lc, children[id])));
        }
    }
    for id in lparents.keys() {
        if !ids.contains_key(id) {
            return Err(("links_stale".into(), format!("{:?} has links but is not pooled", id)));
        }
    }
    // aggregates by closure
    let closure = |start: &ProposalShortId, rel: &BTreeMap<ProposalShortId, BTreeSet<ProposalShortId>>| -> BTreeSet<ProposalShortId> {
        let mut seen = BTreeSet::new();
        let mut stack = vec![start.clone()];
        while let Some(x) = stack.pop() {
            for y in rel.get(&x).into_iter().flatten() {
                if seen.insert(y.clone()) {
                    stack.push(y.clone());
                }
            }
        }
        seen
    };
    for e in &d.entries {
        for (name, rel, got) in [("ancestors", &lparents, e.ancestors), ("descendants", &lchildren, e.descendants)] {
            let set = closure(&e.id, rel);
            let mut c = 1usize;
            let mut sz = e.size;
            let mut cy = e.cycles;
            let mut fee = e.fee.as_u64();
            for x in &set {
                let o = ids[x];
                c += 1;
                sz += o.size;
                cy += o.cycles;
                fee += o.fee.as_u64();
            }
            if (c, sz, cy, fee) != (got.0, got.1, got.2, got.3.as_u64()) {
                return Err((format!("aggregate_{name}"), format!("{:?}: reported (count {}, size {}, cycles {}, fee {}) vs recomputed (count {c}, size {sz}, cycles {cy}, fee {fee})", e.id, got.0, got.1, got.2, got.3.as_u64())));
            }
        }
        if e.ancestors.0 > d.limits.1 {
            return Err(("ancestor_limit".into(), format!("{:?}: {} ancestors > limit {}", e.id, e.ancestors.0, d.limits.1)));
        }
    }
    Ok(())
}
