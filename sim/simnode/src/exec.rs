//! Executes a scenario against the real node, checking the model after every step
//! (cheap monitors) and at quiescent points (full comparison).
use crate::bigmath;
use crate::model::{mul_ratio, World, PROPOSER_RATIO};
use crate::node::Node;
use crate::scen::{build_world, Op, Scenario};
use ckb_db::{Direction, IteratorMode};
use ckb_db_schema::*;
use ckb_shared::Snapshot;
use ckb_store::ChainStore;
use ckb_types::{core::Capacity, packed, prelude::*};
use num_bigint_dig::BigUint;
use serde::{Deserialize, Serialize};
use simcore::*;
use std::collections::{BTreeMap, BTreeSet};
use std::path::Path;
use std::sync::Arc;

#[derive(Clone, Debug, Default, Serialize, Deserialize)]
pub struct SegmentOut {
    /// index of the first op not executed by this segment (== ops.len() when finished)
    pub next: usize,
    pub res: RunResult,
    /// tip at the end of the segment (hex) and its total difficulty (decimal)
    pub tip: String,
    pub td: String,
    pub writes: u64,
    pub finished: bool,
}

/// hits of the ckb-freezer fail points since process start
pub static FRZ_HEAD_HITS: std::sync::atomic::AtomicU64 = std::sync::atomic::AtomicU64::new(0);
pub static FRZ_INDEX_HITS: std::sync::atomic::AtomicU64 = std::sync::atomic::AtomicU64::new(0);
/// armed death at a freezer fail point: (site, absolute hit number, torn, scratch dir)
static FRZ_TARGET: std::sync::Mutex<Option<(String, u64, bool, std::path::PathBuf)>> = std::sync::Mutex::new(None);
/// sizes of the freezer files when the current freeze pass started (all of it fsynced)
static PASS_SIZES: std::sync::Mutex<Vec<(String, u64)>> = std::sync::Mutex::new(Vec::new());

fn frz_hit(site: &'static str) {
    use std::sync::atomic::Ordering::SeqCst;
    let n = if site == "write-head" { FRZ_HEAD_HITS.fetch_add(1, SeqCst) + 1 } else { FRZ_INDEX_HITS.fetch_add(1, SeqCst) + 1 };
    let t = FRZ_TARGET.lock().unwrap().clone();
    if let Some((s, target, torn, dir)) = t {
        if s == site && n == target {
            if torn {
                let sizes = PASS_SIZES.lock().unwrap().clone();
                let _ = std::fs::write(dir.join("torn.json"), serde_json::to_string(&sizes).unwrap());
            }
            unsafe { libc::_exit(86) }
        }
    }
}

fn ancient_sizes(dir: &std::path::Path) -> Vec<(String, u64)> {
    let mut v = Vec::new();
    if let Ok(rd) = std::fs::read_dir(dir.join("ancient")) {
        for e in rd.flatten() {
            if let Ok(m) = e.metadata() {
                if m.is_file() {
                    v.push((e.file_name().to_string_lossy().to_string(), m.len()));
                }
            }
        }
    }
    v.sort();
    v
}

pub struct Exec {
    dir: std::path::PathBuf,
    write_base: u64,
    freeze_windows: Vec<[u64; 6]>,
    /// the operations as executed (skipped deliveries removed, settling drains made explicit):
    /// what the freezer-less twin of a C10 run executes
    eff_ops: Vec<Op>,
    pub sc: Scenario,
    pub w: World,
    pub node: Node,
    pub delivered: Vec<usize>,
    pub delivered_set: BTreeSet<usize>,
    pub res: RunResult,
    log: Fnv,
    il: Fnv,
    now: u64,
    last_tip: (packed::Byte32, BigUint),
    /// C20: the tip at the last tip change the dropped-ids oracle has seen
    view_tip: packed::Byte32,
    /// C10: the largest freezer number any pass of this process was entitled to reach (0 = not yet known)
    frozen_bound: u64,
    snaps: Vec<Arc<Snapshot>>,
    /// what each captured snapshot answered, at capture, to by-hash queries for every scenario block
    snap_answers: Vec<Vec<(String, u64)>>,
    snap_raw: Vec<BTreeSet<usize>>,
    /// a violation that is reported only when the run ends without any other
    deferred: Option<(String, String, String)>,
    /// blocks that a snapshot taken BEFORE their deletion was asked for again AFTER it (the old view
    /// still holds them and hands their parts to the shared read caches)
    reread_after_delete: BTreeSet<usize>,
    ft: ckb_systemtime::FaketimeGuard,
    progress: Option<std::fs::File>,
    max_reorg: u64,
    /// C03, header_path 1: the peers' header check (built on first use)
    peer: Option<crate::peerhdr::PeerHdr>,
}

/// what the relay path did with a block
enum Relayed {
    /// header not accepted: the block goes nowhere
    Refused,
    /// header accepted, the block was not handed to the chain service by the handler
    Direct,
    /// header accepted and the handler has queued the block at the chain service
    Queued,
}

fn hex(b: &packed::Byte32) -> String {
    format!("{:#x}", b)
}

impl Exec {
    pub fn viol(&mut self, prop: &str, class: &str, detail: String) {
        // under crash injection the C01/C02/C20 oracles are C08's oracles ("same tip and state as a
        // run that never crashed", "replay consistency for some prefix")
        let prop = if self.sc.prop == "C08" && ["C01", "C02", "C20"].contains(&prop) { "C08" } else { prop };
        // with the freezer on, store consistency / reopen / proposal-view oracles are C10's
        // ("changes no answer", "a crash ... leaves a state from which the next run continues")
        let prop = if self.sc.prop == "C10" && ["C02", "C08", "C20"].contains(&prop) { "C10" } else { prop };
        if self.res.violation.is_none() && (prop == self.sc.prop || self.sc.prop == "ALL") {
            self.res.violation = Some(Violation {
                property: prop.into(),
                class: class.into(),
                detail,
            });
        }
    }
    fn ev(&mut self, s: &str) {
        self.log.write_str(s);
        if std::env::var_os("SIM_TRACE").is_some() {
            eprintln!("[ev] {s}");
        }
    }

    pub fn open(sc: Scenario, dir: &Path, from: usize) -> Result<Exec, String> {
        let w = build_world(&sc);
        let ft = ckb_systemtime::faketime();
        let mut now = sc.cfg.genesis_ts + 1000;
        // blocks carry timestamps chosen by the generator; the node's clock follows the latest
        // delivered block (clock faults move it explicitly)
        if sc.header_stage {
            // blocks stamped relative to the node's clock do not move it
            now = now.max(w.max_ts);
        } else {
            for b in &w.blocks {
                now = now.max(b.view.timestamp());
            }
        }
        // Clock operations of earlier segments
        for op in sc.ops.iter().take(from) {
            if let Op::Clock { ms } = op {
                now += ms;
            }
        }
        ft.set_faketime(now);
        let store_cfg = if sc.store_caches.is_some() || sc.freezer {
            let mut cfg = ckb_app_config::StoreConfig::default();
            if let Some(c) = sc.store_caches {
                cfg.header_cache_size = c[0];
                cfg.cell_data_cache_size = c[1];
                cfg.block_proposals_cache_size = c[2];
                cfg.block_tx_hashes_cache_size = c[3];
                cfg.block_uncles_cache_size = c[4];
                cfg.block_extensions_cache_size = c[5];
            }
            cfg.freezer_enable = sc.freezer;
            Some(cfg)
        } else {
            None
        };
        ckb_shared::Shared::verif_set_freeze_limit(sc.freeze_limit.unwrap_or(u64::MAX));
        let node = Node::open(dir, w.consensus.clone(), sc.freezer, store_cfg)?;
        let mut delivered = Vec::new();
        let mut delivered_set = BTreeSet::new();
        for op in sc.ops.iter().take(from) {
            let inner: Vec<&Op> = match op {
                Op::FilterBuildRacing { inner, .. } => inner.iter().collect(),
                other => vec![other],
            };
            for op in inner {
                if let Op::Deliver { b } = op {
                    if *b < w.blocks.len() && delivered_set.insert(*b) {
                        delivered.push(*b);
                    }
                }
            }
        }
        let snap = node.shared.snapshot();
        let last_tip = (snap.tip_hash(), bigmath::from_u256(snap.total_difficulty()));
        let view_tip0 = snap.tip_hash();
        let _ = ckb_chain::verif::take_dropped_proposals();
        drop(snap);
        let progress = std::fs::OpenOptions::new()
            .create(true)
            .append(true)
            .open(dir.join("progress.log"))
            .ok();
        if sc.freezer {
            let _ = fail::cfg_callback("write-head", || frz_hit("write-head"));
            let _ = fail::cfg_callback("write-index", || frz_hit("write-index"));
        }
        Ok(Exec {
            dir: dir.to_path_buf(),
            write_base: ckb_db::verif::writes(),
            freeze_windows: Vec::new(),
            eff_ops: Vec::new(),
            res: RunResult {
                seed: sc.seed,
                ..Default::default()
            },
            sc,
            w,
            node,
            delivered,
            delivered_set,
            log: Fnv::new(),
            il: Fnv::new(),
            now,
            last_tip,
            view_tip: view_tip0,
            frozen_bound: 0,
            snaps: Vec::new(),
            snap_answers: Vec::new(),
            snap_raw: Vec::new(),
            deferred: None,
            reread_after_delete: BTreeSet::new(),
            ft,
            progress,
            max_reorg: 0,
            peer: None,
        })
    }

    /// after a (re)start on a non-empty database: what `ckb run` does before accepting blocks,
    /// then a sync peer re-sends what the node was given before.
    pub fn after_restart(&mut self, prev_tip: Option<(String, String)>, crashed: bool) {
        let snap = self.node.shared.snapshot();
        let tip = snap.tip_hash();
        let td = bigmath::from_u256(snap.total_difficulty());
        drop(snap);
        self.ev(&format!("reopened tip={} td={}", hex(&tip), td));
        if let Some((ptip, ptd)) = prev_tip {
            let ptd: BigUint = ptd.parse().unwrap();
            if !crashed && hex(&tip) != ptip {
                self.viol("C08", "restart_tip_changed", format!("clean restart: tip {} became {}", ptip, hex(&tip)));
                self.viol("C20", "restart_tip_changed", format!("clean restart: tip {} became {}", ptip, hex(&tip)));
            }
            if td < ptd {
                self.viol("C08", "restart_lost_work", format!("total difficulty {} -> {} across restart", ptd, td));
            }
        }
        // the store must be a consistent replay for the tip it reports
        self.check_tip_consistency("after_restart");
        self.check_proposals("after_restart");

        if self.sc.freezer {
            self.check_frozen("after_restart");
        }
        let mut drained = 0u64;
        let n = {
            let node = &self.node;
            node.chain.init_load_unverified(|c| {
                while c.step_insert_queued() {
                    drained += 1;
                }
            })
        };
        self.res.probes.add("init_load_unverified_blocks", n as u64);
        let _ = drained;
        self.node.drain();
        self.observe("init_load");
        {
            let shared = self.node.shared.clone();
            let store = shared.store();
            let mut left = None;
            for (k, _v) in store.get_iter(COLUMN_NUMBER_HASH, IteratorMode::Start) {
                let r = packed::NumberHashReader::from_slice_should_be_ok(k.as_ref());
                let h = r.block_hash().to_entity();
                if store.get_block_ext(&h).is_none() {
                    if let Some(hd) = store.get_block_header(&h) {
                        if store.get_block_ext(&hd.parent_hash()).map(|e| e.verified != Some(false)).unwrap_or(false) {
                            left = Some((hd.number(), h));
                        }
                    }
                }
            }
            if let Some((n, h)) = left {
                if std::env::var_os("SIM_TRACE").is_some() {
                    let hd = store.get_block_header(&h).unwrap();
                    eprintln!("[dbg] left {n} {} ext {:?} parent {} parent_ext {:?} tip {}", hex(&h), store.get_block_ext(&h).map(|e| e.verified), hex(&hd.parent_hash()), store.get_block_ext(&hd.parent_hash()).map(|e| e.verified), hex(&self.node.shared.snapshot().tip_hash()));
                }
                self.viol("C08", "stored_unverified_block_not_picked_up", format!("block {n} {} is stored without a verdict although its parent has one", hex(&h)));
            }
        }
        for b in self.delivered.clone() {
            if self.sc.freezer && !self.above_frozen(b) {
                continue;
            }
            let v = self.w.blocks[b].view.clone();
            self.node.deliver(&v);
            self.node.drain();
        }
        self.observe("redelivered");
    }

    fn tick(&mut self) {
        self.ft.set_faketime(self.now);
    }

    /// model index of the last block in the freezer (None when nothing is frozen)
    fn frozen_anchor(&self) -> Option<usize> {
        let store = self.node.shared.store();
        let f = store.freezer()?;
        let n = f.number();
        if n <= 1 {
            return None;
        }
        let raw = f.retrieve(n - 1).ok()??;
        let h = packed::BlockReader::from_compatible_slice(&raw).ok()?.header().to_entity().calc_header_hash();
        self.w.by_hash.get(&h).cloned()
    }

    fn descends_or_on(&self, b: usize, anchor: usize) -> bool {
        let an = self.w.blocks[anchor].number as usize;
        let cb = &self.w.st(b).chain;
        if cb.get(an) == Some(&anchor) {
            return true;
        }
        // b itself one of the frozen main-chain blocks
        self.w.st(anchor).chain.get(self.w.blocks[b].number as usize) == Some(&b)
    }

    fn above_frozen(&self, b: usize) -> bool {
        match self.frozen_anchor() {
            None => true,
            Some(a) => self.descends_or_on(b, a),
        }
    }

    /// would this freeze pass move blocks which a block still in the pipeline does not build on?
    fn inflight_below_threshold(&self) -> bool {
        if self.node.quiescent() {
            return false;
        }
        let snap = self.node.shared.snapshot();
        let Some(ti) = self.w.by_hash.get(&snap.tip_hash()).cloned() else { return false };
        let st = self.w.st(ti);
        let cur = st.epoch.number;
        if cur <= 2 {
            return false;
        }
        let Some(e) = st.chain.iter().rev().find(|i| self.w.blocks[**i].epoch.number == cur - 2).cloned() else { return false };
        let judged: BTreeSet<packed::Byte32> = self.node.verdicts.lock().unwrap().iter().map(|(h, _)| h.clone()).collect();
        self.delivered_set.iter().any(|b| !judged.contains(&self.w.blocks[*b].view.hash()) && !self.descends_or_on(*b, e))
    }

    /// C10: freezing is invisible; only blocks strictly below the two-epoch threshold are moved
    fn check_frozen(&mut self, why: &str) {
        let shared = self.node.shared.clone();
        let store = shared.store();
        let Some(freezer) = store.freezer() else { return };
        let frozen = freezer.number(); // blocks 1..frozen-1 are in the freezer
        let snap = shared.cloned_snapshot();
        let tip = snap.tip_hash();
        let Some(ti) = self.w.by_hash.get(&tip).cloned() else { return };
        if !self.w.blocks[ti].chain_valid {
            return;
        }
        let chain = self.w.st(ti).chain.clone();
        let cur_epoch = self.w.st(ti).epoch.number;
        // threshold: the last block of epoch (current - 2) AT THE TIME OF A PASS; nothing at or above it
        // may be moved. The bound is kept as the largest one any pass has had: a later reorganisation may
        // put the tip into a lower epoch than the one blocks were rightly frozen under. What a previous
        // process froze was checked there.
        if why.starts_with("after_freeze") {
            let cur_bound = if cur_epoch <= 2 {
                1
            } else {
                chain.iter().map(|i| &self.w.blocks[*i]).filter(|b| b.epoch.number == cur_epoch - 2).map(|b| b.number).max().unwrap_or(0)
            };
            self.frozen_bound = self.frozen_bound.max(cur_bound);
            if frozen > self.frozen_bound {
                if cur_epoch <= 2 {
                    self.viol("C10", "frozen_before_third_epoch", format!("{why}: freezer number {frozen} at epoch {cur_epoch} (largest bound of any pass so far {})", self.frozen_bound));
                } else {
                    self.viol("C10", "frozen_beyond_threshold", format!("{why}: freezer number {frozen} but the last block of epoch {} is {cur_bound} (largest bound of any pass so far {})", cur_epoch - 2, self.frozen_bound));
                }
            }
        }
        // every main-chain block and each of its parts reads exactly as built
        for (n, bi) in chain.iter().enumerate() {
            let b = &self.w.blocks[*bi];
            let h = b.view.hash();
            let ok_block = store.get_block(&h).map(|x| x.data().as_slice() == b.view.data().as_slice()).unwrap_or(false);
            let ok_packed = store.get_packed_block(&h).map(|x| x.as_slice() == b.view.data().as_slice()).unwrap_or(false);
            let ok_header = store.get_block_header(&h).map(|x| x.hash() == h).unwrap_or(false);
            let ok_body = {
                let body = store.get_block_body(&h);
                body.len() == b.view.transactions().len() && body.iter().zip(b.view.transactions().iter()).all(|(x, y)| x.data().as_slice() == y.data().as_slice())
            };
            let ok_hashes = store.get_block_txs_hashes(&h) == b.view.tx_hashes().to_vec();
            let ok_cellbase = store.get_cellbase(&h).map(|x| x.hash() == b.view.transactions()[0].hash()).unwrap_or(false);
            let ok_uncles = store.get_block_uncles(&h).map(|x| x.data().as_slice() == b.view.uncles().data().as_slice()).unwrap_or(false);
            let ok_props = store.get_block_proposal_txs_ids(&h).map(|x| x.as_slice() == b.view.data().proposals().as_slice()).unwrap_or(false);
            let ok_ext = store.get_block_extension(&h).map(|x| x.as_slice().to_vec()) == b.view.extension().map(|x| x.as_slice().to_vec());
            let ok_anc = store.get_ancestor(&tip, n as u64).map(|x| x.hash() == h).unwrap_or(false);
            let mut ok_tx = true;
            for (ti2, tx) in b.view.transactions().iter().enumerate() {
                match store.get_transaction_with_info(&tx.hash()) {
                    Some((t, info)) => {
                        if t.data().as_slice() != tx.data().as_slice() || info.block_hash != h || info.index != ti2 || info.block_number != n as u64 {
                            ok_tx = false;
                        }
                    }
                    None => ok_tx = false,
                }
            }
            let parts = [("get_block", ok_block), ("get_packed_block", ok_packed), ("header", ok_header), ("body", ok_body), ("tx_hashes", ok_hashes), ("cellbase", ok_cellbase), ("uncles", ok_uncles), ("proposals", ok_props), ("extension", ok_ext), ("get_ancestor", ok_anc), ("get_transaction", ok_tx)];
            for (name, ok) in parts {
                if !ok {
                    let where_ = if (n as u64) < frozen && n > 0 { "frozen" } else { "unfrozen" };
                    if std::env::var_os("SIM_TRACE").is_some() {
                        let got = store.get_block(&h);
                        eprintln!("[dbg] {name} block {n} expected {} got {:?} raw {:?}", hex(&h), got.as_ref().map(|g| (hex(&g.hash()), g.number(), g.transactions().len(), g.uncles().data().len())), freezer.retrieve(n as u64).map(|r| r.map(|r| r.len())));
                        eprintln!("[dbg] expected txs {} uncles {} ext {:?}", b.view.transactions().len(), b.view.uncles().data().len(), b.view.extension().map(|e| e.len()));
                    }
                    self.viol("C10", &format!("main_chain_block_differs:{name}:{where_}"), format!("{why}: block {n} ({where_}, freezer number {frozen}): {name} does not return the block as built"));
                    return;
                }
            }
        }
        // a block that is not on the main chain may have been removed, but a query for it never
        // answers with another block's data (and never panics)
        {
            let on: BTreeSet<usize> = chain.iter().cloned().collect();
            let side: Vec<usize> = self.delivered_set.iter().cloned().filter(|b| !on.contains(b) && self.w.blocks[*b].number < frozen).collect();
            for b in side {
                let h = self.w.blocks[b].view.hash();
                let want = self.w.blocks[b].view.data();
                let r = std::panic::catch_unwind(std::panic::AssertUnwindSafe(|| {
                    let mut bad: Option<&'static str> = None;
                    if let Some(x) = store.get_block(&h) {
                        if x.data().as_slice() != want.as_slice() {
                            bad = Some("get_block");
                            if std::env::var_os("SIM_TRACE").is_some() {
                                eprintln!("[dbg] side get_block: got hash {} n={} txs {} uncles {} props {} ext {:?}; want txs {} uncles {} props {} ext {:?}", hex(&x.hash()), x.number(), x.transactions().len(), x.uncles().data().len(), x.data().proposals().len(), x.extension().map(|e| e.len()), want.transactions().len(), want.uncles().len(), want.proposals().len(), self.w.blocks[b].view.extension().map(|e| e.len()));
                            }
                        }
                    }
                    if let Some(x) = store.get_packed_block(&h) {
                        if x.as_slice() != want.as_slice() {
                            bad = bad.or(Some("get_packed_block"));
                        }
                    }
                    if let Some(x) = store.get_block_header(&h) {
                        if x.hash() != h {
                            bad = bad.or(Some("header"));
                        }
                    }
                    if let Some(x) = store.get_block_uncles(&h) {
                        if x.data().as_slice() != want.uncles().as_slice() {
                            bad = bad.or(Some("uncles"));
                        }
                    }
                    if let Some(x) = store.get_block_proposal_txs_ids(&h) {
                        if x.as_slice() != want.proposals().as_slice() {
                            bad = bad.or(Some("proposals"));
                        }
                    }
                    if let Some(x) = store.get_cellbase(&h) {
                        if x.data().as_slice() != want.transactions().get(0).unwrap().as_slice() {
                            bad = bad.or(Some("cellbase"));
                        }
                    }
                    let body = store.get_block_body(&h);
                    if !body.is_empty() && (body.len() != want.transactions().len() || body.iter().zip(want.transactions().into_iter()).any(|(x, y)| x.data().as_slice() != y.as_slice())) {
                        bad = bad.or(Some("body"));
                    }
                    bad
                }));
                match r {
                    Ok(None) => {}
                    Ok(Some(name)) => {
                        self.viol("C10", &format!("side_block_query_answers_with_other_data:{name}"), format!("{why}: {name}({}) for side block #{b} at height {} (freezer number {frozen}) returns data of another block", hex(&h), self.w.blocks[b].number));
                        return;
                    }
                    Err(_) => {
                        let msg = crate::LAST_PANIC.lock().unwrap().clone().unwrap_or_default();
                        self.viol("C10", &format!("side_block_query_panics:{}", msg.split(" | ").next().unwrap_or("")), format!("{why}: a query for side block #{b} {} at height {} (freezer number {frozen}) panicked: {msg}", hex(&h), self.w.blocks[b].number));
                        return;
                    }
                }
                self.res.probes.inc("side_block_queries_at_frozen_heights");
            }
        }
        if frozen > 1 {
            self.res.probes.inc("checked_with_frozen_blocks");
            // was there a side block at a frozen height? (only those may disappear)
            let on: BTreeSet<usize> = chain.iter().cloned().collect();
            if self.w.blocks.iter().any(|b| b.number > 0 && b.number < frozen && !on.contains(&b.idx) && self.delivered_set.contains(&b.idx)) {
                self.res.probes.inc("side_block_at_frozen_height");
            }
        }
        if let Err((class, d)) = compare_state(&self.w, &*snap, Some(&*snap)) {
            self.viol("C10", &format!("{class}:{why}"), d);
        }
    }

    /// cold twin of C14: the transaction verification cache is emptied before every verify step
    fn cool_verify_cache(&mut self) {
        if self.sc.verify_cache_cold {
            let cache = self.node.shared.txs_verify_cache();
            let mut g = cache.blocking_write();
            if g.len() > 0 {
                self.res.faults.inc("verify_cache_cleared");
            }
            g.clear();
        }
    }

    /// C14: every verdict and every chain query answer, as (label, fingerprint) pairs; the
    /// orchestrator compares the lists of twin runs that differ only in cache configuration
    fn answers_digest(&mut self) -> serde_json::Value {
        let mut out: Vec<(String, u64)> = Vec::new();
        let shared = self.node.shared.clone();
        let store = shared.store();
        let verdicts = self.node.verdicts.lock().unwrap().clone();
        for (k, (h, v)) in verdicts.iter().enumerate() {
            let idx = self.w.by_hash.get(h).cloned().unwrap_or(usize::MAX);
            let s = match v {
                Ok(b) => format!("ok:{b}"),
                Err(e) => format!("err:{}", e.split('(').next().unwrap_or("")),
            };
            out.push((format!("verdict[{k}]#{idx}"), fp_bytes(s.as_bytes())));
        }
        for b in 0..self.w.blocks.len() {
            if b != 0 && !self.delivered_set.contains(&b) {
                continue;
            }
            let blk = &self.w.blocks[b];
            let h = blk.view.hash();
            // (see `reread_after_delete`: such answers are compared under a label of their own)
            let tag = if self.reread_after_delete.contains(&b) { "_after_stale_reader" } else { "" };
            let q = |name: &str, bytes: Option<Vec<u8>>| -> (String, u64) {
                (format!("{name}{tag}#{b}"), bytes.map(|x| fp_bytes(&x)).unwrap_or(0))
            };
            out.push(q("header", store.get_block_header(&h).map(|x| x.data().as_slice().to_vec())));
            out.push(q("uncles", store.get_block_uncles(&h).map(|x| x.data().as_slice().to_vec())));
            out.push(q("proposals", store.get_block_proposal_txs_ids(&h).map(|x| x.as_slice().to_vec())));
            out.push(q("extension", store.get_block_extension(&h).map(|x| x.as_slice().to_vec())));
            out.push(q("tx_hashes", Some(store.get_block_txs_hashes(&h).iter().flat_map(|x| x.as_slice().to_vec()).collect())));
            out.push(q("body_len", Some((store.get_block_body(&h).len() as u64).to_le_bytes().to_vec())));
            out.push(q("number", store.get_block_number(&h).map(|n| n.to_le_bytes().to_vec())));
            out.push(q("main", Some(vec![store.is_main_chain(&h) as u8])));
            out.push(q("epoch_index", store.get_block_epoch_index(&h).map(|x| x.as_slice().to_vec())));
            // get_block panics on partially deleted blocks: only when the header is there
            if store.get_block_header(&h).is_some() {
                out.push(q("block", store.get_block(&h).map(|x| x.data().as_slice().to_vec())));
            }
            out.push(q(
                "ext",
                store.get_block_ext(&h).map(|e| {
                    let mut v = Vec::new();
                    v.extend(format!("{:?}|{}|{}|", e.verified, e.total_difficulty, e.total_uncles_count).into_bytes());
                    v.extend(format!("{:?}|{:?}|{:?}", e.txs_fees, e.cycles, e.txs_sizes).into_bytes());
                    v
                }),
            ));
            for (ti, tx) in blk.view.transactions().iter().enumerate().take(4) {
                out.push((
                    format!("txinfo#{b}.{ti}"),
                    store
                        .get_transaction_info(&tx.hash())
                        .map(|i| fp_bytes(format!("{:#x}|{}|{}", i.block_hash, i.block_number, i.index).as_bytes()))
                        .unwrap_or(0),
                ));
                for oi in 0..tx.outputs().len().min(2) {
                    let op = packed::OutPoint::new(tx.hash(), oi as u32);
                    // liveness is decided by the cell column; the data of a cell that is not live is not
                    // a chain query (a cached copy may linger: content-addressed, never wrong, unreachable)
                    let live = store.have_cell(&op);
                    out.push((
                        format!("cell#{b}.{ti}.{oi}"),
                        if live { store.get_cell_data(&op).map(|(d, hh)| fp_bytes(&[d.to_vec(), hh.as_slice().to_vec()].concat())).unwrap_or(1) } else { 0 },
                    ));
                }
            }
        }
        let snap = shared.cloned_snapshot();
        out.push(("tip".into(), fp_bytes(snap.tip_hash().as_slice())));
        out.push(("tip_td".into(), fp_bytes(format!("{:#x}", snap.total_difficulty()).as_bytes())));
        serde_json::json!({ "c14": out })
    }

    /// A Crash marker applies to the segment that precedes it (recovery included): arm it.
    pub fn arm_crash(&mut self, from: usize) {
        let ops = &self.sc.ops;
        if let Some(Op::Crash { write, after, site, torn }) = ops[from.min(ops.len())..].iter().find(|o| matches!(o, Op::Crash { .. } | Op::Restart)) {
            if let Some(site) = site {
                use std::sync::atomic::Ordering::SeqCst;
                let base = if site == "write-head" { FRZ_HEAD_HITS.load(SeqCst) } else { FRZ_INDEX_HITS.load(SeqCst) };
                *FRZ_TARGET.lock().unwrap() = Some((site.clone(), base + *write, *torn, self.dir.clone()));
                return;
            }
            let base = ckb_db::verif::writes();
            let target = base + *write;
            let after = *after;
            ckb_db::verif::set_callback(Some(Box::new(move |idx, _kind| {
                if idx == target {
                    if after { ckb_db::verif::Action::DieAfter } else { ckb_db::verif::Action::DieBefore }
                } else {
                    ckb_db::verif::Action::Proceed
                }
            })));
        }
    }

    /// run ops[from..] until a Restart/Crash marker or the end
    pub fn run(&mut self, from: usize) -> SegmentOut {
        let ops = self.sc.ops.clone();
        let mut i = from;
        while i < ops.len() {
            if self.res.violation.is_some() {
                break;
            }
            let op = ops[i].clone();
            match &op {
                Op::Restart | Op::Crash { .. } => {
                    // a Crash marker that was not reached by the write counter degrades to a clean restart
                    break;
                }
                _ => {}
            }
            let r = std::panic::catch_unwind(std::panic::AssertUnwindSafe(|| self.step(&op)));
            if r.is_err() {
                let msg = crate::LAST_PANIC.lock().unwrap().clone().unwrap_or_default();
                let prop = self.sc.prop.clone();
                self.res.faults.inc("node_panic");
                self.viol(&prop, &format!("node_panic:{}", msg.split(" | ").next().unwrap_or("")), format!("the node panicked while executing {:?}: {}", op, msg));
                break;
            }
            self.res.steps += 1;
            if let Some(f) = self.progress.as_mut() {
                use std::io::Write;
                let _ = writeln!(f, "{} {} {}", i, hex(&self.last_tip.0), self.last_tip.1);
            }
            i += 1;
        }
        ckb_db::verif::set_callback(None);
        let finished = i >= ops.len();
        if finished && self.res.violation.is_none() {
            let r = std::panic::catch_unwind(std::panic::AssertUnwindSafe(|| {
                self.node.drain();
                self.pull_relay_verdicts();
                self.observe("final_drain");
                self.final_checks();
            }));
            if r.is_err() {
                let msg = crate::LAST_PANIC.lock().unwrap().clone().unwrap_or_default();
                let prop = self.sc.prop.clone();
                self.res.faults.inc("node_panic");
                self.viol(&prop, &format!("node_panic:{}", msg.split(" | ").next().unwrap_or("")), format!("the node panicked during the final drain: {}", msg));
            }
        }
        if finished {
            if let Some((prop, class, detail)) = self.deferred.take() {
                self.viol(&prop, &class, detail);
            }
        }
        self.res.probes.add("durable_writes", ckb_db::verif::writes());
        self.res.log_hash = self.log.finish();
        self.res.interleaving = self.il.finish();
        self.res.sim_ms = self.now.saturating_sub(self.sc.cfg.genesis_ts);
        SegmentOut {
            next: if finished { ops.len() } else { i + 1 },
            res: self.res.clone(),
            tip: hex(&self.last_tip.0),
            td: self.last_tip.1.to_string(),
            writes: ckb_db::verif::writes(),
            finished,
        }
    }

    fn step(&mut self, op: &Op) {
        if let Some(w) = std::env::var_os("SIM_WATCH_BLOCK") {
            if let Ok(b) = w.to_string_lossy().parse::<usize>() {
                if b < self.w.blocks.len() {
                    let h = self.w.blocks[b].view.hash();
                    let st = self.node.shared.store();
                    let raw = st.get(COLUMN_BLOCK_HEADER, h.as_slice()).is_some();
                    let cached = st.cache().map(|c| c.headers.lock().contains(&h)).unwrap_or(false);
                    eprintln!("[watch] before {:?}: block {b} raw {raw} cached {cached}", op);
                }
            }
        }
        self.pull_relay_verdicts();
        self.eff_ops.push(op.clone());
        match op {
            Op::Deliver { b } => {
                if *b == 0 || *b >= self.w.blocks.len() {
                    return;
                }
                self.il.write_u64(0x10 + *b as u64);
                if self.sc.freezer && !self.above_frozen(*b) {
                    // a branch leaving the main chain below the freezer's height would need a
                    // reorganisation deeper than two epochs, which is outside of what the
                    // freezer is designed for: such deliveries are not part of C10's envelope
                    self.res.probes.inc("delivery_below_frozen_height_skipped");
                    self.eff_ops.pop();
                    return;
                }
                let v = self.w.blocks[*b].view.clone();
                // header_path 2: the relay handler itself has handed the block to the chain service
                let mut relayed = false;
                if self.sc.header_stage {
                    self.tick();
                    let pass = if self.sc.miner_blocks.contains(b) {
                        self.header_stage(*b, &v)
                    } else {
                        match self.sc.header_path {
                            1 => self.peer_header_stage(*b),
                            2 => match self.relay_header_stage(*b, &v) {
                                Relayed::Refused => false,
                                Relayed::Direct => true,
                                Relayed::Queued => {
                                    relayed = true;
                                    true
                                }
                            },
                            _ => self.header_stage(*b, &v),
                        }
                    };
                    if !pass {
                        self.eff_ops.pop();
                        return;
                    }
                }
                if !self.delivered_set.insert(*b) {
                    self.res.faults.inc("duplicate_delivery");
                } else {
                    self.delivered.push(*b);
                    let p = self.w.blocks[*b].parent.unwrap();
                    if p != 0 && !self.delivered_set.contains(&p) {
                        self.res.faults.inc("orphan_first_delivery");
                    }
                }
                self.tick();
                // assume-valid concerns blocks of the trusted (valid) chain only
                if self.delivered.len() <= self.sc.assume_valid_first && self.sc.assume_valid_first > 0 && self.w.blocks[*b].chain_valid {
                    self.res.faults.inc("delivered_with_scripts_disabled");
                    self.node.deliver_with(&v, Some(ckb_verification_traits::Switch::DISABLE_SCRIPT));
                } else if relayed {
                    // stage 1 on the request the relay handler queued (its callback, not ours:
                    // error verdicts come back as bans, see pull_relay_verdicts)
                    while self.node.chain.step_insert_queued() {}
                } else {
                    self.node.deliver(&v);
                }
                self.ev(&format!("deliver {} n={} {}", b, self.w.blocks[*b].number, hex(&v.hash())));
                self.observe("deliver");
            }
            Op::StepPreload => {
                self.il.write_u64(1);
                self.tick();
                if self.node.chain.step_preload() {
                    self.ev("preload");
                    self.observe("preload");
                }
            }
            Op::StepVerify => {
                self.il.write_u64(2);
                self.tick();
                self.cool_verify_cache();
                if self.node.chain.step_verify() {
                    self.ev("verify");
                    self.observe("verify");
                }
            }
            Op::Drain => {
                self.il.write_u64(3);
                self.tick();
                // drain one step at a time so that every tip change is observed
                loop {
                    let mut p = false;
                    if self.node.chain.verify_pending() < 100 && self.node.chain.step_preload() {
                        p = true;
                    }
                    self.cool_verify_cache();
                    if self.node.chain.step_verify() {
                        p = true;
                        self.observe("verify");
                    }
                    if !p {
                        break;
                    }
                }
                self.ev("drain");
                self.quiescent_checks();
            }
            Op::Clean => {
                self.il.write_u64(4);
                self.tick();
                self.clean();
            }
            Op::Snapshot => {
                self.il.write_u64(5);
                let s = self.node.shared.cloned_snapshot();
                let a = self.snapshot_answers(&s);
                // which blocks the snapshot's own view holds (no cache involved)
                let raw: BTreeSet<usize> = (1..self.w.blocks.len()).filter(|b| s.get(COLUMN_BLOCK_HEADER, self.w.blocks[*b].view.hash().as_slice()).is_some()).collect();
                // the published snapshot is replaced only when the tip changes: a block deleted since
                // then (invalid side block, expired orphan) is still in its view, and reading it
                // through the snapshot hands its parts back to the shared caches
                {
                    let live = self.node.shared.store();
                    for b in raw.iter() {
                        if live.get(COLUMN_BLOCK_HEADER, self.w.blocks[*b].view.hash().as_slice()).is_none() {
                            self.reread_after_delete.insert(*b);
                            self.res.probes.inc("deleted_block_read_through_published_snapshot");
                        }
                    }
                }
                self.snaps.push(s);
                self.snap_answers.push(a);
                self.snap_raw.push(raw);
                self.res.faults.inc("snapshot_reader");
            }
            Op::StaleRead => {
                self.il.write_u64(11);
                self.stale_reads("stale_read");
            }
            Op::Clock { ms } => {
                self.il.write_u64(6);
                self.now += ms;
                self.tick();
                self.res.faults.inc("clock_jump");
            }
            Op::Truncate { b } => {
                self.il.write_u64(7);
                self.node.drain();
                self.observe("pre_truncate");
                let h = self.w.blocks[*b].view.hash();
                if self.node.shared.snapshot().is_main_chain(&h) && self.node.shared.snapshot().tip_hash() != h {
                    match self.node.chain.truncate(&h) {
                        Ok(()) => {
                            self.res.faults.inc("truncate");
                            // truncation deletes the detached blocks: they are no longer delivered
                            let chain_now: BTreeSet<usize> = self.w.chain_of(*b).into_iter().collect();
                            let _ = chain_now;
                            let snap = self.node.shared.snapshot();
                            self.last_tip = (snap.tip_hash(), bigmath::from_u256(snap.total_difficulty()));
                            drop(snap);
                            self.ev(&format!("truncate to {}", b));
                            self.check_tip_consistency("truncate");
                            self.check_proposals("truncate");
                        }
                        Err(e) => self.viol("C02", "truncate_failed", e.to_string()),
                    }
                }
            }
            Op::Freeze => {
                self.il.write_u64(8);
                self.tick();
                if self.sc.freezer {
                    if self.inflight_below_threshold() {
                        // blocks still in the pipeline could reorganise the chain below what this
                        // pass is about to freeze (possible only with toy epochs): settle them first
                        self.res.probes.inc("freeze_after_settling_deep_branch");
                        let at = self.eff_ops.len() - 1;
                        self.eff_ops.insert(at, Op::Drain);
                        while self.node.drain() > 0 {}
                        self.observe("drain");
                    } else if !self.node.quiescent() {
                        self.res.probes.inc("freeze_with_blocks_in_flight");
                    }
                    let before = self.node.shared.store().freezer().map(|f| f.number()).unwrap_or(1);
                    if self.frozen_bound == 0 {
                        // what earlier processes froze was checked there
                        self.frozen_bound = before.max(1);
                    }
                    *PASS_SIZES.lock().unwrap() = ancient_sizes(&self.dir);
                    let w0 = {
                        use std::sync::atomic::Ordering::SeqCst;
                        [ckb_db::verif::writes() - self.write_base, FRZ_HEAD_HITS.load(SeqCst), FRZ_INDEX_HITS.load(SeqCst)]
                    };
                    let fr = self.node.shared.verif_freeze();
                    {
                        use std::sync::atomic::Ordering::SeqCst;
                        let w1 = [ckb_db::verif::writes() - self.write_base, FRZ_HEAD_HITS.load(SeqCst), FRZ_INDEX_HITS.load(SeqCst)];
                        self.freeze_windows.push([w0[0], w1[0], w0[1], w1[1], w0[2], w1[2]]);
                    }
                    if let Err(e) = fr {
                        self.viol("C10", "freeze_failed", e.to_string());
                    }
                    self.res.faults.inc("freeze_pass");
                    let after = self.node.shared.store().freezer().map(|f| f.number()).unwrap_or(1);
                    if after > before {
                        self.res.probes.add("blocks_frozen", after - before);
                        self.res.nontrivial = true;
                    }
                    if after < before {
                        self.viol("C10", "frozen_number_decreased", format!("{before} -> {after}"));
                    }
                    if let Some(limit) = self.sc.freeze_limit {
                        // "at most the per-run limit, contiguous from the previous frozen height"
                        if after > before.saturating_add(limit) {
                            self.viol("C10", "pass_froze_more_than_limit", format!("{before} -> {after} with a per-pass limit of {limit}"));
                        }
                        if after == before + limit {
                            self.res.probes.inc("freeze_pass_stopped_at_per_pass_limit");
                        }
                    }
                    let (te, tn, ibd) = {
                        let snap = self.node.shared.snapshot();
                        (snap.epoch_ext().number(), snap.tip_number(), self.node.shared.is_initial_block_download())
                    };
                    if ibd {
                        self.res.probes.inc("freeze_skipped_ibd");
                    } else if te <= 2 {
                        self.res.probes.inc("freeze_idle_before_third_epoch");
                    }
                    self.ev(&format!("freeze {before}->{after} tip {tn} epoch {te} ibd {ibd}"));
                    self.check_frozen("after_freeze");
                }
            }
            Op::FilterBuild => {
                self.il.write_u64(9);
                self.tick();
                ckb_block_filter::filter::BlockFilter::new(self.node.shared.clone()).verif_build_filter_data();
                self.res.faults.inc("filter_builder_pass");
                self.ev("filter_build");
                self.check_filters("after_filter_build");
            }
            Op::FilterBuildRacing { after, inner } => {
                self.il.write_u64(10);
                self.il.write_u64(*after as u64);
                self.tick();
                // the builder (its own thread in a node) has taken its snapshot; before it handles
                // its (after+1)-th block the chain service gets to run `inner`
                let me: *mut Exec = self;
                let inner = inner.clone();
                let after = *after;
                let mut seen = 0usize;
                let mut fired = false;
                ckb_block_filter::filter::verif_set_between_blocks(Some(Box::new(move |_n| {
                    if !fired && seen == after {
                        fired = true;
                        // SAFETY: the pass below runs on a BlockFilter value of its own; nothing else
                        // touches the executor while the callback runs
                        let ex = unsafe { &mut *me };
                        ex.res.faults.inc("chain_moves_during_filter_pass");
                        for op in inner.iter() {
                            if matches!(op, Op::Deliver { .. } | Op::StepPreload | Op::StepVerify | Op::Drain) {
                                ex.step(op);
                            }
                        }
                    }
                    seen += 1;
                })));
                let builder = ckb_block_filter::filter::BlockFilter::new(self.node.shared.clone());
                builder.verif_build_filter_data();
                ckb_block_filter::filter::verif_set_between_blocks(None);
                self.res.faults.inc("filter_builder_pass");
                self.ev("filter_build_racing");
            }
            Op::Restart | Op::Crash { .. } => unreachable!(),
        }
    }

    /// By-hash answers of one snapshot for every block of the scenario, delivered or not.
    fn snapshot_answers(&mut self, s: &Arc<Snapshot>) -> Vec<(String, u64)> {
        let mut out = Vec::new();
        for b in 1..self.w.blocks.len() {
            let h = self.w.blocks[b].view.hash();
            let fpo = |x: Option<Vec<u8>>| x.map(|v| fp_bytes(&v)).unwrap_or(0);
            out.push((format!("header#{b}"), fpo(s.get_block_header(&h).map(|x| x.data().as_slice().to_vec()))));
            // only questions a node's own code asks with a hash of unknown standing (the RPC by-hash
            // lookups: header first, then the whole block); the part accessors are reached with hashes
            // of known blocks only
            if std::env::var_os("SIM_TRACE_SNAP").is_some() {
                use ckb_db_schema::{COLUMN_BLOCK_HEADER, COLUMN_BLOCK_UNCLE, COLUMN_BLOCK_PROPOSAL_IDS, COLUMN_BLOCK_EXT};
                eprintln!("[snap] block {b}: raw header {} uncle {} proposals {} ext {} | via accessor header {}", s.get(COLUMN_BLOCK_HEADER, h.as_slice()).is_some(), s.get(COLUMN_BLOCK_UNCLE, h.as_slice()).is_some(), s.get(COLUMN_BLOCK_PROPOSAL_IDS, h.as_slice()).is_some(), s.get(COLUMN_BLOCK_EXT, h.as_slice()).is_some(), s.get_block_header(&h).is_some());
            }
            if std::env::var_os("SIM_TRACE_SNAP").is_some() {
                if let Some(x) = s.get_block(&h) {
                    eprintln!("[snap] block {b}: get_block -> txs {} uncles {} proposals {} extension {:?}", x.transactions().len(), x.uncles().hashes().len(), x.data().proposals().len(), x.extension().map(|e| e.len()));
                }
            }
            let s2 = Arc::clone(s);
            let h2 = h.clone();
            let r = std::panic::catch_unwind(std::panic::AssertUnwindSafe(move || s2.get_block(&h2).map(|x| x.data().as_slice().to_vec())));
            match r {
                Ok(x) => out.push((format!("block#{b}"), fpo(x))),
                Err(_) => out.push((format!("block#{b}"), u64::MAX)),
            }
        }
        out
    }

    /// C02 / C14: a published snapshot answers every by-hash query the way it did when it was taken,
    /// whatever happened to the chain and to the shared read caches since; it never panics.
    fn stale_reads(&mut self, why: &str) {
        let snaps = self.snaps.clone();
        // which blocks are read again through a snapshot after their deletion: decided for ALL
        // snapshots before any answer is looked at (the labels of the twin comparison must not depend
        // on where this function stops reporting)
        for k in 0..snaps.len() {
            let live = self.node.shared.store();
            for b in self.snap_raw[k].clone() {
                if live.get(COLUMN_BLOCK_HEADER, self.w.blocks[b].view.hash().as_slice()).is_none() {
                    self.reread_after_delete.insert(b);
                }
            }
        }
        for (k, s) in snaps.iter().enumerate() {
            let before = self.snap_answers[k].clone();
            let now = self.snapshot_answers(s);
            self.res.probes.inc("snapshot_asked_again");
            for ((name, a), (_, b)) in before.iter().zip(now.iter()) {
                if *b == u64::MAX {
                    let msg = crate::LAST_PANIC.lock().unwrap().clone().unwrap_or_default();
                    let d = format!("{why}: snapshot #{k} panics when asked for {name} (at capture: {}): {}", if *a == 0 { "None" } else if *a == u64::MAX { "panic too" } else { "Some" }, msg.split(" | ").next().unwrap_or(""));
                    if self.deferred.is_none() {
                        self.deferred = Some(("C14".into(), "snapshot_read_panics".into(), d));
                    }
                    return;
                }
                if a != b {
                    let part = name.split('#').next().unwrap_or("");
                    let d = format!("{why}: snapshot #{k} answered {} for {name} when it was taken and {} now", if *a == 0 { "None/empty".to_string() } else { format!("{a:x}") }, if *b == 0 { "None/empty".to_string() } else { format!("{b:x}") });
                    // reported only if the run has nothing else to report (it must not hide another violation)
                    if self.deferred.is_none() {
                        self.deferred = Some(("C14".into(), format!("snapshot_answer_changed:{part}"), d));
                    }
                    // the other snapshots are still asked: what a twin reads must not depend on what it reports
                    break;
                }
            }
        }
    }

    /// C03: the header stage of the pipeline, as `submit_block` runs it. Returns whether the block
    /// goes on to the chain service. The oracle is the model's reading of the header rules at the
    /// node's current clock.
    fn header_stage(&mut self, b: usize, v: &ckb_types::core::BlockView) -> bool {
        use ckb_verification_traits::Verifier;
        let shared = self.node.shared.clone();
        let snap = shared.snapshot();
        let header = v.header();
        let verdict = ckb_verification::HeaderVerifier::new(snap.as_ref(), shared.consensus()).verify(&header).map_err(|e| e.to_string());
        let parent_stored = snap.get_block_header(&v.parent_hash()).is_some();
        let model = self.w.header_verdict(b, self.now);
        self.il.write_u64(0x4800 + verdict.is_ok() as u64);
        // submit_block checks the header against the PUBLISHED snapshot, which is replaced only when
        // the tip changes: ancestors on a side branch that were stored since then are visible to it
        // only if some other reader happened to put their headers into the shared cache. When one of
        // the ancestors inside the median-time window is in neither, the node computes the median
        // over what is left of the window.
        let window_truncated = {
            let mut cur = self.w.blocks[b].parent;
            let mut missing = false;
            for _ in 0..self.w.cfg.median_count {
                let Some(k) = cur else { break };
                if k != 0 && snap.get_block_header(&self.w.blocks[k].view.hash()).is_none() {
                    missing = true;
                    break;
                }
                cur = self.w.blocks[k].parent;
            }
            missing && parent_stored
        };
        if window_truncated {
            self.res.probes.inc("header_stage_median_window_not_in_published_snapshot");
        }
        match verdict {
            Err(e) => {
                self.ev(&format!("header stage refuses {} : {}", b, e));
                if e.contains("UnknownParent") {
                    if parent_stored {
                        self.viol("C03", "header_stage_unknown_parent_but_stored", format!("block #{b}: {e}"));
                    }
                    self.res.probes.inc("header_stage_parent_not_stored");
                    return false;
                }
                match model {
                    Ok(()) => {
                        let d = format!("block #{b} (n={}) meets every header rule at clock {} but was refused: {e}", self.w.blocks[b].number, self.now);
                        if window_truncated && e.contains("Timestamp") {
                            self.viol("C03", "header_stage_refuses_valid_header:median_over_truncated_window", d);
                            return false;
                        }
                        self.viol("C03", "header_stage_refuses_valid_header", d.clone());
                        if e.contains("Pow") || e.contains("Nonce") {
                            self.viol("C07", "pow_refuses_hash_within_target", d);
                        }
                    }
                    Err(kind) => {
                        self.res.probes.inc(&format!("header_stage_refused:{kind}"));
                        self.res.nontrivial = true;
                    }
                }
                false
            }
            Ok(()) => {
                if let Err(kind) = model {
                    if matches!(kind, "pow" | "number" | "ts_too_old" | "ts_too_new") {
                        let d = format!("block #{b} (n={}) breaks the header rule `{kind}` at clock {} but passed the header check", self.w.blocks[b].number, self.now);
                        if window_truncated && kind == "ts_too_old" {
                            self.viol("C03", "header_stage_accepts_invalid_header:ts_too_old:median_over_truncated_window", d);
                            return false;
                        }
                        self.viol("C03", &format!("header_stage_accepts_invalid_header:{kind}"), d.clone());
                        if kind == "pow" {
                            self.viol("C07", "pow_accepts_hash_above_target", d);
                        }
                        return false;
                    }
                    self.res.probes.inc(&format!("header_stage_left_to_chain:{kind}"));
                }
                if !parent_stored {
                    self.res.probes.inc("header_stage_parent_not_stored");
                    return false;
                }
                match self.w.blocks[b].view.timestamp() {
                    t if t == self.now + crate::model::ALLOWED_FUTURE_MS => self.res.probes.inc("header_at_future_bound_accepted"),
                    _ => {}
                }
                if self.w.blocks[b].parent.map(|p| self.w.blocks[b].view.timestamp() == self.w.median_time(&self.w.chain_of(p)) + 1).unwrap_or(false) {
                    self.res.probes.inc("header_at_median_plus_one_accepted");
                }
                self.res.probes.inc("header_stage_passed");
                true
            }
        }
    }

    /// C03, header_path 1: the header stage of the pipeline as a peer's announcement passes it
    /// (headers-first sync). One `SendHeaders` message from a simulated peer goes through the real
    /// `Synchronizer::received`; the block goes on to the chain service iff the node then holds its
    /// header as valid. The oracle is the model's reading of the header rules at the node's clock,
    /// applied to every header of the message in order (the handler stops at the first header it
    /// does not accept):
    ///  * parent never accepted by the node (never announced, or refused without a mark) -> refused
    ///    as "unknown parent": a probe, not a rule verdict;
    ///  * parent marked invalid (by this path or by the chain service) -> refused;
    ///  * otherwise the verdict of `World::header_verdict`: Ok must be accepted, the header-only
    ///    kinds must be refused, the epoch kinds may also be left to the chain service.
    /// A header the node holds as invalid already (its block failed in the chain service, or an
    /// earlier announcement marked it) carries no demand.
    fn peer_header_stage(&mut self, b: usize) -> bool {
        use crate::peerhdr::{Ann, PeerHdr};
        if self.peer.is_none() {
            let rx = self.node.pack.take_relay_tx_receiver();
            let ss = Arc::new(ckb_sync::SyncShared::new(self.node.shared.clone(), Default::default(), rx));
            self.peer = Some(PeerHdr::new(ss, self.node.chain.controller().clone()));
        }
        // blocks the chain service has judged invalid (it marks them in the shared status map)
        let chain_bad: BTreeSet<usize> = self.node.verdicts.lock().unwrap().iter().filter(|(_, r)| r.is_err()).filter_map(|(h, _)| self.w.by_hash.get(h).cloned()).collect();
        let state_of = |me: &Exec, i: usize| me.peer.as_ref().unwrap().state.get(&i).cloned();
        let parent = self.w.blocks[b].parent.unwrap();
        let mut choice = simcore::Rng::new(self.sc.seed ^ 0x9EE2_0000 ^ ((self.res.steps as u64) << 20) ^ b as u64);
        let batching = match self.sc.peer_style {
            1 => true,
            2 => choice.chance(1, 2),
            _ => false,
        };
        // the message: the header, preceded (when batching) by the ancestors the peer has not sent yet
        let mut msg: Vec<usize> = vec![b];
        if batching {
            let mut p = parent;
            while p != 0 && state_of(self, p).is_none() && !chain_bad.contains(&p) && !self.delivered_set.contains(&p) && msg.len() < 1500 {
                msg.push(p);
                p = self.w.blocks[p].parent.unwrap();
            }
            msg.reverse();
            if msg.len() > 1 {
                self.res.probes.inc("peer_header_batch_announced");
                self.res.probes.add("peer_header_batch_headers", msg.len() as u64);
            }
        } else if self.sc.peer_style != 3 && parent != 0 && state_of(self, parent).is_none() && !chain_bad.contains(&parent) && !self.delivered_set.contains(&parent) {
            // a peer that announces one header per message, parents first: it has nothing to say yet
            self.res.probes.inc("peer_header_parent_unknown");
            self.res.probes.inc("peer_header_held_back");
            self.ev(&format!("peer holds back header {b}: parent {parent} not announced"));
            self.il.write_u64(0x4902);
            return false;
        }
        let headers: Vec<ckb_types::core::HeaderView> = msg.iter().map(|i| self.w.blocks[*i].view.header()).collect();
        for i in &msg {
            if !self.peer.as_mut().unwrap().sent_once.insert(*i) {
                self.res.probes.inc("peer_header_announced_again");
            }
        }
        let out = match self.peer.as_mut().unwrap().announce(&headers) {
            Ok(o) => o,
            Err(e) => {
                self.viol("C03", "peer_header_handler_did_not_complete", e);
                return false;
            }
        };
        if self.node.shared.is_initial_block_download() {
            self.res.probes.inc("peer_header_announced_in_ibd");
        }
        if self.peer.as_ref().unwrap().tasks() != 0 {
            self.res.harness_error = Some("the sync handler handed a task to the network context".into());
        }
        for s in &out.sent {
            self.res.probes.inc(&format!("peer_node_sent:{s}"));
        }
        let banned = !out.banned.is_empty();
        if banned {
            self.res.probes.inc("peer_banned");
        }
        // ---- the oracle, header by header
        let mut live = true; // the handler is still going through the message
        let mut b_accepted = false;
        let mut all_demanded = true; // every header so far had to be accepted
        for (k, i) in msg.iter().enumerate() {
            let i = *i;
            let hash = self.w.blocks[i].view.hash();
            let seen = self.peer.as_ref().unwrap().seen(&hash);
            let before = state_of(self, i);
            let p = self.w.blocks[i].parent.unwrap();
            let n = self.w.blocks[i].number;
            let model = self.w.header_verdict(i, self.now);
            if !live {
                // after the first header that was not accepted nothing is looked at
                if seen.valid && before != Some(Ann::Accepted) {
                    self.viol("C03", "peer_header_path_accepts_header_after_refused_one", format!("message {:?}: header #{i} became valid although an earlier header of the message was not accepted", msg));
                }
                self.res.probes.inc("peer_header_not_reached");
                continue;
            }
            let held_invalid = chain_bad.contains(&i) || matches!(before, Some(Ann::Marked(_)));
            // how the node must see the parent
            let parent_invalid = p != 0 && (chain_bad.contains(&p) || matches!(state_of(self, p), Some(Ann::Marked(_))));
            // (a locally mined block is known from the store as soon as the chain service has taken it)
            // (a locally mined parent counts once its verification has recorded its total difficulty:
            // before that the header of a child cannot be indexed and is simply not taken yet)
            let parent_known = p == 0
                || state_of(self, p) == Some(Ann::Accepted)
                || (self.sc.miner_blocks.contains(&p) && self.delivered_set.contains(&p) && self.node.shared.store().get_block_ext(&self.w.blocks[p].view.hash()).is_some());
            self.il.write_u64(0x4900 + seen.valid as u64);
            let what: String;
            if before == Some(Ann::Accepted) && !held_invalid {
                // known as valid: the handler answers from its status map
                what = "known".into();
                self.res.probes.inc("peer_header_known_valid");
                if !seen.valid {
                    self.viol("C03", "peer_header_path_refuses_valid_header", format!("header #{i} (n={n}) was accepted before, nothing has judged its block invalid, and the node no longer holds it as valid after a second announcement (known {} invalid {})", seen.known, seen.invalid));
                }
            } else if held_invalid {
                all_demanded = false;
                what = "held_invalid".into();
                if seen.valid {
                    // a mark is only ever removed by the chain service when the block verifies
                    self.res.probes.inc("peer_header_invalid_mark_cleared");
                }
                let by_orphan = matches!(before, Some(Ann::Marked("parent_unknown"))) && !chain_bad.contains(&i);
                if by_orphan && parent_known && !parent_invalid && model.is_ok() && !seen.valid {
                    // announced once before its parent, announced properly now: still invalid
                    let d = format!("header #{i} (n={n}) meets every header rule at clock {}, its parent #{p} is held valid, but the node keeps the BLOCK_INVALID mark it set when the header was first announced before its parent (header map has it: {})", self.now, seen.in_header_map);
                    if self.sc.peer_strict_orphan {
                        self.viol("C03", "peer_header_marked_invalid_by_orphan_announcement", d);
                    }
                    self.res.probes.inc("peer_header_unknown_parent_marked_invalid_permanently");
                } else {
                    self.res.probes.inc("peer_header_of_invalid_block_again");
                }
            } else if parent_invalid {
                all_demanded = false;
                what = "invalid_parent".into();
                if seen.valid {
                    self.viol("C03", "peer_header_path_accepts_invalid_header:invalid_parent", format!("header #{i} (n={n}): its parent #{p} is marked invalid, yet the node holds the header as valid"));
                }
                self.res.probes.inc("peer_header_refused:invalid_parent");
                if seen.invalid {
                    self.peer.as_mut().unwrap().state.insert(i, Ann::Marked("invalid_parent"));
                }
            } else if !parent_known {
                all_demanded = false;
                what = "parent_unknown".into();
                if seen.valid {
                    self.viol("C03", "peer_header_path_accepts_invalid_header:parent_unknown", format!("header #{i} (n={n}): the node never accepted its parent #{p}, yet it holds the header as valid"));
                }
                self.res.probes.inc("peer_header_parent_unknown");
                if seen.invalid {
                    // observation: an unknown parent is treated like a broken rule (mark + ban)
                    self.res.probes.inc("peer_header_parent_unknown_marked_invalid");
                    self.peer.as_mut().unwrap().state.insert(i, Ann::Marked("parent_unknown"));
                }
            } else {
                match model {
                    Ok(()) => {
                        what = "ok".into();
                        if !seen.valid {
                            let d = format!("header #{i} (n={n}) meets every header rule at clock {}, its parent #{p} is held valid, but the peers' header path did not accept it (message {:?}, position {k}; known {} invalid {} banned {:?})", self.now, msg, seen.known, seen.invalid, out.banned.first());
                            self.viol("C03", "peer_header_path_refuses_valid_header", d.clone());
                            if out.banned.iter().any(|r| r.contains("Pow") || r.contains("Nonce")) {
                                self.viol("C07", "pow_refuses_hash_within_target", d);
                            }
                        } else {
                            self.res.probes.inc("peer_header_passed");
                            if self.w.blocks[i].view.timestamp() == self.now + crate::model::ALLOWED_FUTURE_MS {
                                self.res.probes.inc("peer_header_at_future_bound_accepted");
                            }
                            if self.w.blocks[i].view.timestamp() == self.w.median_time(&self.w.chain_of(p)) + 1 {
                                self.res.probes.inc("peer_header_at_median_plus_one_accepted");
                            }
                            if self.peer.as_mut().unwrap().too_new.remove(&i) {
                                self.res.probes.inc("peer_header_accepted_after_clock_moved");
                            }
                        }
                    }
                    Err(kind) => {
                        all_demanded = false;
                        what = kind.into();
                        if matches!(kind, "pow" | "number" | "ts_too_old" | "ts_too_new") {
                            if seen.valid {
                                let d = format!("header #{i} (n={n}) breaks the header rule `{kind}` at clock {} but the peers' header path holds it as valid (message {:?}, position {k})", self.now, msg);
                                self.viol("C03", &format!("peer_header_path_accepts_invalid_header:{kind}"), d.clone());
                                if kind == "pow" {
                                    self.viol("C07", "pow_accepts_hash_above_target", d);
                                }
                            } else {
                                self.res.probes.inc(&format!("peer_header_refused:{kind}"));
                                self.res.nontrivial = true;
                                if kind == "ts_too_new" {
                                    self.peer.as_mut().unwrap().too_new.insert(i);
                                }
                                if kind == "ts_too_new" && seen.invalid {
                                    // would keep refusing it once the clock has caught up
                                    self.res.probes.inc("peer_header_too_new_marked_invalid_permanently");
                                }
                                if kind != "ts_too_new" && !seen.invalid {
                                    self.res.probes.inc("peer_header_refused_without_mark");
                                }
                                if kind != "ts_too_new" && !banned {
                                    self.res.probes.inc("peer_header_refused_without_ban");
                                }
                            }
                        } else if seen.valid {
                            self.res.probes.inc(&format!("peer_header_left_to_chain:{kind}"));
                        } else {
                            self.res.probes.inc(&format!("peer_header_refused:{kind}"));
                            self.res.nontrivial = true;
                        }
                        if seen.invalid {
                            self.peer.as_mut().unwrap().state.insert(i, Ann::Marked(kind));
                        }
                    }
                }
            }
            if seen.valid {
                if !held_invalid {
                    self.peer.as_mut().unwrap().state.insert(i, Ann::Accepted);
                }
            } else {
                live = false;
            }
            if i == b {
                b_accepted = seen.valid;
            }
            self.ev(&format!("peer header {i} n={n} [{what}] -> valid {} known {} invalid {}", seen.valid, seen.known, seen.invalid));
        }
        if banned && live && all_demanded {
            self.viol("C03", "peer_header_path_refuses_valid_header", format!("message {:?}: every header is valid and was accepted, yet the peer was banned: {}", msg, out.banned[0]));
        }
        self.ev(&format!("peer {} announced {:?} banned {} replies {:?}", self.peer.as_ref().unwrap().peer, msg, banned, out.sent));
        if banned {
            self.peer.as_mut().unwrap().replace_peer();
        }
        b_accepted
    }

    /// header_path 2: a block the relay handler handed to the chain service carries the handler's
    /// verdict callback; an error verdict reaches the simulator as a ban ("block 0x.. is invalid,
    /// reason: ..") on the relay context. They are filed with the verdicts of the other deliveries.
    fn pull_relay_verdicts(&mut self) {
        let Some(p) = self.peer.as_mut() else { return };
        for r in p.take_relay_bans() {
            // "BlockIsInvalid(401): block Byte32(0x..) is invalid, reason: .."
            let Some(at) = r.find("block ").and_then(|a| r[a..].find("0x").map(|x| a + x + 2)) else {
                self.res.probes.inc("relay_late_ban_other");
                continue;
            };
            let hexs: String = r[at..].chars().take(64).collect();
            let mut raw = [0u8; 32];
            let ok = hexs.len() == 64 && (0..32).all(|i| u8::from_str_radix(&hexs[2 * i..2 * i + 2], 16).map(|x| raw[i] = x).is_ok());
            if !ok {
                self.res.probes.inc("relay_late_ban_other");
                continue;
            }
            let h = packed::Byte32::from_slice(&raw).unwrap();
            let reason = r.split("reason: ").nth(1).unwrap_or(&r).to_string();
            self.res.probes.inc("relay_block_error_verdict");
            self.node.verdicts.lock().unwrap().push((h, Err(reason)));
        }
    }

    /// C03, header_path 2: the header stage as the compact-block relay runs it. The simulated peer
    /// relays the block as a `CompactBlock` (every transaction prefilled) to the real
    /// `Relayer::received`: staleness and size checks, status shortcuts, parent lookup, the header
    /// check over the relay's own median-time view (pending compact blocks first, then header map
    /// and store), reconstruction, `accept_block`. Same oracle as `peer_header_stage` for the header
    /// part, with the demands that are sound for this path:
    ///  * a header that breaks a header-only rule must not be held valid afterwards;
    ///  * the header of a block without any mutation of its own, whose parent the node holds as a
    ///    header, which is neither stale nor known, must be held valid afterwards.
    /// Whatever the relay path does not take (parent never announced, stale, known already, initial
    /// block download) goes through the headers-first path instead, as in a real node.
    fn relay_header_stage(&mut self, b: usize, v: &ckb_types::core::BlockView) -> Relayed {
        use crate::peerhdr::{Ann, PeerHdr};
        let via_sync = |me: &mut Exec, why: &str| -> Relayed {
            me.res.probes.inc(&format!("relay_left_to_sync:{why}"));
            if me.peer_header_stage(b) { Relayed::Direct } else { Relayed::Refused }
        };
        if self.peer.is_none() {
            let rx = self.node.pack.take_relay_tx_receiver();
            let ss = Arc::new(ckb_sync::SyncShared::new(self.node.shared.clone(), Default::default(), rx));
            self.peer = Some(PeerHdr::new(ss, self.node.chain.controller().clone()));
        }
        let chain_bad: BTreeSet<usize> = self.node.verdicts.lock().unwrap().iter().filter(|(_, r)| r.is_err()).filter_map(|(h, _)| self.w.by_hash.get(h).cloned()).collect();
        let p = self.w.blocks[b].parent.unwrap();
        let n = self.w.blocks[b].number;
        let before = self.peer.as_ref().unwrap().state.get(&b).cloned();
        let pstate = self.peer.as_ref().unwrap().state.get(&p).cloned();
        if self.node.shared.is_initial_block_download() {
            return via_sync(self, "ibd");
        }
        if before.is_some() || self.delivered_set.contains(&b) || chain_bad.contains(&b) {
            return via_sync(self, "known");
        }
        if p != 0 && pstate != Some(Ann::Accepted) {
            // (the relay handler would ask for headers and wait for the headers-first path)
            return via_sync(self, "parent_not_accepted");
        }
        let (tip_n, epoch_len) = {
            let snap = self.node.shared.snapshot();
            (snap.tip_number(), snap.epoch_ext().length())
        };
        if tip_n.saturating_sub(epoch_len) > n {
            return via_sync(self, "stale");
        }
        if self.node.chain.insert_pending() != 0 {
            self.res.harness_error = Some("requests queued at the chain service before a relay".into());
        }
        let parent_invalid = p != 0 && chain_bad.contains(&p);
        let out = match self.peer.as_mut().unwrap().relay_compact(v) {
            Ok(o) => o,
            Err(e) => {
                self.viol("C03", "relay_handler_did_not_complete", e);
                return Relayed::Refused;
            }
        };
        self.peer.as_mut().unwrap().sent_once.insert(b);
        let hash = v.hash();
        let seen = self.peer.as_ref().unwrap().seen(&hash);
        let banned = !out.banned.is_empty();
        if banned {
            self.res.probes.inc("relay_peer_banned");
        }
        let queued = self.node.chain.insert_pending();
        let model = self.w.header_verdict(b, self.now);
        let pristine = self.w.blocks[b].invalid.is_none();
        self.il.write_u64(0x4a00 + seen.valid as u64);
        let what: String;
        match model {
            Ok(()) => {
                what = if pristine { "ok".into() } else { "ok_block_mutant".into() };
                if seen.valid {
                    self.res.probes.inc("relay_header_passed");
                    if parent_invalid {
                        // the relay's header part does not look at the parent's invalid mark
                        self.res.probes.inc("relay_header_passed_under_invalid_parent");
                    }
                    if self.w.blocks[b].view.timestamp() == self.now + crate::model::ALLOWED_FUTURE_MS {
                        self.res.probes.inc("relay_header_at_future_bound_accepted");
                    }
                    if self.w.blocks[b].view.timestamp() == self.w.median_time(&self.w.chain_of(p)) + 1 {
                        self.res.probes.inc("relay_header_at_median_plus_one_accepted");
                    }
                } else if pristine {
                    let d = format!("block #{b} (n={n}) carries no mutation, its header meets every header rule at clock {}, its parent #{p} is held as a header (invalid mark: {parent_invalid}), tip {tip_n}, but the compact-block relay did not accept the header (known {} invalid {} banned {:?})", self.now, seen.known, seen.invalid, out.banned.first());
                    self.viol("C03", "relay_path_refuses_valid_header", d);
                } else {
                    // the relay refuses some malformed blocks before or right after the header check
                    self.res.probes.inc(&format!("relay_refused_block_mutant:{}", self.w.blocks[b].invalid.clone().unwrap_or_default()));
                }
            }
            Err(kind) => {
                what = kind.into();
                if matches!(kind, "pow" | "number" | "ts_too_old" | "ts_too_new") {
                    if seen.valid {
                        let d = format!("block #{b} (n={n}): the header breaks the rule `{kind}` at clock {} but the compact-block relay holds it as valid", self.now);
                        self.viol("C03", &format!("relay_path_accepts_invalid_header:{kind}"), d);
                    } else {
                        self.res.probes.inc(&format!("relay_header_refused:{kind}"));
                        self.res.nontrivial = true;
                        if kind == "ts_too_new" {
                            self.peer.as_mut().unwrap().too_new.insert(b);
                            if seen.invalid {
                                self.res.probes.inc("relay_header_too_new_marked_invalid_permanently");
                            }
                        } else {
                            if !seen.invalid {
                                self.res.probes.inc("relay_header_refused_without_mark");
                            }
                            if !banned {
                                self.res.probes.inc("relay_header_refused_without_ban");
                            }
                        }
                    }
                } else if seen.valid {
                    self.res.probes.inc(&format!("relay_header_left_to_chain:{kind}"));
                } else {
                    self.res.probes.inc(&format!("relay_header_refused:{kind}"));
                    self.res.nontrivial = true;
                }
                if seen.invalid {
                    self.peer.as_mut().unwrap().state.insert(b, Ann::Marked(kind));
                }
            }
        }
        if !seen.valid && seen.invalid && self.peer.as_ref().unwrap().state.get(&b).is_none() {
            self.peer.as_mut().unwrap().state.insert(b, Ann::Marked("relay"));
        }
        self.ev(&format!("relay block {b} n={n} [{what}] -> valid {} known {} invalid {} banned {} queued {}", seen.valid, seen.known, seen.invalid, banned, queued));
        if banned {
            self.peer.as_mut().unwrap().replace_peer();
        }
        if !seen.valid {
            if queued != 0 {
                self.viol("C03", "relay_path_hands_over_block_without_valid_header", format!("block #{b} (n={n}) was handed to the chain service although its header is not held valid"));
            }
            return Relayed::Refused;
        }
        self.peer.as_mut().unwrap().state.insert(b, Ann::Accepted);
        if self.peer.as_mut().unwrap().too_new.remove(&b) {
            self.res.probes.inc("relay_header_accepted_after_clock_moved");
        }
        if queued != 0 {
            self.res.probes.inc("relay_block_reconstructed_and_handed_over");
            Relayed::Queued
        } else {
            // uncles the node does not have (it asks the peer for them), an uncle it holds invalid,
            // a malformed compact block: the header is in, the block comes by the sync path
            self.res.probes.inc("relay_block_not_handed_over");
            Relayed::Direct
        }
    }

    /// C19 (filters): after a builder pass every main-chain block has a filter that contains exactly
    /// the lock/type script hashes of its outputs and spent inputs, and the filter hashes chain.
    fn check_filters(&mut self, why: &str) {
        use golomb_coded_set::{GCSFilterReader, GCSFilterWriter, SipHasher24Builder, M, P};
        let shared = self.node.shared.clone();
        let store = shared.store();
        let snap = shared.cloned_snapshot();
        let Some(ti) = self.w.by_hash.get(&snap.tip_hash()).cloned() else { return };
        if !self.w.blocks[ti].chain_valid {
            return;
        }
        let chain = self.w.st(ti).chain.clone();
        match store.get_latest_built_filter_data_block_hash() {
            Some(h) if h == snap.tip_hash() => {}
            other => {
                // the tip may have moved only if stages ran inside the pass: they do not
                self.viol("C19", "filter_latest_mark_not_tip", format!("{why}: latest built filter mark is {:?}, tip is {}", other.map(|h| hex(&h)), hex(&snap.tip_hash())));
                return;
            }
        }
        let mut parent_hash = packed::Byte32::zero();
        for (n, bi) in chain.iter().enumerate() {
            let b = &self.w.blocks[*bi];
            let h = b.view.hash();
            let Some(data) = store.get_block_filter(&h) else {
                self.viol("C19", "filter_missing", format!("{why}: main-chain block {n} has no filter after a builder pass"));
                return;
            };
            // expected elements, derived from the model's chain (inputs resolved through the model's tx index)
            let mut elems: Vec<Vec<u8>> = Vec::new();
            let st_tx = &self.w.st(ti).txs;
            for tx in b.view.transactions().iter() {
                if !tx.is_cellbase() {
                    for op in tx.input_pts_iter() {
                        if let Some((cb, cti)) = st_tx.get(&op.tx_hash()) {
                            let ctx = &self.w.blocks[*cb].view.transactions()[*cti];
                            if let Some(o) = ctx.outputs().get(Into::<u32>::into(op.index()) as usize) {
                                elems.push(o.calc_lock_hash().as_slice().to_vec());
                                if let Some(t) = o.type_().to_opt() {
                                    elems.push(t.calc_script_hash().as_slice().to_vec());
                                }
                            }
                        }
                    }
                }
                for o in tx.outputs().into_iter() {
                    elems.push(o.calc_lock_hash().as_slice().to_vec());
                    if let Some(t) = o.type_().to_opt() {
                        elems.push(t.calc_script_hash().as_slice().to_vec());
                    }
                }
            }
            let raw = data.raw_data();
            let reader = GCSFilterReader::new(SipHasher24Builder::new(0, 0), M, P);
            for e in &elems {
                let mut cur = std::io::Cursor::new(raw.to_vec());
                let hit = reader.match_any(&mut cur, &mut std::iter::once(e.as_slice())).unwrap_or(false);
                if !hit {
                    self.viol("C19", "filter_misses_script", format!("{why}: the filter of main-chain block {n} does not match a script of its outputs / spent inputs"));
                    return;
                }
            }
            // exact content: the same set encoded again
            let mut out = std::io::Cursor::new(Vec::new());
            {
                let mut wtr = GCSFilterWriter::new(&mut out, SipHasher24Builder::new(0, 0), M, P);
                for e in &elems {
                    wtr.add_element(e);
                }
                let _ = wtr.finish();
            }
            if out.into_inner() != raw.to_vec() {
                self.viol("C19", "filter_content_differs", format!("{why}: the filter of main-chain block {n} is not the encoding of exactly its scripts"));
                return;
            }
            // hash chain
            let want = ckb_hash::blake2b_256([parent_hash.as_slice(), &ckb_hash::blake2b_256(raw.as_ref())[..]].concat());
            match store.get_block_filter_hash(&h) {
                Some(fh) if fh.as_slice() == &want[..] => parent_hash = fh,
                other => {
                    self.viol("C19", "filter_hash_chain_broken", format!("{why}: filter hash of main-chain block {n} is {:?}, expected blake2b(parent filter hash || blake2b(filter))", other.map(|x| hex(&x))));
                    return;
                }
            }
        }
        self.res.probes.inc("filter_chain_checked");
        self.res.probes.add("filters_checked", chain.len() as u64);
    }

    /// C19 (proofs): what the light-client server sends for "last block L, prove blocks N1..Nk"
    /// (parent chain root + proof items from the stored MMR) verifies against the model's root and
    /// leaves, and against nothing else.
    fn check_proofs(&mut self, why: &str) {
        use ckb_merkle_mountain_range::{leaf_index_to_mmr_size, leaf_index_to_pos};
        use ckb_types::utilities::merkle_mountain_range::MMRProof;
        let shared = self.node.shared.clone();
        let snap = shared.cloned_snapshot();
        let Some(ti) = self.w.by_hash.get(&snap.tip_hash()).cloned() else { return };
        if !self.w.blocks[ti].chain_valid {
            return;
        }
        let chain = self.w.st(ti).chain.clone();
        let tipn = chain.len() as u64 - 1;
        if tipn < 2 {
            return;
        }
        let mut r = simcore::Rng::new(fp_bytes(snap.tip_hash().as_slice()) ^ self.res.steps);
        for _ in 0..3 {
            let last = r.range(1, tipn);
            let mmr = snap.chain_root_mmr(last - 1);
            let root = match mmr.get_root() {
                Ok(x) => x,
                Err(e) => {
                    self.viol("C19", "proof_root_error", format!("{why}: {e}"));
                    return;
                }
            };
            let want_root = self.w.chain_root(&chain, last - 1);
            if root.as_slice() != want_root.as_slice() {
                self.viol("C19", "proof_parent_chain_root_differs", format!("{why}: parent chain root served for last block {last} differs from the naive MMR"));
                return;
            }
            let k = r.urange(1, 6.min(last as usize));
            let mut nums: BTreeSet<u64> = BTreeSet::new();
            for _ in 0..k {
                nums.insert(r.range(0, last - 1));
            }
            let pos: Vec<u64> = nums.iter().map(|n| leaf_index_to_pos(*n)).collect();
            let items = match mmr.gen_proof(pos) {
                Ok(p) => p.proof_items().to_owned(),
                Err(e) => {
                    self.viol("C19", "proof_generation_failed", format!("{why}: last {last} blocks {:?}: {e}", nums));
                    return;
                }
            };
            // the client rebuilds the proof from the items and the last block's number
            let leaves: Vec<(u64, packed::HeaderDigest)> = nums.iter().map(|n| (leaf_index_to_pos(*n), crate::model::leaf_digest(&self.w.blocks[chain[*n as usize]].view.header()))).collect();
            let proof = MMRProof::new(leaf_index_to_mmr_size(last - 1), items.clone());
            if !proof.verify(want_root.clone(), leaves.clone()).unwrap_or(false) {
                self.viol("C19", "proof_does_not_verify", format!("{why}: proof for blocks {:?} under last block {last} does not verify against the committed root", nums));
                return;
            }
            // ... and against no other chain: a different header at one position, a different root
            let victim = *nums.iter().next().unwrap();
            let other = self.w.blocks.iter().find(|b| b.number == victim && b.idx != chain[victim as usize]).map(|b| b.view.header()).unwrap_or_else(|| self.w.blocks[chain[(victim as usize + 1).min(chain.len() - 1)]].view.header());
            if other.hash() != self.w.blocks[chain[victim as usize]].view.hash() {
                let mut forged = leaves.clone();
                forged[0].1 = crate::model::leaf_digest(&other);
                let proof = MMRProof::new(leaf_index_to_mmr_size(last - 1), items.clone());
                if proof.verify(want_root.clone(), forged).unwrap_or(false) {
                    self.viol("C19", "proof_verifies_foreign_header", format!("{why}: proof under last block {last} also verifies a header that is not on the main chain at height {victim}"));
                    return;
                }
            }
            if last >= 2 {
                let other_root = self.w.chain_root(&chain, last - 2);
                let proof = MMRProof::new(leaf_index_to_mmr_size(last - 1), items.clone());
                if proof.verify(other_root, leaves.clone()).unwrap_or(false) {
                    self.viol("C19", "proof_verifies_against_other_root", format!("{why}: proof under last block {last} verifies against the root of a different chain prefix"));
                    return;
                }
            }
            self.res.probes.inc("membership_proofs_checked");
        }
        // the REAL light-client protocol handler, driven with seeded requests (lc.rs)
        if let Some((class, d)) = crate::lc::check_light_client(&shared, &self.w, r.next_u64(), &mut self.res.probes) {
            self.viol("C19", &class, format!("{why}: {d}"));
        }
    }

    fn clean(&mut self) {
        let tip_epoch = self.node.shared.store().get_tip_header().unwrap().epoch().number();
        let before = self.node.chain.orphan_pool().len();
        self.node.chain.clean_expired_orphans();
        let after = self.node.chain.orphan_pool().len();
        self.res.faults.inc("orphan_cleaner_tick");
        if after < before {
            self.res.probes.add("orphans_expired", (before - after) as u64);
        }
        // which delivered ORPHANS (some ancestor never delivered) are gone from the store now?
        let store = self.node.shared.store();
        let mut dropped = Vec::new();
        for b in self.delivered.clone() {
            let blk = &self.w.blocks[b];
            let mut connected = true;
            let mut p = blk.parent;
            while let Some(k) = p {
                if k != 0 && !self.delivered_set.contains(&k) {
                    connected = false;
                    break;
                }
                p = self.w.blocks[k].parent;
            }
            if connected {
                continue;
            }
            let h = blk.view.hash();
            let stored = store.get_block_header(&h).is_some();
            if std::env::var_os("SIM_TRACE_SNAP").is_some() {
                eprintln!("[clean] block {b}: accessor header {} raw {}", stored, store.get(COLUMN_BLOCK_HEADER, h.as_slice()).is_some());
            }
            if !stored && !self.node.chain.is_pending_verify(&h) {
                let invalid_known = self.node.shared.get_block_status(&h) == ckb_shared::block_status::BlockStatus::BLOCK_INVALID;
                if !invalid_known {
                    dropped.push(b);
                }
            }
        }
        for b in dropped {
            let blk = &self.w.blocks[b];
            // expiry rule: the subtree hangs under a missing ancestor and is older than 6 epochs
            if blk.epoch.number + ckb_chain::verif::EXPIRED_EPOCH >= tip_epoch {
                // walk up to the subtree root hanging under the missing ancestor
                let mut r = b;
                while let Some(p) = self.w.blocks[r].parent {
                    if self.delivered_set.contains(&p) && p != 0 {
                        r = p;
                    } else {
                        break;
                    }
                }
                if self.w.blocks[r].epoch.number + ckb_chain::verif::EXPIRED_EPOCH >= tip_epoch {
                    self.viol(
                        "C01",
                        "orphan_dropped_before_horizon",
                        format!("block #{b} epoch {} dropped at tip epoch {}", blk.epoch.number, tip_epoch),
                    );
                }
            }
            self.delivered_set.remove(&b);
            self.delivered.retain(|x| *x != b);
        }
        self.ev(&format!("clean {before}->{after}"));
    }

    /// cheap monitors after every step
    /// C20: "the ids reported as dropped are exactly those that left the window": at every tip
    /// change the chain service tells the pool which ids left the committable set; that report must
    /// equal (committable set at the old tip) minus (committable set at the new tip), both derived
    /// from the model's chains.
    fn check_dropped_proposals(&mut self, why: &str) {
        for (new_tip, ids) in ckb_chain::verif::take_dropped_proposals() {
            let old_tip = std::mem::replace(&mut self.view_tip, new_tip.clone());
            let (Some(a), Some(b)) = (self.w.by_hash.get(&old_tip).cloned(), self.w.by_hash.get(&new_tip).cloned()) else { continue };
            if !self.w.blocks[a].chain_valid || !self.w.blocks[b].chain_valid {
                continue;
            }
            let (old_set, _) = self.w.proposal_view(&self.w.chain_of(a));
            let (new_set, _) = self.w.proposal_view(&self.w.chain_of(b));
            let want: BTreeSet<_> = old_set.difference(&new_set).cloned().collect();
            let got: BTreeSet<_> = ids.into_iter().collect();
            if !want.is_empty() {
                self.res.probes.inc("tip_change_with_dropped_proposal_ids");
            }
            if got != want {
                self.viol(
                    "C20",
                    "dropped_ids_mismatch",
                    format!("{why}: tip #{a} -> #{b}: reported {} ids, left the committable set {}; only-reported {} only-left {}", got.len(), want.len(), got.difference(&want).count(), want.difference(&got).count()),
                );
            }
        }
    }

    fn observe(&mut self, why: &str) {
        self.check_dropped_proposals(why);
        let snap = self.node.shared.cloned_snapshot();
        let tip = snap.tip_hash();
        let td = bigmath::from_u256(snap.total_difficulty());
        if tip != self.last_tip.0 {
            // C01: never leaves the tip for a chain that is not strictly heavier
            if td <= self.last_tip.1 {
                self.viol(
                    "C01",
                    "tip_switched_without_more_work",
                    format!("{why}: tip {} (td {}) -> {} (td {})", hex(&self.last_tip.0), self.last_tip.1, hex(&tip), td),
                );
            }
            // reorg depth probe
            if let (Some(a), Some(b)) = (self.w.by_hash.get(&self.last_tip.0), self.w.by_hash.get(&tip)) {
                let ca = self.w.chain_of(*a);
                let cb = self.w.chain_of(*b);
                let common = ca.iter().zip(cb.iter()).take_while(|(x, y)| x == y).count();
                let depth = (ca.len() - common) as u64;
                if depth > 0 {
                    self.res.probes.inc("reorg");
                    self.max_reorg = self.max_reorg.max(depth);
                    if depth > self.sc.cfg.w_far {
                        self.res.probes.inc("reorg_deeper_than_window");
                    }
                    if cb.len() < ca.len() {
                        self.res.probes.inc("reorg_to_shorter_heavier_chain");
                    }
                    self.res.nontrivial = true;
                }
            }
            self.ev(&format!("tip {} td {}", hex(&tip), td));
            self.last_tip = (tip.clone(), td.clone());
            // snapshot must be self-consistent: its tip is its own store view's tip
            let stip = snap.get_tip_header().map(|h| h.hash());
            if stip.as_ref() != Some(&tip) {
                self.viol("C02", "snapshot_mixes_tips", format!("snapshot tip {} but its store view says {:?}", hex(&tip), stip.map(|h| hex(&h))));
            }
            self.check_proposals(why);
            self.check_tip_block(why);
        }
        let n = snap.tip_number();
        self.res.states.push(fp(&[
            n,
            self.node.chain.orphan_pool().len() as u64,
            self.node.chain.pending_verify_len() as u64,
            self.node.chain.verify_pending() as u64,
            self.max_reorg.min(12),
        ]));
    }

    /// C01/C03/C06/C19: the new tip must be a block the model considers valid on a valid chain
    fn check_tip_block(&mut self, why: &str) {
        let tip = self.last_tip.0.clone();
        match self.w.by_hash.get(&tip).cloned() {
            None => self.viol("C01", "tip_unknown_block", format!("{why}: tip {} was never built", hex(&tip))),
            Some(i) => {
                if !self.w.blocks[i].chain_valid {
                    let why_invalid = self.w.chain_of(i).iter().filter_map(|k| self.w.blocks[*k].invalid.clone()).next().unwrap_or_default();
                    let prop = match why_invalid.as_str() {
                        x if x.starts_with("dao") || x.starts_with("reward") || x.starts_with("cellbase") => "C06",
                        x if x.contains("chain_root") || x.contains("extension") => "C19",
                        "witness_swap" => "C14",
                        _ => "C03",
                    };
                    let d = format!("{why}: tip #{i} is on a chain with an invalid block ({why_invalid})");
                    self.viol("C01", &format!("invalid_chain_is_tip:{why_invalid}"), d.clone());
                    self.viol("C03", &format!("invalid_block_attached:{why_invalid}"), d.clone());
                    if prop != "C03" {
                        self.viol(prop, &format!("invalid_block_attached:{why_invalid}"), d.clone());
                    }
                    if why_invalid.starts_with("structural:commit_") {
                        self.viol("C04", &format!("block_accepts_invalid_tx:{}", why_invalid.trim_start_matches("structural:")), d.clone());
                    }
                    if why_invalid.contains("dao_withdraw") {
                        self.viol("C06", &format!("invalid_block_attached:{why_invalid}"), d.clone());
                    }
                    if why_invalid.contains("pow") || why_invalid == "target" {
                        self.viol("C07", &format!("invalid_block_attached:{why_invalid}"), d);
                    }
                }
            }
        }
    }

    /// C20: proposal view of the published snapshot == union over the model's window
    fn check_proposals(&mut self, why: &str) {
        let snap = self.node.shared.cloned_snapshot();
        let tip = snap.tip_hash();
        let Some(i) = self.w.by_hash.get(&tip).cloned() else { return };
        if !self.w.blocks[i].chain_valid {
            return;
        }
        let chain = self.w.st(i).chain.clone();
        let (set, gap) = self.w.proposal_view(&chain);
        let nset: BTreeSet<_> = snap.proposals().set().iter().cloned().collect();
        let ngap: BTreeSet<_> = snap.proposals().gap().iter().cloned().collect();
        if !set.is_empty() || !gap.is_empty() {
            self.res.probes.inc("proposal_view_nonempty");
        }
        if nset != set {
            self.viol(
                "C20",
                "proposal_set_mismatch",
                format!("{why}: at tip #{i} (n={}) node set has {} ids, model {}; only-node {} only-model {}", chain.len() - 1, nset.len(), set.len(), nset.difference(&set).count(), set.difference(&nset).count()),
            );
        }
        if ngap != gap {
            self.viol(
                "C20",
                "proposal_gap_mismatch",
                format!("{why}: at tip #{i} (n={}) node gap has {} ids, model {}", chain.len() - 1, ngap.len(), gap.len()),
            );
        }
    }

    fn check_tip_consistency(&mut self, why: &str) {
        let snap = self.node.shared.cloned_snapshot();
        if let Err((class, d)) = compare_state(&self.w, &*snap, Some(&*snap)) {
            let c = format!("{class}:{why}");
            self.viol("C02", &c, d.clone());
            self.viol("C07", &c, d.clone());
            self.viol("C08", &c, d.clone());
            if class.starts_with("mmr_") {
                self.viol("C19", &c, d);
            }
        }
        if self.sc.prop == "C19" {
            self.check_proofs(why);
        }
    }

    /// C07: monitors over the epochs the node itself recorded for its main chain
    fn check_epochs(&mut self) {
        use ckb_types::core::EpochExt;
        let shared = self.node.shared.clone();
        let store = shared.store();
        let tip = store.get_tip_header().unwrap();
        let cfg = self.sc.cfg.clone();
        let mut prev: Option<(EpochExt, ckb_types::core::HeaderView)> = None;
        let mut epoch_sum_primary: u128 = 0;
        let mut epoch_sum_secondary: u128 = 0;
        let mut compacts: BTreeSet<u32> = BTreeSet::new();
        for n in 0..=tip.number() {
            let h = store.get_block_hash(n).unwrap();
            let header = store.get_block_header(&h).unwrap();
            let e = store.get_block_epoch_index(&h).and_then(|i| store.get_epoch_ext(&i)).unwrap();
            compacts.insert(e.compact_target());
            // gap-free epoch fields
            let f = header.epoch();
            if n > 0 {
                if f.number() != e.number() || f.index() != n - e.start_number() || f.length() != e.length() {
                    self.viol("C07", "epoch_field_mismatch", format!("block {n}: header epoch {f:#} vs recorded epoch {} start {} len {}", e.number(), e.start_number(), e.length()));
                }
                let (pe, ph) = prev.as_ref().unwrap();
                let pf = ph.epoch();
                let ok = (f.number() == pf.number() && f.index() == pf.index() + 1 && f.length() == pf.length())
                    || (f.number() == pf.number() + 1 && f.index() == 0 && (pf.index() + 1 == pf.length() || ph.number() == 0 && pe.length() == 1));
                if n > 1 && !ok {
                    self.viol("C07", "epoch_sequence_gap", format!("block {n}: {pf:#} -> {f:#}"));
                }
                if e.number() != pe.number() {
                    // a transition pe -> e
                    self.res.probes.inc("epoch_transition");
                    let (l0, l1) = (pe.length(), e.length());
                    if l1 < crate::model::MIN_EPOCH_LENGTH || l1 > crate::model::MAX_EPOCH_LENGTH {
                        self.viol("C07", "epoch_length_outside_consensus_bounds", format!("epoch {} length {l1}", e.number()));
                    }
                    if l0 >= crate::model::MIN_EPOCH_LENGTH && (l1 > l0 * 2 || l1 < l0 / 2) {
                        self.viol("C07", "epoch_length_changed_by_more_than_tau", format!("{l0} -> {l1}"));
                    }
                    if l1 == l0 * 2 || l1 == l0 / 2 || l1 == crate::model::MIN_EPOCH_LENGTH || l1 == crate::model::MAX_EPOCH_LENGTH {
                        self.res.probes.inc("epoch_length_at_a_bound");
                    }
                    let d = bigmath::compact_to_difficulty(e.compact_target());
                    if d == BigUint::from(0u8) {
                        self.viol("C07", "zero_difficulty", format!("epoch {} compact {:#x}", e.number(), e.compact_target()));
                    }
                    let (hr0, hr1) = (bigmath::from_u256(pe.previous_epoch_hash_rate()), bigmath::from_u256(e.previous_epoch_hash_rate()));
                    if hr0 > BigUint::from(0u8) && (hr1 > &hr0 * 2u8 || &hr1 * 2u8 < &hr0 - BigUint::from(1u8)) {
                        self.viol("C07", "hash_rate_estimate_outside_tau", format!("{hr0} -> {hr1}"));
                    }
                    if hr0 > BigUint::from(0u8) && (hr1 == &hr0 * 2u8 || hr1 == &hr0 / 2u8) {
                        self.res.probes.inc("hash_rate_clamped");
                    }
                    // issuance of the finished epoch
                    let halvings = pe.number() / cfg.halving_interval;
                    let want_primary = (cfg.primary_epoch_reward >> halvings) as u128;
                    if epoch_sum_primary != want_primary {
                        self.viol("C07", "epoch_primary_issuance_sum", format!("epoch {}: blocks sum to {epoch_sum_primary}, schedule says {want_primary}", pe.number()));
                    }
                    if epoch_sum_secondary != cfg.secondary_epoch_reward as u128 {
                        self.viol("C07", "epoch_secondary_issuance_sum", format!("epoch {}: {epoch_sum_secondary} vs {}", pe.number(), cfg.secondary_epoch_reward));
                    }
                    if halvings > 0 {
                        self.res.probes.inc("epoch_after_halving");
                    }
                    epoch_sum_primary = 0;
                    epoch_sum_secondary = 0;
                    self.res.nontrivial = true;
                }
            }
            epoch_sum_primary += e.block_reward(n).unwrap().as_u64() as u128;
            epoch_sum_secondary += e.secondary_block_issuance(n, Capacity::shannons(cfg.secondary_epoch_reward)).unwrap().as_u64() as u128;
            prev = Some((e, header));
        }
        // compact <-> difficulty conversions on every target met: consistent and monotone
        let mut last: Option<(BigUint, BigUint)> = None;
        for c in compacts {
            let (t, overflow) = bigmath::compact_to_target(c);
            let d = bigmath::compact_to_difficulty(c);
            let node_d = bigmath::from_u256(&ckb_types::utilities::compact_to_difficulty(c));
            let (node_t, node_o) = ckb_types::utilities::compact_to_target(c);
            if node_d != d || bigmath::from_u256(&node_t) != t || node_o != overflow {
                self.viol("C07", "compact_conversion_differs", format!("compact {c:#x}"));
            }
            if ckb_types::utilities::target_to_compact(node_t.clone()) != c && !overflow {
                // non-canonical compacts may re-encode differently; canonical ones produced by the node must round-trip
                if ckb_types::utilities::difficulty_to_compact(ckb_types::utilities::compact_to_difficulty(c)) == c {
                    self.viol("C07", "compact_round_trip", format!("compact {c:#x}"));
                }
            }
            if let Some((lt, ld)) = &last {
                // larger target <=> smaller-or-equal difficulty
                if (t > *lt && d > *ld) || (t < *lt && d < *ld) {
                    self.viol("C07", "difficulty_not_monotone_in_target", format!("compact {c:#x}"));
                }
            }
            last = Some((t, d));
        }
    }

    fn quiescent_checks(&mut self) {
        if self.sc.prop == "C02" || self.sc.prop == "C08" || self.sc.prop == "C19" || self.sc.prop == "C07" {
            self.check_tip_consistency("quiescent");
        }
    }

    fn final_checks(&mut self) {
        // ---- C01: tip work == max over fully valid chains formable from what was delivered
        let mut best: Option<(BigUint, usize)> = None;
        let mut connected_valid = BTreeSet::new();
        connected_valid.insert(0usize);
        for b in 1..self.w.blocks.len() {
            // blocks are in generation order: parents first
            let blk = &self.w.blocks[b];
            if self.delivered_set.contains(&b) && blk.chain_valid && connected_valid.contains(&blk.parent.unwrap()) {
                connected_valid.insert(b);
            }
        }
        for b in &connected_valid {
            let td = self.w.st(*b).total_difficulty.clone();
            if best.as_ref().map(|(t, _)| td > *t).unwrap_or(true) {
                best = Some((td, *b));
            }
        }
        let (best_td, best_b) = best.unwrap();
        let n_best = connected_valid.iter().filter(|b| self.w.st(**b).total_difficulty == best_td).count();
        let snap = self.node.shared.cloned_snapshot();
        let tip = snap.tip_hash();
        let td = bigmath::from_u256(snap.total_difficulty());
        if td != best_td {
            let tipi = self.w.by_hash.get(&tip).cloned();
            self.viol(
                "C01",
                if td < best_td { "tip_not_heaviest" } else { "tip_heavier_than_any_valid_chain" },
                format!("final tip {:?} td {} but heaviest fully valid delivered chain ends at #{} with td {}", tipi, td, best_b, best_td),
            );
            // a valid block the node refused is also a C03 matter
            if td < best_td {
                self.viol("C03", "valid_heaviest_chain_not_attached", format!("#{best_b} td {best_td} vs tip td {td}"));
                self.viol("C06", "valid_heaviest_chain_not_attached", format!("#{best_b} td {best_td} vs tip td {td}"));
                self.viol("C19", "valid_heaviest_chain_not_attached", format!("#{best_b} td {best_td} vs tip td {td}"));
                self.viol("C04", "block_rejects_valid_tx:model_chain_refused", format!("#{best_b} td {best_td} vs tip td {td}"));
                // C07: the model's blocks carry the epoch / target of the exact RFC 0020 evaluation;
                // a refusal (e.g. TargetMismatch) means the node computed something else
                let first_err = self.node.verdicts.lock().unwrap().iter().find_map(|(h, v)| v.as_ref().err().map(|e| (self.w.by_hash.get(h).cloned(), e.clone())));
                self.viol("C07", "model_built_block_refused", format!("#{best_b} td {best_td} vs tip td {td}; first refusal: {:?}", first_err));
            }
        }
        if td == best_td && n_best == 1 && tip != self.w.blocks[best_b].view.hash() {
            self.viol("C01", "tip_is_not_the_unique_heaviest_chain", format!("unique heaviest valid chain ends at #{best_b} but tip is {:?}", self.w.by_hash.get(&tip)));
        }
        if n_best > 1 {
            self.res.probes.inc("equal_work_tie_at_the_top");
        }
        // every connected valid block is stored; nothing connectable is left in the orphan pool
        let shared = self.node.shared.clone();
        let store = shared.store();
        for b in connected_valid.iter().skip(1) {
            let h = self.w.blocks[*b].view.hash();
            if store.get_block_ext(&h).is_none() {
                let d = format!("valid block #{b} with all ancestors delivered has no BlockExt (not connected)");
                self.viol("C01", "connectable_block_not_connected", d);
                break;
            }
        }
        // no block of an invalid chain is marked verified
        for b in 1..self.w.blocks.len() {
            let blk = &self.w.blocks[b];
            if !blk.chain_valid {
                if let Some(ext) = store.get_block_ext(&blk.view.hash()) {
                    if ext.verified == Some(true) {
                        let d = format!("block #{b} on an invalid chain is stored as verified");
                        self.viol("C01", "invalid_chain_block_verified", d.clone());
                        self.viol("C03", "invalid_chain_block_verified", d);
                    }
                }
            }
        }
        // a valid connected block never gets an error verdict
        let verdicts = self.node.verdicts.lock().unwrap().clone();
        for (h, v) in &verdicts {
            if let (Some(i), Err(e)) = (self.w.by_hash.get(h), v) {
                if connected_valid.contains(i) {
                    let d = format!("valid block #{i} got error verdict: {e}");
                    self.viol("C01", "valid_block_error_verdict", d.clone());
                    self.viol("C03", "valid_block_error_verdict", d);
                    break;
                }
            }
        }
        if std::env::var_os("SIM_TRACE").is_some() {
            for (h, v) in &verdicts {
                eprintln!("[verdict] #{:?} valid={:?} {:?}", self.w.by_hash.get(h), self.w.by_hash.get(h).map(|i| (self.w.blocks[*i].chain_valid, self.w.blocks[*i].invalid.clone())), v);
            }
        }
        let n_err = verdicts.iter().filter(|(_, v)| v.is_err()).count();
        self.res.probes.add("error_verdicts", n_err as u64);
        if self.w.blocks.iter().any(|b| b.invalid.is_some() && self.delivered_set.contains(&b.idx)) {
            self.res.probes.inc("invalid_block_delivered");
        }
        // NervosDAO traffic that made it onto the main chain
        {
            let snap = self.node.shared.snapshot();
            if let Some(ti) = self.w.by_hash.get(&snap.tip_hash()) {
                let dao_hash = self.w.dao_type_hash.clone();
                for bi in self.w.st(*ti).chain.iter() {
                    for tx in self.w.blocks[*bi].view.transactions().iter().skip(1) {
                        let out_dao = tx.outputs_with_data_iter().find(|(o, _)| o.type_().to_opt().map(|t| t.code_hash() == dao_hash).unwrap_or(false));
                        match out_dao {
                            Some((_, d)) if d.len() == 8 && d.iter().all(|b| *b == 0) => self.res.probes.inc("dao_deposit_on_main_chain"),
                            Some(_) => self.res.probes.inc("dao_withdraw_phase1_on_main_chain"),
                            None => {
                                if tx.header_deps().len() == 2 && tx.cell_deps().len() == 2 {
                                    self.res.probes.inc("dao_withdraw_phase2_on_main_chain");
                                }
                            }
                        }
                    }
                }
            }
        }
        // valid main-chain blocks that sit exactly on a consensus limit
        {
            let snap = self.node.shared.snapshot();
            if let Some(ti) = self.w.by_hash.get(&snap.tip_hash()) {
                let cfg = &self.w.cfg;
                for bi in self.w.st(*ti).chain.iter().skip(1) {
                    let b = &self.w.blocks[*bi];
                    let uncle_ids: usize = b.view.uncles().into_iter().map(|u| u.data().proposals().len()).sum();
                    if (b.view.data().as_slice().len() - 10 * uncle_ids) as u64 == cfg.max_block_bytes {
                        self.res.probes.inc("attached_block_exactly_at_size_limit");
                    }
                    if b.view.data().proposals().len() as u64 == cfg.max_block_proposals {
                        self.res.probes.inc("attached_block_exactly_at_proposal_limit");
                    }
                    if !b.cycles.is_empty() && b.cycles.iter().all(|c| c.is_some()) && b.cycles.iter().map(|c| c.unwrap()).sum::<u64>() == cfg.max_block_cycles {
                        self.res.probes.inc("attached_block_exactly_at_cycle_limit");
                    }
                    if b.view.extension().map(|e| e.raw_data().len() == 96).unwrap_or(false) {
                        self.res.probes.inc("attached_block_with_longest_legal_extension");
                    }
                }
            }
        }
        for b in self.w.blocks.iter() {
            if let Some(why) = &b.invalid {
                if self.delivered_set.contains(&b.idx) {
                    self.res.probes.inc(&format!("mutant_delivered:{}", why.trim_start_matches("structural:")));
                }
            }
        }
        if self.w.blocks.len() > 2 {
            // forks present?
            let mut kids: BTreeMap<usize, usize> = BTreeMap::new();
            for b in self.w.blocks.iter().skip(1) {
                *kids.entry(b.parent.unwrap()).or_default() += 1;
            }
            if kids.values().any(|k| *k > 1) {
                self.res.probes.inc("tree_has_forks");
            }
        }
        if self.res.faults.get("orphan_first_delivery") > 0 {
            self.res.nontrivial = true;
        }

        // ---- C02 / C06 / C19: full comparison of the stored state and of every captured snapshot
        self.check_tip_consistency("final");
        if self.sc.prop == "C07" && !self.sc.header_stage {
            self.check_epochs();
        }
        // the captured snapshots are asked a last time BEFORE the digest below: the digest asks the live
        // store's part accessors about deleted blocks too (a question no code path of the node asks),
        // which leaves negative answers in the shared caches that a later snapshot read would pick up
        self.stale_reads("final");
        if self.sc.prop == "C14" {
            let d = self.answers_digest();
            self.res.extra = Some(d);
        }
        if self.sc.prop == "C10" {
            self.check_frozen("final");
            // digest over main-chain blocks only (side blocks at frozen heights legitimately vanish)
            let d = self.answers_digest();
            let snap = self.node.shared.cloned_snapshot();
            let main: BTreeSet<String> = match self.w.by_hash.get(&snap.tip_hash()) {
                Some(ti) => self.w.st(*ti).chain.iter().map(|i| format!("#{i}")).collect(),
                None => BTreeSet::new(),
            };
            let filtered: Vec<serde_json::Value> = d["c14"]
                .as_array()
                .unwrap()
                .iter()
                .filter(|x| {
                    let l = x[0].as_str().unwrap();
                    l == "tip" || l == "tip_td" || !l.starts_with("verdict") && l.split('.').next().map(|p| main.iter().any(|m| p.ends_with(m.as_str()))).unwrap_or(false)
                })
                .cloned()
                .collect();
            self.res.extra = Some(serde_json::json!({ "c14": filtered, "freeze_windows": self.freeze_windows, "eff_ops": self.eff_ops }));
        }
        let snaps = std::mem::take(&mut self.snaps);
        for s in snaps {
            if let Err((class, d)) = compare_state(&self.w, &*s, Some(&*s)) {
                self.viol("C02", &format!("{class}:captured_snapshot"), d);
            }
        }
        // ---- C06: U equals the occupied capacity of the live cells actually stored
        let mut occ: u128 = 0;
        for (_k, v) in store.get_iter(COLUMN_CELL, IteratorMode::Start) {
            let e = packed::CellEntryReader::from_slice_should_be_ok(v.as_ref());
            let data_size: u64 = e.data_size().into();
            occ += crate::model::occupied(&e.output().to_entity(), data_size as usize) as u128;
        }
        let tip_dao = crate::model::Dao::unpack(&snap.tip_header().dao());
        if occ != tip_dao.u as u128 {
            self.viol("C06", "dao_u_differs_from_live_cells", format!("header U {} vs occupied capacity of stored live cells {}", tip_dao.u, occ));
        }
        // ---- C06: cellbase of every main-chain block pays the reward the property text prescribes
        if let Some(ti) = self.w.by_hash.get(&tip).cloned() {
            if self.w.blocks[ti].chain_valid {
                let chain = self.w.st(ti).chain.clone();
                let delay = self.sc.cfg.w_far + 1;
                for n in (delay + 1)..chain.len() as u64 {
                    let target = n - delay;
                    let (p, s, c, pr) = self.w.reward(&chain[..n as usize], target);
                    let blk = &self.w.blocks[chain[n as usize]];
                    let cb = &blk.view.transactions()[0];
                    let paid: u64 = cb.outputs_capacity().map(|c: Capacity| c.as_u64()).unwrap_or(0);
                    let want = p + s + c + pr;
                    if !cb.outputs().is_empty() && paid != want {
                        let class = if target == 1 && paid < want { "reward_mismatch:target_block_1_proposer_share" } else { "reward_mismatch" };
                        self.viol("C06", class, format!("block {n} pays {paid}, property says {want} (primary {p} secondary {s} committer {c} proposer {pr})"));
                    }
                    if pr > 0 {
                        self.res.probes.inc("proposer_reward_paid");
                    }
                    if c > 0 {
                        self.res.probes.inc("committer_reward_paid");
                    }
                    // per fee, the two shares sum to the fee
                    for f in &self.w.blocks[chain[target as usize]].fees {
                        let prs = mul_ratio(*f, PROPOSER_RATIO);
                        debug_assert_eq!(prs + (f - prs), *f);
                    }
                }
            }
        }
    }
}

type CmpErr = (String, String);

fn err<T>(class: &str, d: String) -> Result<T, CmpErr> {
    Err((class.to_string(), d))
}

/// C02: everything the store says about the canonical chain equals the model's replay of
/// the chain ending at the store's tip.
pub fn compare_state<S: ChainStore>(w: &World, store: &S, snap: Option<&Snapshot>) -> Result<(), CmpErr> {
    let tip = store.get_tip_header().ok_or_else(|| ("no_tip".to_string(), "store has no tip header".to_string()))?;
    let Some(ti) = w.by_hash.get(&tip.hash()).cloned() else {
        return err("tip_unknown_block", format!("tip {} not in model", hex(&tip.hash())));
    };
    if !w.blocks[ti].chain_valid {
        return err("tip_on_invalid_chain", format!("tip #{ti}"));
    }
    let st = w.st(ti);
    // --- INDEX: number <-> hash
    let mut idx_rows = 0usize;
    for (k, v) in store.get_iter(COLUMN_INDEX, IteratorMode::Start) {
        idx_rows += 1;
        if k.len() == 8 {
            let n = u64::from_le_bytes(k.as_ref().try_into().unwrap());
            let want = st.chain.get(n as usize).map(|i| w.blocks[*i].view.hash());
            if want.as_ref().map(|h| h.as_slice()) != Some(v.as_ref()) {
                return err("index_number_row", format!("number {n} -> {:x?} but main chain has {:?}", &v[..4], want.map(|h| hex(&h))));
            }
        } else {
            let h = packed::Byte32::from_slice(k.as_ref()).map_err(|e| ("index_key".to_string(), e.to_string()))?;
            let n = u64::from_le_bytes(v.as_ref().try_into().unwrap());
            let ok = st.chain.get(n as usize).map(|i| w.blocks[*i].view.hash() == h).unwrap_or(false);
            if !ok {
                return err("index_hash_row", format!("stale hash->number row {} -> {n}", hex(&h)));
            }
        }
    }
    if idx_rows != 2 * st.chain.len() {
        return err("index_row_count", format!("{} rows, chain length {}", idx_rows, st.chain.len()));
    }
    // --- live cells
    let mut seen = 0usize;
    for (k, v) in store.get_iter(COLUMN_CELL, IteratorMode::Start) {
        seen += 1;
        let txh = packed::Byte32::from_slice(&k[..32]).unwrap();
        let index = u32::from_be_bytes(k[32..36].try_into().unwrap());
        let op = packed::OutPoint::new(txh.clone(), index);
        let Some(c) = st.cells.get(&op) else {
            return err("cell_extra", format!("stored live cell {}:{index} is not live in the replay", hex(&txh)));
        };
        let e = packed::CellEntryReader::from_slice_should_be_ok(v.as_ref());
        let bn: u64 = e.block_number().into();
        let ti2: u32 = e.index().into();
        let ds: u64 = e.data_size().into();
        let ep: u64 = e.block_epoch().into();
        if e.output().as_slice() != c.output.as_slice()
            || e.block_hash().as_slice() != c.block_hash.as_slice()
            || bn != c.block_number
            || ti2 as usize != c.tx_index
            || ds != c.data.len() as u64
            || ep != c.block_epoch.full_value()
        {
            return err("cell_entry_differs", format!("cell {}:{index}: stored (block {bn}, tx {ti2}, data {ds}) vs replay (block {}, tx {}, data {})", hex(&txh), c.block_number, c.tx_index, c.data.len()));
        }
        // data and data hash
        let d = store.get(COLUMN_CELL_DATA, k.as_ref());
        let dh = store.get(COLUMN_CELL_DATA_HASH, k.as_ref());
        match (d, dh) {
            (Some(d), Some(dh)) => {
                if c.data.is_empty() {
                    if !d.is_empty() || !dh.is_empty() {
                        return err("cell_data_differs", format!("cell {}:{index} should have empty data rows", hex(&txh)));
                    }
                } else {
                    let de = packed::CellDataEntryReader::from_slice_should_be_ok(d.as_ref());
                    let want_hash = packed::CellOutput::calc_data_hash(&c.data);
                    if de.output_data().raw_data() != c.data.as_ref()
                        || de.output_data_hash().as_slice() != want_hash.as_slice()
                        || dh.as_ref() != want_hash.as_slice()
                    {
                        return err("cell_data_differs", format!("cell {}:{index}", hex(&txh)));
                    }
                }
            }
            _ => return err("cell_data_missing", format!("cell {}:{index} lacks data rows", hex(&txh))),
        }
    }
    if seen != st.cells.len() {
        let missing = st.cells.keys().find(|op| store.get(COLUMN_CELL, &op.to_cell_key()).is_none());
        return err("cell_missing", format!("{} stored live cells, replay has {}; e.g. missing {:?}", seen, st.cells.len(), missing.map(|m| format!("{}:{}", hex(&m.tx_hash()), Into::<u32>::into(m.index())))));
    }
    for col in [COLUMN_CELL_DATA, COLUMN_CELL_DATA_HASH] {
        let n = store.get_iter(col, IteratorMode::Start).count();
        if n != st.cells.len() {
            return err("cell_data_row_count", format!("column {col}: {n} rows vs {} live cells", st.cells.len()));
        }
    }
    // --- transaction info
    let mut ntx = 0usize;
    for (k, v) in store.get_iter(COLUMN_TRANSACTION_INFO, IteratorMode::Start) {
        ntx += 1;
        let h = packed::Byte32::from_slice(k.as_ref()).unwrap();
        let Some((bi, ti2)) = st.txs.get(&h) else {
            return err("txinfo_extra", format!("stale tx-info row {}", hex(&h)));
        };
        let info = packed::TransactionInfoReader::from_slice_should_be_ok(v.as_ref());
        let bn: u64 = info.block_number().into();
        let ix: u32 = info.key().index().into();
        let ep: u64 = info.block_epoch().into();
        let b = &w.blocks[*bi];
        if info.key().block_hash().as_slice() != b.view.hash().as_slice()
            || bn != b.number
            || ix as usize != *ti2
            || ep != b.view.epoch().full_value()
        {
            return err("txinfo_differs", format!("tx {}: stored block {bn} idx {ix}; replay block {} idx {}", hex(&h), b.number, ti2));
        }
    }
    if ntx != st.txs.len() {
        return err("txinfo_missing", format!("{} rows vs {} main-chain txs", ntx, st.txs.len()));
    }
    // --- included uncles
    let mut nunc = 0usize;
    for (k, _v) in store.get_iter(COLUMN_UNCLES, IteratorMode::Start) {
        nunc += 1;
        let h = packed::Byte32::from_slice(k.as_ref()).unwrap();
        if !st.uncles.contains(&h) {
            return err("uncle_extra", format!("stale uncle row {}", hex(&h)));
        }
    }
    if nunc != st.uncles.len() {
        return err("uncle_missing", format!("{} rows vs {} included uncles", nunc, st.uncles.len()));
    }
    // --- current epoch, per-block epoch records, per-block ext
    let cmp_epoch = |e: &ckb_types::core::EpochExt, m: &crate::model::MEpoch, what: &str| -> Result<(), CmpErr> {
        if e.number() != m.number
            || e.start_number() != m.start
            || e.length() != m.length
            || e.base_block_reward().as_u64() != m.base_reward
            || e.remainder_reward().as_u64() != m.remainder
            || bigmath::from_u256(e.previous_epoch_hash_rate()) != m.prev_hash_rate
            || e.compact_target() != m.compact
            || e.last_block_hash_in_previous_epoch() != m.last_hash_prev_epoch
        {
            return err("epoch_differs", format!("{what}: stored {e:?} vs model {m:?}"));
        }
        Ok(())
    };
    let cur = store.get_current_epoch_ext().ok_or_else(|| ("no_current_epoch".to_string(), String::new()))?;
    cmp_epoch(&cur, &st.epoch, "current epoch")?;
    let mut td = BigUint::from(0u8);
    let mut uncles_total = 0u64;
    for (n, bi) in st.chain.iter().enumerate() {
        let b = &w.blocks[*bi];
        let h = b.view.hash();
        td += bigmath::compact_to_difficulty(b.view.compact_target());
        uncles_total += b.view.uncles().data().len() as u64;
        let ei = store.get_block_epoch_index(&h).ok_or_else(|| ("block_epoch_missing".to_string(), format!("block {n}")))?;
        let ee = store.get_epoch_ext(&ei).ok_or_else(|| ("epoch_ext_missing".to_string(), format!("block {n}")))?;
        cmp_epoch(&ee, &b.epoch, &format!("epoch of block {n}"))?;
        let ext = store.get_block_ext(&h).ok_or_else(|| ("block_ext_missing".to_string(), format!("block {n}")))?;
        if n > 0 && ext.verified != Some(true) {
            return err("ext_not_verified", format!("main-chain block {n} verified={:?}", ext.verified));
        }
        if bigmath::from_u256(&ext.total_difficulty) != td {
            return err("ext_total_difficulty", format!("block {n}: {} vs {}", ext.total_difficulty, td));
        }
        if ext.total_uncles_count != uncles_total {
            return err("ext_total_uncles", format!("block {n}: {} vs {}", ext.total_uncles_count, uncles_total));
        }
        if n > 0 {
            let fees: Vec<u64> = ext.txs_fees.iter().map(|c| c.as_u64()).collect();
            if fees != b.fees {
                return err("ext_fees", format!("block {n}: {:?} vs {:?}", fees, b.fees));
            }
            if let Some(sizes) = &ext.txs_sizes {
                let want: Vec<u64> = b.view.transactions().iter().map(|t| t.data().serialized_size_in_block() as u64).collect();
                if *sizes != want {
                    return err("ext_sizes", format!("block {n}: {:?} vs {:?}", sizes, want));
                }
            }
            if let Some(cy) = &ext.cycles {
                if cy.len() != b.fees.len() {
                    return err("ext_cycles_len", format!("block {n}"));
                }
                if std::env::var_os("SIM_TRACE_CYCLES").is_some() {
                    eprintln!("[cycles] block {n}: node {:?} model {:?}", cy, b.cycles);
                }
                // recorded cycles = the model's cost table (blocks verified with scripts disabled
                // record 0 cycles: assume-valid prefix)
                if b.cycles.len() == cy.len() && !(w.assume_valid && cy.iter().all(|c| *c == 0)) {
                    for (k, (have, want)) in cy.iter().zip(b.cycles.iter()).enumerate() {
                        if let Some(want) = want {
                            if have != want {
                                return err("ext_cycles", format!("block {n} tx {}: recorded {have} cycles, model {want}", k + 1));
                            }
                        }
                    }
                }
            }
        }
    }
    // --- chain-root MMR up to the tip
    if let Some(snap) = snap {
        let tipn = st.chain.len() as u64 - 1;
        if tipn >= 1 {
            let root = snap.chain_root_mmr(tipn - 1).get_root().map_err(|e| ("mmr_root_error".to_string(), e.to_string()))?;
            let want = w.chain_root(&st.chain, tipn - 1);
            if root.as_slice() != want.as_slice() {
                return err("mmr_root_differs", format!("root over 0..={} differs from the naive MMR of the main chain", tipn - 1));
            }
            let root = snap.chain_root_mmr(tipn).get_root().map_err(|e| ("mmr_root_error".to_string(), e.to_string()))?;
            let want = w.chain_root(&st.chain, tipn);
            if root.as_slice() != want.as_slice() {
                return err("mmr_root_differs", format!("root over 0..={tipn} differs from the naive MMR of the main chain"));
            }
        }
        if bigmath::from_u256(snap.total_difficulty()) != td {
            return err("snapshot_total_difficulty", format!("{} vs {}", snap.total_difficulty(), td));
        }
        cmp_epoch(snap.epoch_ext(), &st.epoch, "snapshot epoch")?;
    }
    let _ = Direction::Forward;
    Ok(())
}
