//! E-NODE / E-CRASH: one real node per OS process under a deterministic simulator.
//!
//!   simnode gen  --seed S --prop P                    -> scenario JSON
//!   simnode exec --scenario F                         -> RunResult JSON (spawns segment children
//!                                                        when the scenario restarts or crashes)
//!   simnode run  --seed S --prop P                    -> gen + exec
//!   simnode segment --scenario F --dir D --from K ... -> SegmentOut JSON (internal)
mod bigmath;
mod exec;
mod lc;
mod model;
mod node;
mod peerhdr;
mod pool;
mod scen;

use exec::{Exec, SegmentOut};
use scen::{Op, Scenario};
use simcore::*;
use std::path::{Path, PathBuf};
use std::sync::atomic::{AtomicU64, Ordering};

/// message of the most recent panic: "location | message"
pub static LAST_PANIC: std::sync::Mutex<Option<String>> = std::sync::Mutex::new(None);

static HASH_SEED: AtomicU64 = AtomicU64::new(0);
static HASH_CTR: AtomicU64 = AtomicU64::new(0);

/// Interposes libc's getrandom(3): std derives HashMap RandomState keys from it, so iteration
/// order of every HashMap/HashSet/DashMap in the node becomes a function of the run's seed.
#[unsafe(no_mangle)]
pub unsafe extern "C" fn getrandom(buf: *mut u8, buflen: usize, _flags: u32) -> isize {
    let mut x = HASH_SEED
        .load(Ordering::Relaxed)
        .wrapping_mul(6364136223846793005)
        .wrapping_add(1442695040888963407)
        ^ HASH_CTR.fetch_add(1, Ordering::Relaxed).wrapping_mul(0x9E37_79B9_7F4A_7C15);
    for i in 0..buflen {
        x ^= x << 13;
        x ^= x >> 7;
        x ^= x << 17;
        unsafe {
            *buf.add(i) = (x >> 32) as u8;
        }
    }
    buflen as isize
}

/// the next thread that asks for HashMap keys gets keys derived from `v` (and the run's hash seed)
pub fn reset_hash_ctr(v: u64) {
    HASH_CTR.store(v, Ordering::Relaxed);
}

fn scratch() -> PathBuf {
    let base = if Path::new("/dev/shm").is_dir() { PathBuf::from("/dev/shm") } else { std::env::temp_dir() };
    base.join(format!("verif-node-{}", std::process::id()))
}

fn read_scenario(p: &str) -> Scenario {
    serde_json::from_str(&std::fs::read_to_string(p).expect("scenario file")).expect("scenario json")
}

fn merge(into: &mut RunResult, seg: &RunResult) {
    into.steps += seg.steps;
    into.sim_ms = into.sim_ms.max(seg.sim_ms);
    into.faults.merge(&seg.faults);
    into.probes.merge(&seg.probes);
    into.states.extend(seg.states.iter().cloned());
    into.nontrivial |= seg.nontrivial;
    into.log_hash = fp(&[into.log_hash, seg.log_hash]);
    into.interleaving = fp(&[into.interleaving, seg.interleaving]);
    if into.violation.is_none() {
        into.violation = seg.violation.clone();
    }
    if into.harness_error.is_none() {
        into.harness_error = seg.harness_error.clone();
    }
    if seg.extra.is_some() {
        into.extra = seg.extra.clone();
    }
}

fn run_scenario(sc: &Scenario, scenario_path: Option<&str>) -> RunResult {
    let dir = scratch();
    let _ = std::fs::remove_dir_all(&dir);
    let multi = sc.ops.iter().any(|o| matches!(o, Op::Restart | Op::Crash { .. }));
    let mut total = RunResult { seed: sc.seed, ..Default::default() };
    if !multi {
        match Exec::open(sc.clone(), &dir, 0) {
            Ok(mut e) => {
                let out = e.run(0);
                total = out.res;
            }
            Err(e) => total.harness_error = Some(e),
        }
        // process exit tears the node down; remove the directory first
        let _ = std::fs::remove_dir_all(&dir);
        return total;
    }
    // multi-segment: every segment is its own OS process on the same directories
    std::fs::create_dir_all(&dir).unwrap();
    let path = match scenario_path {
        Some(p) => p.to_string(),
        None => {
            let p = dir.join("scenario.json");
            std::fs::write(&p, serde_json::to_string(sc).unwrap()).unwrap();
            p.to_string_lossy().to_string()
        }
    };
    let exe = std::env::current_exe().unwrap();
    let mut from = 0usize;
    let mut prev: Option<(String, String)> = None;
    let mut crashed = false;
    let mut consumed: Vec<usize> = Vec::new();
    let mut guard = 0;
    loop {
        guard += 1;
        if guard > 64 {
            total.harness_error = Some("too many segments".into());
            break;
        }
        let mut cmd = std::process::Command::new(&exe);
        cmd.arg("segment")
            .arg("--scenario").arg(&path)
            .arg("--dir").arg(&dir)
            .arg("--from").arg(from.to_string())
            .arg("--hash-seed").arg(sc.seed.to_string());
        if let Some((t, d)) = &prev {
            cmd.arg("--prev-tip").arg(t).arg("--prev-td").arg(d);
        }
        if crashed {
            cmd.arg("--crashed");
        }
        if !consumed.is_empty() {
            cmd.arg("--consumed").arg(consumed.iter().map(|c| c.to_string()).collect::<Vec<_>>().join(","));
        }
        if std::env::var_os("SIM_TRACE").is_some() {
            cmd.stderr(std::process::Stdio::inherit());
        }
        let out = cmd.output().expect("spawn segment");
        let code = out.status.code();
        if code == Some(86) {
            // simulated process death: find out how far it got
            total.faults.inc("process_death");
            let plog = std::fs::read_to_string(dir.join("progress.log")).unwrap_or_default();
            let last = plog.lines().filter(|l| l.split(' ').count() == 3).last();
            let (done, tip, td) = match last {
                Some(l) => {
                    let mut it = l.split(' ');
                    let i: usize = it.next().unwrap().parse().unwrap();
                    (Some(i), it.next().unwrap().to_string(), it.next().unwrap().to_string())
                }
                None => (None, String::new(), "0".into()),
            };
            let interrupted = match done { Some(i) if i + 1 > from => i + 1, _ => from };
            // the Crash marker that armed this death is consumed
            if let Some(k) = sc.ops.iter().enumerate().skip(from).find(|(i, o)| matches!(o, Op::Crash { .. }) && !consumed.contains(i)).map(|(i, _)| i) {
                consumed.push(k);
            }
            // power-loss flavour of a death inside a freeze pass: part of what the freezer files
            // gained since the pass began (none of it fsynced) is lost
            let torn = dir.join("torn.json");
            if let Ok(text) = std::fs::read_to_string(&torn) {
                let base: Vec<(String, u64)> = serde_json::from_str(&text).unwrap_or_default();
                let mut rng = simcore::Rng::new(sc.seed ^ 0x7042_0000 ^ (consumed.len() as u64) << 8);
                let mut names: Vec<String> = std::fs::read_dir(dir.join("ancient")).map(|rd| rd.flatten().filter(|e| e.metadata().map(|m| m.is_file()).unwrap_or(false)).map(|e| e.file_name().to_string_lossy().to_string()).collect()).unwrap_or_default();
                names.sort();
                for name in names {
                    let p = dir.join("ancient").join(&name);
                    let cur = std::fs::metadata(&p).map(|m| m.len()).unwrap_or(0);
                    let synced = base.iter().find(|(n, _)| *n == name).map(|(_, s)| *s).unwrap_or(0).min(cur);
                    if cur > synced {
                        let keep = synced + rng.range(0, cur - synced);
                        if keep < cur {
                            if let Ok(f) = std::fs::OpenOptions::new().write(true).open(&p) {
                                let _ = f.set_len(keep);
                                total.faults.inc("freezer_unsynced_tail_lost");
                            }
                        }
                    }
                }
                let _ = std::fs::remove_file(&torn);
            }
            prev = if tip.is_empty() { prev } else { Some((tip, td)) };
            crashed = true;
            from = interrupted + 1;
            total.steps += 1;
            continue;
        }
        let text = String::from_utf8_lossy(&out.stdout);
        let seg: Option<SegmentOut> = text.lines().rev().find(|l| l.starts_with('{')).and_then(|l| serde_json::from_str(l).ok());
        let Some(seg) = seg else {
            total.harness_error = Some(format!(
                "segment from {from} exited {:?} without result: {}",
                code,
                String::from_utf8_lossy(&out.stderr).chars().rev().take(1500).collect::<String>().chars().rev().collect::<String>()
            ));
            break;
        };
        merge(&mut total, &seg.res);
        if seg.finished || total.violation.is_some() || total.harness_error.is_some() {
            break;
        }
        total.faults.inc("clean_restart");
        // the op at seg.next-1 was the Restart (or an unreached Crash) marker
        if matches!(sc.ops.get(seg.next - 1), Some(Op::Crash { .. })) {
            consumed.push(seg.next - 1);
        }
        prev = Some((seg.tip.clone(), seg.td.clone()));
        crashed = false;
        from = seg.next;
    }
    let _ = std::fs::remove_dir_all(&dir);
    total
}

fn main() {
    let args: Vec<String> = std::env::args().collect();
    let mode = args.get(1).map(|s| s.as_str()).unwrap_or("");
    // the hash seed must be in place before the first HashMap is created
    let hs = arg_value(&args, "--hash-seed")
        .or_else(|| arg_value(&args, "--seed"))
        .and_then(|s| s.parse::<u64>().ok())
        .unwrap_or(DEFAULT_SEED);
    HASH_SEED.store(hs, Ordering::Relaxed);
    let default_hook = std::panic::take_hook();
    std::panic::set_hook(Box::new(move |info| {
        let loc = info.location().map(|l| format!("{}:{}", l.file(), l.line())).unwrap_or_default();
        let msg = if let Some(s) = info.payload().downcast_ref::<&str>() {
            s.to_string()
        } else if let Some(s) = info.payload().downcast_ref::<String>() {
            s.clone()
        } else {
            String::new()
        };
        *LAST_PANIC.lock().unwrap() = Some(format!("{loc} | {msg}"));
        if std::env::var_os("SIM_TRACE").is_some() {
            default_hook(info);
        }
    }));
    let code = match mode {
        "gen" => {
            let seed: u64 = arg_value(&args, "--seed").unwrap().parse().unwrap();
            let prop = arg_value(&args, "--prop").unwrap_or_else(|| "C01".into());
            println!("{}", serde_json::to_string(&scen::generate(seed, &prop)).unwrap());
            0
        }
        "run" => {
            let seed: u64 = arg_value(&args, "--seed").unwrap().parse().unwrap();
            let prop = arg_value(&args, "--prop").unwrap_or_else(|| "C01".into());
            let sc = scen::generate(seed, &prop);
            let res = run_scenario(&sc, None);
            println!("{}", serde_json::to_string(&res).unwrap());
            0
        }
        "exec" => {
            let path = arg_value(&args, "--scenario").unwrap();
            let sc = read_scenario(&path);
            if arg_value(&args, "--hash-seed").is_none() {
                HASH_SEED.store(sc.seed, Ordering::Relaxed);
            }
            let res = run_scenario(&sc, Some(&path));
            println!("{}", serde_json::to_string(&res).unwrap());
            0
        }
        "pool-gen" => {
            let seed: u64 = arg_value(&args, "--seed").unwrap().parse().unwrap();
            let prop = arg_value(&args, "--prop").unwrap_or_else(|| "C11".into());
            println!("{}", serde_json::to_string(&pool::generate(seed, &prop)).unwrap());
            0
        }
        "pool-run" | "pool-exec" => {
            let sc: pool::PoolScenario = if mode == "pool-run" {
                let seed: u64 = arg_value(&args, "--seed").unwrap().parse().unwrap();
                let prop = arg_value(&args, "--prop").unwrap_or_else(|| "C11".into());
                pool::generate(seed, &prop)
            } else {
                let path = arg_value(&args, "--scenario").unwrap();
                let sc: pool::PoolScenario = serde_json::from_str(&std::fs::read_to_string(path).unwrap()).unwrap();
                if arg_value(&args, "--hash-seed").is_none() {
                    HASH_SEED.store(sc.seed, Ordering::Relaxed);
                }
                sc
            };
            let dir = scratch();
            let _ = std::fs::remove_dir_all(&dir);
            let res = match pool::PoolExec::open(sc.clone(), &dir) {
                Ok(mut e) => e.run(),
                Err(e) => RunResult { seed: sc.seed, harness_error: Some(e), ..Default::default() },
            };
            let _ = std::fs::remove_dir_all(&dir);
            println!("{}", serde_json::to_string(&res).unwrap());
            0
        }
        "segment" => {
            let path = arg_value(&args, "--scenario").unwrap();
            let mut sc = read_scenario(&path);
            let dir = PathBuf::from(arg_value(&args, "--dir").unwrap());
            let from: usize = arg_value(&args, "--from").unwrap().parse().unwrap();
            if let Some(c) = arg_value(&args, "--consumed") {
                for k in c.split(',').filter_map(|x| x.parse::<usize>().ok()) {
                    // a consumed crash marker is a no-op
                    sc.ops[k] = Op::Clock { ms: 0 };
                }
            }
            let prev = arg_value(&args, "--prev-tip").map(|t| (t, arg_value(&args, "--prev-td").unwrap()));
            let crashed = arg_flag(&args, "--crashed");
            let out = match Exec::open(sc, &dir, from) {
                Ok(mut e) => {
                    e.arm_crash(from);
                    if from > 0 || prev.is_some() {
                        e.after_restart(prev, crashed);
                    }
                    e.run(from)
                }
                Err(e) => {
                    let mut o = SegmentOut::default();
                    // not being able to open after a crash or restart is a property violation (C08)
                    if from > 0 {
                        let prop = if arg_value(&args, "--scenario").map(|p| read_scenario(&p).prop == "C10").unwrap_or(false) { "C10" } else { "C08" };
                        o.res.violation = Some(Violation { property: prop.into(), class: "reopen_failed".into(), detail: e });
                    } else {
                        o.res.harness_error = Some(e);
                    }
                    o.finished = true;
                    o
                }
            };
            println!("{}", serde_json::to_string(&out).unwrap());
            0
        }
        _ => {
            eprintln!("usage: simnode gen|run|exec|segment ...");
            2
        }
    };
    // skip destructors of the node (threads, RocksDB): the run is over
    use std::io::Write;
    let _ = std::io::stdout().flush();
    unsafe { libc::_exit(code) }
}
