//! Scenario = knobs + explicit block tree recipes + explicit operation list.
//! Generation draws everything from one seed; execution is a pure function of the scenario.
use crate::model::{Cfg, Recipe, World, SHANNONS};
use serde::{Deserialize, Serialize};
use simcore::Rng;

#[derive(Clone, Debug, Serialize, Deserialize)]
pub struct TreeOp {
    pub parent: usize,
    pub recipe: Recipe,
}

#[derive(Clone, Debug, Serialize, Deserialize, PartialEq)]
#[serde(tag = "op")]
pub enum Op {
    /// hand block #b to the insert stage
    Deliver { b: usize },
    /// run the preload stage on its next queued block
    StepPreload,
    /// run the verify stage on its next queued block
    StepVerify,
    /// fire the orphan-cleaner tick now
    Clean,
    /// run all stages until every queue is empty
    Drain,
    /// take a snapshot now; it is checked against the model at the end of the run. At capture the
    /// snapshot is also asked for every block of the scenario by hash (blocks it cannot know yet
    /// included, as an RPC client may do); its answers must never change afterwards
    Snapshot,
    /// ask every captured snapshot the same questions again (the chain has moved on; the read
    /// caches are shared between all snapshots and the live store)
    StaleRead,
    /// advance the simulated clock
    Clock { ms: u64 },
    /// clean shutdown and restart (new process on the same directories)
    Restart,
    /// the process dies at its `write`-th durable write from now (before or after it); then restart
    /// With `site` (a ckb-freezer fail point: "write-head", "write-index") the process dies at the
    /// `write`-th hit of that site instead; `torn` additionally loses a seeded part of what the
    /// freezer files gained since the start of the interrupted pass (nothing was fsynced yet).
    Crash {
        write: u64,
        after: bool,
        #[serde(default, skip_serializing_if = "Option::is_none")]
        site: Option<String>,
        #[serde(default, skip_serializing_if = "std::ops::Not::not")]
        torn: bool,
    },
    /// truncate the main chain back to block #b (must be on the main chain)
    Truncate { b: usize },
    /// one freezer pass
    Freeze,
    /// one pass of the block-filter builder (it may lag behind the chain by any number of blocks and reorgs)
    FilterBuild,
    /// one pass of the block-filter builder during which the chain moves on: right before the
    /// builder handles the (`after`+1)-th block of the pass, the operations `inner` (deliveries and
    /// stage steps) are executed. The builder works on the snapshot it took at the start of the pass.
    FilterBuildRacing { after: usize, inner: Vec<Op> },
}

#[derive(Clone, Debug, Serialize, Deserialize)]
pub struct Scenario {
    pub engine: String,
    pub prop: String,
    pub seed: u64,
    pub cfg: Cfg,
    pub tree: Vec<TreeOp>,
    pub ops: Vec<Op>,
    #[serde(default)]
    pub freezer: bool,
    /// the freezer's per-pass limit (30 000 blocks in a shipped node) as a knob, so that short chains
    /// reach it: a pass moves at most this many blocks, the next pass goes on where it stopped
    #[serde(default, skip_serializing_if = "Option::is_none")]
    pub freeze_limit: Option<u64>,
    /// store read-cache sizes: [headers, cell_data, proposals, tx_hashes, uncles, extensions];
    /// None = the shipped defaults
    #[serde(default)]
    pub store_caches: Option<[usize; 6]>,
    /// clear the transaction verification cache before every verify step (cold twin)
    #[serde(default)]
    pub verify_cache_cold: bool,
    /// the first N first-time deliveries are handed over with Switch::DISABLE_SCRIPT, as the node
    /// does for blocks before its assume-valid target during initial sync
    #[serde(default)]
    pub assume_valid_first: usize,
    /// every delivery first passes the header stage exactly as the miner RPC `submit_block` runs it
    /// (HeaderVerifier on the current snapshot, parent must be stored); a refused block is not handed
    /// to the chain service
    #[serde(default)]
    pub header_stage: bool,
    /// which header check the header stage runs: 0 = the miner RPC `submit_block` (HeaderVerifier on
    /// the current snapshot), 1 = the peers' headers-first path (a `SendHeaders` message from a
    /// simulated peer handled by the real `Synchronizer` over a real `SyncShared`), 2 = the
    /// compact-block relay path (a `CompactBlock` message handled by the real `Relayer` over the
    /// same `SyncShared`; what the relay does not take goes the headers-first way)
    #[serde(default, skip_serializing_if = "is_zero_u8")]
    pub header_path: u8,
    /// how the simulated peer announces (header_path 1): 0 = one header per message, a header whose
    /// parent it has not announced yet is held back; 1 = one message with the header preceded by
    /// its not yet announced ancestors, in order; 2 = either, chosen per delivery; 3 = one header
    /// per message, as they come (orphan announcements are sent)
    #[serde(default, skip_serializing_if = "is_zero_u8")]
    pub peer_style: u8,
    /// header_path 1: report (instead of counting) a header that stays marked invalid because it
    /// was once announced before its parent
    #[serde(default, skip_serializing_if = "std::ops::Not::not")]
    pub peer_strict_orphan: bool,
    /// header_path 1: these blocks are mined locally instead (they take the `submit_block` header
    /// check and go to the chain service without any announcement). Never generated; used by
    /// hand-written scenarios about the two paths running side by side.
    #[serde(default, skip_serializing_if = "Vec::is_empty")]
    pub miner_blocks: Vec<usize>,
}

fn is_zero_u8(x: &u8) -> bool {
    *x == 0
}

pub fn gen_cfg(r: &mut Rng) -> Cfg {
    let mut c = Cfg::default_small();
    c.w_close = r.range(1, 3);
    c.w_far = c.w_close + r.range(1, 8);
    c.median_count = *r.pick(&[1usize, 3, 5, 11, 37]);
    c.genesis_epoch_len = *r.pick(&[2u64, 3, 4, 6, 8, 12]);
    c.permanent_difficulty = r.chance(1, 4);
    c.epoch_duration_target = if c.permanent_difficulty {
        *r.pick(&[16u64, 24, 40, 64, 100])
    } else {
        c.genesis_epoch_len * *r.pick(&[4u64, 8, 8, 16])
    };
    c.halving_interval = r.range(2, 4);
    c.primary_epoch_reward = *r.pick(&[1_917_808_21917808u64, 1_000_000_00000007, 777_777_77777777]);
    c.secondary_epoch_reward = *r.pick(&[613_698_63013698u64, 100_000_00000003]);
    let n = r.urange(6, 16);
    c.genesis_cells = (0..n).map(|_| r.range(2_000, 60_000) * SHANNONS + r.range(0, 99_999)).collect();
    c.genesis_compact = *r.pick(&[0x2001_0000u32, 0x2000_8000, 0x1f40_0000]);
    c
}

pub fn gen_recipe(r: &mut Rng, uniq: u64, rich: bool) -> Recipe {
    let ts_delta = match r.below(10) {
        0 => 1,
        1 => r.range(1, 999),
        2 => r.range(60_000, 600_000),
        _ => r.range(1_000, 20_000),
    };
    Recipe {
        ts_delta,
        miner: if r.chance(1, 12) { 250 } else { r.below(4) as u8 },
        new_txs: if rich { r.urange(0, 3) } else { 0 },
        propose: if rich { r.urange(0, 4) } else { 0 },
        commit: if rich { r.urange(0, 4) } else { 0 },
        uncles: if r.chance(1, 4) { r.urange(1, 2) } else { 0 },
        ext_extra: *r.pick(&[0usize, 0, 0, 5, 64]),
        seed: (uniq << 20) | r.below(1 << 20),
        mutation: None,
        plant: Vec::new(),
        ts_mode: None,
        fill: None,
    }
}

/// a block without random content, carrying explicit gadget directives
pub fn plain_recipe(seed: u64, plant: &[String]) -> Recipe {
    Recipe { ts_delta: 2_000 + seed % 3_000, miner: (seed % 4) as u8, seed, plant: plant.to_vec(), ..Default::default() }
}

/// (number, on a valid chain) for genesis + every tree block
pub fn tree_numbers(tree: &[TreeOp]) -> (Vec<u64>, Vec<bool>) {
    let mut number = vec![0u64];
    let mut valid = vec![true];
    for t in tree {
        number.push(number[t.parent] + 1);
        valid.push(valid[t.parent] && t.recipe.mutation.is_none());
    }
    (number, valid)
}

pub const MUTATIONS: &[&str] = &[
    "dao_c", "dao_u", "dao_ar", "dao_s", "target", "epoch_index", "epoch_length",
    "reward_plus_one", "reward_minus_one", "reward_lock", "cellbase_extra_output_early",
    "no_extension", "bad_chain_root", "short_extension",
    "uncle_sibling", "uncle_duplicate", "uncle_double_inclusion", "commit_unproposed",
    "uncle_unknown_parent", "commit_immature_since",
];

/// more single-rule mutants, used by C03 only (the other properties keep their seed -> scenario mapping)
pub const MUTATIONS_C03: &[&str] = &[
    "tx_root", "proposals_hash", "extra_hash", "witness_root_only",
    "two_cellbases", "cellbase_not_first", "cellbase_two_outputs", "cellbase_output_data", "cellbase_type_script",
    "cellbase_input_since", "cellbase_witness_garbage", "cellbase_no_witness", "dup_tx",
    "uncle_too_many", "uncle_other_epoch", "uncle_pow_invalid", "commit_bad_tx",
    "proposals_duplicate", "uncle_proposal_duplicate", "uncle_proposals_hash", "uncle_bad_target", "extension_too_long",
];

/// rules about the consensus limits (block bytes, block cycles, proposals per block and per uncle):
/// generated in runs whose consensus has limits small enough for blocks to reach them
pub const MUTATIONS_LIMITS: &[&str] = &["block_bytes_over", "block_cycles_over", "proposals_over_limit", "uncle_proposals_over_limit"];

/// rules that only the header stage checks: generated only when deliveries pass through it
pub const MUTATIONS_HEADER: &[&str] = &["hdr_ts_median", "hdr_number", "hdr_epoch_malformed", "hdr_pow"];

/// Random block tree. Needs a World to know the shape only (parents by index): the tree is
/// described by parent indexes, so generation does not need to build blocks — except to choose
/// parents biased to "the current best tip", for which block numbers suffice.
pub fn gen_tree(r: &mut Rng, n: usize, rich: bool, invalid: usize) -> Vec<TreeOp> {
    gen_tree_with(r, n, rich, invalid, MUTATIONS)
}

pub fn gen_tree_with(r: &mut Rng, n: usize, rich: bool, invalid: usize, muts: &[&str]) -> Vec<TreeOp> {
    let mut parents: Vec<usize> = vec![]; // parents[i] = parent of block i+1
    let mut number: Vec<u64> = vec![0];
    let mut valid: Vec<bool> = vec![true];
    let mut tree = Vec::new();
    let fork_rate = *r.pick(&[10u64, 20, 35, 50]);
    let mut invalid_left = invalid;
    // "race" shape: a few long competing branches extended in turn, so that the tip flips back
    // and forth across deep fork points (and across epoch boundaries)
    let race = r.chance(2, 5);
    let mut active: Vec<usize> = vec![0];
    for i in 0..n {
        if race {
            if active.len() < 3 && r.chance(1, 6) {
                // fork off a block a few steps below one of the active tips
                let mut b = *r.pick(&active);
                for _ in 0..r.urange(0, 6) {
                    if b == 0 {
                        break;
                    }
                    b = parents[b - 1];
                }
                active.push(b);
            }
            let a = r.idx(active.len());
            let parent = active[a];
            parents.push(parent);
            number.push(number[parent] + 1);
            let mut recipe = gen_recipe(r, i as u64 + 1, rich);
            let mut ok = valid[parent];
            if invalid_left > 0 && i > 1 && r.chance(1, (n as u64 / (invalid as u64 + 1)).max(2)) {
                recipe.mutation = Some(r.pick(muts).to_string());
                invalid_left -= 1;
                ok = false;
            }
            valid.push(ok);
            tree.push(TreeOp { parent, recipe });
            active[a] = number.len() - 1;
            continue;
        }
        // valid tips, best first
        let mut vt: Vec<usize> = (0..number.len()).filter(|k| valid[*k]).collect();
        vt.sort_by_key(|k| (u64::MAX - number[*k], *k));
        let best = vt[0];
        let parent = if r.below(100) >= fork_rate {
            best
        } else {
            match r.below(6) {
                0 => r.idx(number.len()),
                1 => {
                    let lo = number.len().saturating_sub(6);
                    r.urange(lo, number.len() - 1)
                }
                2 => {
                    // sibling of the best tip
                    if best == 0 { 0 } else { parents[best - 1] }
                }
                3 => {
                    // extend a block of an invalid chain, if any
                    let inv: Vec<usize> = (0..number.len()).filter(|k| !valid[*k]).collect();
                    if inv.is_empty() { best } else { *r.pick(&inv) }
                }
                _ => {
                    // one of the runner-up valid blocks near the top: competing branches
                    let k = r.idx(vt.len().min(4));
                    vt[k]
                }
            }
        };
        parents.push(parent);
        number.push(number[parent] + 1);
        let mut recipe = gen_recipe(r, i as u64 + 1, rich);
        let mut ok = valid[parent];
        if invalid_left > 0 && i > 1 && r.chance(1, (n as u64 / (invalid as u64 + 1)).max(2)) {
            recipe.mutation = Some(r.pick(muts).to_string());
            invalid_left -= 1;
            ok = false;
        }
        valid.push(ok);
        tree.push(TreeOp { parent, recipe });
    }
    tree
}

pub fn build_world(sc: &Scenario) -> World {
    let mut w = World::new(sc.cfg.clone());
    w.assume_valid = sc.assume_valid_first > 0;
    for t in &sc.tree {
        let idx = w.build_child(t.parent, &t.recipe);
        debug_assert_eq!(idx, w.blocks.len() - 1);
    }
    w
}

/// Delivery schedule: a permutation of the blocks (with duplicates) interleaved with stage steps.
pub fn gen_ops(r: &mut Rng, nblocks: usize, allow_clean: bool, snapshots: bool) -> Vec<Op> {
    let mut order: Vec<usize> = (1..=nblocks).collect();
    match r.below(5) {
        0 => {}                       // in generation order (parents first)
        1 => r.shuffle(&mut order),   // any order
        2 => order.reverse(),         // children first
        _ => {
            // mostly in order with local displacement
            let w = r.urange(2, 8);
            for i in 0..order.len() {
                let j = (i + r.idx(w)).min(order.len() - 1);
                order.swap(i, j);
            }
        }
    }
    let dup = r.range(0, 30);
    let eager = r.range(0, 100); // how eagerly the later stages run
    let mut ops = Vec::new();
    for b in order {
        ops.push(Op::Deliver { b });
        if r.below(100) < dup {
            ops.push(Op::Deliver { b: r.urange(1, nblocks) });
        }
        let k = r.urange(0, 3);
        for _ in 0..k {
            if r.below(100) < eager {
                ops.push(if r.chance(1, 2) { Op::StepPreload } else { Op::StepVerify });
            }
        }
        if allow_clean && r.chance(1, 25) {
            ops.push(Op::Clean);
        }
        if snapshots && r.chance(1, 6) {
            ops.push(Op::Snapshot);
        }
        if r.chance(1, 15) {
            ops.push(Op::Drain);
        }
    }
    ops
}

/// C07: long epochs with the real difficulty adjustment; miners stamp blocks from a clock with
/// skew, stalls and jumps, uncles at varying rates.
pub fn generate_c07(seed: u64) -> Scenario {
    let mut r = Rng::new(seed ^ 0xC07_0000);
    let mut cfg = Cfg::default_small();
    cfg.genesis_epoch_len = *r.pick(&[300u64, 350, 500, 800, 1000, 1800]);
    cfg.epoch_duration_target = *r.pick(&[14_400u64, 14_400, 3_600, 28_800]);
    cfg.permanent_difficulty = false;
    cfg.halving_interval = r.range(1, 3);
    cfg.median_count = *r.pick(&[11usize, 37]);
    cfg.orphan_rate_target = *r.pick(&[(1u32, 40u32), (1, 20), (1, 10)]);
    cfg.primary_epoch_reward = *r.pick(&[1_917_808_21917808u64, 1_000_000_00000007, 777_777_77777777]);
    cfg.secondary_epoch_reward = *r.pick(&[613_698_63013698u64, 100_000_00000003]);
    cfg.genesis_compact = *r.pick(&[0x2001_0000u32, 0x1f40_0000, 0x1e01_5555, 0x1d00_ffff]);
    cfg.genesis_cells = vec![10_000 * SHANNONS; 4];
    let budget = r.urange(cfg.genesis_epoch_len as usize + 40, (cfg.genesis_epoch_len as usize * 3 + 500).min(4300));
    let mut tree: Vec<TreeOp> = Vec::new();
    let mut ops: Vec<Op> = Vec::new();
    let mut main_tip = 0usize; // block idx of the main tip
    let mut main_parent = 0usize;
    let mut uniq = 1u64;
    let mut regime = 8_000u64;
    let mut uncle_rate = 0u64; // per 1000 blocks
    let mut made = 0usize;
    while made < budget {
        if made % (cfg.genesis_epoch_len as usize) == 0 || r.chance(1, 2000) {
            // the miners' clock regime changes about once per epoch: mostly around the ideal pace
            // (so that the unclamped branch of the formula runs), sometimes stalls, bursts, jumps
            let ideal_ms = cfg.epoch_duration_target * 1000 / cfg.genesis_epoch_len;
            regime = match r.below(10) {
                0 => 1,
                1 => *r.pick(&[900u64, 600_000, 3_600_000]),
                _ => (ideal_ms * *r.pick(&[30u64, 55, 80, 95, 100, 110, 130, 180, 250]) / 100).max(1),
            };
            uncle_rate = *r.pick(&[0u64, 5, 15, 25, 25, 40, 80, 200]);
        }
        let want_uncle = main_tip != 0 && r.below(1000) < uncle_rate;
        let mut pending_uncle = false;
        if want_uncle {
            // a sibling of the current main tip: candidate uncle for the next main block
            let mut rec = gen_recipe(&mut r, uniq, false);
            uniq += 1;
            rec.uncles = 0;
            rec.ts_delta = regime.max(1);
            tree.push(TreeOp { parent: main_parent, recipe: rec });
            made += 1;
            pending_uncle = true;
        }
        let mut rec = gen_recipe(&mut r, uniq, false);
        uniq += 1;
        rec.ts_delta = if r.chance(1, 3000) { *r.pick(&[1u64, 3_600_000, 86_400_000]) } else { (regime / 2 + r.below(regime + 1)).max(1) };
        rec.uncles = if pending_uncle { 2 } else { 0 };
        rec.ext_extra = 0;
        tree.push(TreeOp { parent: main_tip, recipe: rec });
        made += 1;
        main_parent = main_tip;
        main_tip = tree.len(); // block idx = position in tree + 1
        ops.push(Op::Deliver { b: main_tip });
        if ops.len() % 60 == 0 {
            ops.push(Op::Drain);
        }
    }
    Scenario {
        engine: "simnode".into(),
        prop: "C07".into(),
        seed,
        cfg,
        tree,
        ops,
        freezer: false,
        freeze_limit: None,
        store_caches: None,
        verify_cache_cold: false,
        assume_valid_first: 0,
        header_stage: false,
        header_path: 0,
        peer_style: 0,
        peer_strict_orphan: false,
        miner_blocks: Vec::new(),
    }
}

pub fn generate(seed: u64, prop: &str) -> Scenario {
    if prop == "C07" {
        if seed % 5 >= 2 {
            // proof of work: short pipeline runs with a real engine; nonces mined by the model,
            // mutants whose only flaw is a nonce that misses the target (block and uncle)
            let mut sc = generate(seed, "C07P");
            sc.prop = "C07".into();
            return sc;
        }
        return generate_c07(seed);
    }
    let pow_only = prop == "C07P";
    let prop = if pow_only { "C03" } else { prop };
    // C10L: the C10 family with main chains longer than 256 blocks (heights whose little-endian key
    // bytes no longer sort like the numbers), constant toy epochs
    let long10 = prop == "C10L";
    let prop = if long10 { "C10" } else { prop };
    let mut r = Rng::new(seed ^ 0x51D0_0000);
    let mut cfg = gen_cfg(&mut r);
    if prop == "C14" {
        cfg.wlock_cells = r.urange(2, 6);
    }
    if prop == "C10" {
        // tiny genesis epoch with the real adjustment and no uncles: epochs double (2,4,8,16...),
        // so a 40-90 block chain reaches the third epoch and the freezer has work to do
        // (2 of 3 runs: constant toy epochs of 2-6 blocks, uncles allowed, so that most of the
        // chain ends up in the freezer)
        if r.chance(2, 3) {
            cfg.genesis_epoch_len = *r.pick(&[2u64, 3, 4, 5, 6]);
            cfg.permanent_difficulty = true;
            cfg.epoch_duration_target = cfg.genesis_epoch_len * 8;
        } else {
            cfg.genesis_epoch_len = *r.pick(&[2u64, 3, 4]);
            cfg.permanent_difficulty = false;
            cfg.epoch_duration_target = cfg.genesis_epoch_len * 8;
        }
    }
    if long10 {
        cfg.genesis_epoch_len = *r.pick(&[4u64, 5, 6]);
        cfg.permanent_difficulty = true;
        cfg.epoch_duration_target = cfg.genesis_epoch_len * 8;
    }
    let n = if long10 { r.urange(270, 420) } else if prop == "C08" { r.urange(6, 24) } else if prop == "C10" { r.urange(30, 90) } else if prop == "C04" { r.urange(25, 70) } else { r.urange(8, 60) };
    let rich = prop != "C01" || r.chance(1, 2);
    let invalid = match prop {
        "C01" | "C03" => r.urange(0, 3),
        "C08" => r.urange(0, 2),
        "C14" => r.urange(0, 3),
        "C06" | "C19" => r.urange(0, 2),
        _ => if r.chance(1, 4) { 1 } else { 0 },
    };
    // C03: the whole pipeline "header check, then chain service" in three runs out of five; real
    // proof of work (nonces mined by the model) in half of the runs
    let mut header_stage = false;
    // C03: in half of the header-stage runs the header check is the peers' (headers-first sync)
    let mut header_path = 0u8;
    let mut peer_style = 0u8;
    let mut peer_ibd_ms = 0u64;
    let mut tree = if prop == "C04" {
        // chain-mode part of C04: transactions that break one rule of their own (capacity, occupied
        // size, NervosDAO maximum withdraw), or whose time lock / proposal is missing, committed by
        // blocks anywhere in a tree with reorganisations
        cfg.bad_twins = true;
        let muts = ["commit_bad_tx", "commit_bad_tx", "commit_bad_tx", "commit_immature_since", "commit_unproposed"];
        let mut r4 = Rng::new(seed ^ 0xC04_BAD);
        let inv = r4.urange(1, 3);
        let mut t = gen_tree_with(&mut r, n, true, inv, &muts);
        for x in t.iter_mut() {
            x.recipe.new_txs = x.recipe.new_txs.max(1);
            x.recipe.propose = x.recipe.propose.max(2);
            if x.recipe.mutation.is_none() && r4.chance(1, 2) {
                // candidates linger: the rule-breaking twin may still find its inputs live
                x.recipe.commit = x.recipe.commit.min(1);
            }
        }
        t
    } else if prop == "C03" {
        cfg.bad_twins = true;
        let mut r3 = Rng::new(seed ^ 0xC03_4EAD);
        header_stage = r3.chance(3, 5) || pow_only;
        if r3.chance(1, 2) || pow_only {
            cfg.pow = r3.range(1, 2) as u8;
            cfg.permanent_difficulty = false;
        }
        let mut muts: Vec<&str> = MUTATIONS.to_vec();
        muts.extend_from_slice(MUTATIONS_C03);
        muts.extend_from_slice(MUTATIONS_C03);
        if header_stage {
            for _ in 0..3 {
                muts.extend_from_slice(MUTATIONS_HEADER);
            }
        }
        if header_stage && !pow_only {
            // its own generator: no draw sequence of any other run moves
            let mut rp = Rng::new(seed ^ 0xC03_9EE2);
            if rp.chance(1, 2) {
                header_path = 1;
                peer_style = rp.below(4) as u8;
                // the peers' path is about headers: more of the trees carry a broken header
                for _ in 0..10 {
                    muts.extend_from_slice(MUTATIONS_HEADER);
                }
                // one run in six: the node's clock is more than a day ahead of every block, so
                // the whole run happens in "initial block download"
                if rp.chance(1, 6) {
                    peer_ibd_ms = 25 * 3_600_000 + rp.range(0, 3_600_000);
                } else if rp.chance(1, 3) {
                    // the compact-block relay path (a node in initial block download ignores it)
                    header_path = 2;
                }
            }
        }
        if pow_only {
            muts = vec!["hdr_pow", "hdr_pow", "uncle_pow_invalid", "target"];
        }
        // two runs out of five have consensus limits that ordinary blocks reach: valid blocks are
        // filled up to a limit exactly, mutants pass it by one byte / one id / one transaction
        let mut rl = Rng::new(seed ^ 0xC03_11A1);
        let limits = !pow_only && rich && rl.chance(2, 5);
        if limits {
            cfg.max_block_proposals = rl.range(1, 4);
            cfg.max_block_bytes = *rl.pick(&[1_600u64, 2_200, 3_000, 5_000]);
            cfg.max_block_cycles = crate::model::COST_ALWAYS_SUCCESS_VM0 * rl.range(1, 6);
            for _ in 0..(muts.len() / 6).max(2) {
                muts.extend_from_slice(MUTATIONS_LIMITS);
            }
        }
        let invalid = if pow_only { invalid.max(1) } else if limits { invalid.max(1) } else { invalid };
        let invalid = if header_path == 1 { invalid + 1 } else { invalid };
        let mut t = gen_tree_with(&mut r, n, rich, invalid, &muts);
        if limits {
            for x in t.iter_mut() {
                x.recipe.commit = x.recipe.commit.max(rl.urange(1, 4));
                x.recipe.propose = x.recipe.propose.max(rl.urange(1, 4));
                x.recipe.new_txs = x.recipe.new_txs.max(1);
                if x.recipe.mutation.is_none() {
                    match rl.below(6) {
                        0 => x.recipe.fill = Some("bytes".into()),
                        1 => x.recipe.fill = Some("proposals".into()),
                        _ => {}
                    }
                }
            }
        }
        for x in t.iter_mut() {
            if x.recipe.mutation.is_none() && r3.chance(1, 10) {
                x.recipe.ts_mode = Some("median_plus_one".into());
            }
            if matches!(x.recipe.mutation.as_deref(), Some("uncle_too_many" | "uncle_other_epoch" | "uncle_pow_invalid" | "uncle_proposals_over_limit" | "uncle_proposal_duplicate" | "uncle_proposals_hash" | "uncle_bad_target")) {
                x.recipe.uncles = 0;
            }
        }
        if header_stage {
            // leaves stamped relative to the node's clock: exactly at the bound (valid), one ms beyond it
            let (number, valid) = tree_numbers(&t);
            for _ in 0..r3.urange(0, 3) {
                let best = (0..number.len()).filter(|i| valid[*i]).max_by_key(|i| (number[*i], *i)).unwrap_or(0);
                let parent = if r3.chance(2, 3) { best } else { r3.idx(number.len()) };
                let mut rec = gen_recipe(&mut r3, 7_000 + t.len() as u64, false);
                rec.uncles = 0;
                rec.ts_mode = Some(if r3.chance(1, 2) { "future_bound" } else { "future_over" }.into());
                t.push(TreeOp { parent, recipe: rec });
            }
        }
        t
    } else {
        gen_tree(&mut r, n, rich, invalid)
    };
    if prop == "C06" {
        // a third of the broken blocks commit a transaction that overdraws (capacity / NervosDAO maximum withdraw)
        cfg.bad_twins = true;
        let mut r6 = Rng::new(seed ^ 0xC06_BAD);
        for t in tree.iter_mut() {
            if t.recipe.mutation.is_some() && r6.chance(1, 3) {
                t.recipe.mutation = Some("commit_bad_tx".into());
            }
        }
    }
    if prop == "C14" {
        // most of the broken blocks carry the same transaction content with a failing witness
        for t in tree.iter_mut() {
            if t.recipe.mutation.is_some() && r.chance(2, 3) {
                // mutants whose verdict a cache could change: same tx hash with a failing witness, a
                // time lock that was satisfied where the transaction was verified before, an uncle
                // whose parent was an included uncle on another branch
                t.recipe.mutation = Some(r.pick(&["witness_swap", "witness_swap", "commit_immature_since", "uncle_unknown_parent"]).to_string());
                if t.recipe.mutation.as_deref() == Some("uncle_unknown_parent") {
                    t.recipe.uncles = t.recipe.uncles.max(1);
                }
            }
            t.recipe.new_txs = t.recipe.new_txs.max(1);
            t.recipe.commit = t.recipe.commit.max(2);
            t.recipe.propose = t.recipe.propose.max(2);
        }
    }
    if prop == "C10" {
        for t in tree.iter_mut() {
            if !cfg.permanent_difficulty {
                t.recipe.uncles = 0;
            }
            t.recipe.ts_delta = t.recipe.ts_delta.min(20_000);
        }
    }
    if prop == "C14" {
        // failing-witness twins: right after a valid block X an (otherwise identical) sibling X'
        // commits the same transactions with witness 0 swapped, and a child on top of X' makes
        // that branch heavier, so that X' gets verified after X's transactions were cached
        let k = r.urange(1, 3);
        let mut twinned: Vec<u64> = Vec::new();
        for _ in 0..k {
            let i = r.idx(tree.len()); // 0-based position; block index = i + 1
            if tree[i].recipe.mutation.is_some() || twinned.contains(&tree[i].recipe.seed) || tree[i].recipe.seed >> 20 >= 9_000 {
                continue;
            }
            twinned.push(tree[i].recipe.seed);
            let mut twin = tree[i].clone();
            twin.recipe.miner = (twin.recipe.miner + 1) % 4;
            twin.recipe.mutation = Some("witness_swap".into());
            let mut child = TreeOp { parent: i + 2, recipe: gen_recipe(&mut r, 9_000 + i as u64, false) };
            child.recipe.uncles = 0;
            for t in tree.iter_mut().skip(i + 1) {
                if t.parent > i + 1 {
                    t.parent += 2;
                }
            }
            tree.insert(i + 1, twin);
            tree.insert(i + 2, child);
        }
    }
    if prop == "C14" {
        // planted gadgets on top of the highest valid block P: a verdict that a cache could change
        let (number, valid) = tree_numbers(&tree);
        let p = (0..number.len()).filter(|i| valid[*i]).max_by_key(|i| (number[*i], *i)).unwrap_or(0);
        let base = 0x6ad6_0000_0000u64 ^ (seed << 8);
        let mut push = |tree: &mut Vec<TreeOp>, parent: usize, k: u64, plant: &[String]| -> usize {
            tree.push(TreeOp { parent, recipe: plain_recipe(base + k, plant) });
            tree.len() // index of the new block in the world (genesis = 0)
        };
        match r.below(3) {
            0 => {
                // time-lock gadget: T is locked until S; branch A commits it at S (valid, so its
                // verification result is cached), the later and longer branch B commits it at S-1
                let wc = cfg.w_close;
                if cfg.w_far > wc {
                    let g1 = push(&mut tree, p, 1, &[format!("tx_since:g:{}", wc + 1), "propose:g".to_string()]);
                    let mut a = g1;
                    for j in 0..=wc {
                        let plant = if j == wc { vec!["commit:g".to_string()] } else { vec![] };
                        a = push(&mut tree, a, 10 + j, &plant);
                    }
                    let mut b = g1;
                    for j in 0..wc {
                        let plant = if j + 1 == wc { vec!["commit_immature:g".to_string()] } else { vec![] };
                        b = push(&mut tree, b, 30 + j, &plant);
                    }
                    for j in 0..2 {
                        b = push(&mut tree, b, 50 + j, &[]);
                    }
                }
            }
            1 => {
                // uncle gadget: X and its child Y are embedded as uncles on branch A (Y is legal there
                // because its parent X is an included uncle); branch B embeds Y without X
                let x = push(&mut tree, p, 101, &[]);
                let y = push(&mut tree, x, 102, &[]);
                let a1 = push(&mut tree, p, 103, &[]);
                let a2 = push(&mut tree, a1, 104, &[format!("uncle_ok:{x}")]);
                let _a3 = push(&mut tree, a2, 105, &[format!("uncle_ok:{y}")]);
                let b1 = push(&mut tree, p, 106, &[]);
                let b2 = push(&mut tree, b1, 107, &[]);
                let b3 = push(&mut tree, b2, 108, &[format!("uncle_bad:{y}")]);
                let b4 = push(&mut tree, b3, 109, &[]);
                let _b5 = push(&mut tree, b4, 110, &[]);
            }
            _ => {}
        }
    }
    let n = tree.len();
    let mut ops = if prop == "C14" {
        // twins must not depend on hash-map iteration order (the number of RandomState instances
        // differs with the cache configuration): deliver parents before children, so that no
        // orphan subtree is ever released in hash order; duplicates only of delivered blocks
        let mut ops = Vec::new();
        let eager = r.range(0, 100);
        for b in 1..=n {
            ops.push(Op::Deliver { b });
            if tree[b - 1].recipe.mutation.as_deref() == Some("witness_swap")
                || (b >= 2 && tree[b - 2].recipe.mutation.as_deref() == Some("witness_swap"))
                || (b < n && tree[b].recipe.mutation.as_deref() == Some("witness_swap"))
            {
                ops.push(Op::Drain);
            }
            if r.chance(1, 5) {
                ops.push(Op::Deliver { b: r.urange(1, b) });
            }
            for _ in 0..r.urange(0, 3) {
                if r.below(100) < eager {
                    ops.push(if r.chance(1, 2) { Op::StepPreload } else { Op::StepVerify });
                }
            }
            if r.chance(1, 12) {
                ops.push(Op::Drain);
            }
        }
        ops
    } else if header_stage {
        // the miner path refuses a block whose parent is not stored: mostly parents first
        let mut ops = Vec::new();
        let eager = r.range(30, 100);
        let w = r.urange(1, 3);
        let mut order: Vec<usize> = (1..=n).collect();
        for i in 0..order.len() {
            let j = (i + r.idx(w)).min(order.len() - 1);
            order.swap(i, j);
        }
        for b in order {
            ops.push(Op::Deliver { b });
            if r.chance(1, 8) {
                ops.push(Op::Deliver { b: r.urange(1, n) });
            }
            for _ in 0..r.urange(0, 3) {
                if r.below(100) < eager {
                    ops.push(if r.chance(1, 2) { Op::StepPreload } else { Op::StepVerify });
                }
            }
            if r.chance(1, 6) {
                ops.push(Op::Drain);
            }
        }
        // blocks refused for want of a stored parent are offered again at the end
        ops.push(Op::Drain);
        for b in 1..=n {
            ops.push(Op::Deliver { b });
            if r.chance(1, 3) {
                ops.push(Op::Drain);
            }
        }
        if r.chance(1, 3) {
            // the clock moves on: what was too far in the future is acceptable now
            ops.push(Op::Clock { ms: r.range(1, 3) });
            ops.push(Op::Drain);
            for b in 1..=n {
                ops.push(Op::Deliver { b });
            }
        }
        ops
    } else {
        gen_ops(&mut r, n, true, prop == "C02")
    };
    if prop == "C02" || prop == "C14" {
        // snapshot readers that come back later: a reader captured at an arbitrary point asks again
        // after the chain has moved on
        let mut rs = Rng::new(seed ^ 0x57A1_E4EA);
        if rs.chance(2, 3) {
            for _ in 0..rs.urange(1, 3) {
                let at = rs.idx(ops.len() + 1);
                ops.insert(at, Op::Snapshot);
                let later = at + 1 + rs.idx(ops.len() - at);
                ops.insert(later.min(ops.len()), Op::StaleRead);
            }
        }
    }
    if peer_ibd_ms > 0 {
        ops.insert(0, Op::Clock { ms: peer_ibd_ms });
    }
    if prop == "C10" {
        // freeze passes at arbitrary points, a few clean restarts
        let k = r.urange(3, 12);
        for _ in 0..k {
            let at = r.idx(ops.len() + 1);
            ops.insert(at, Op::Freeze);
        }
        ops.push(Op::Drain);
        ops.push(Op::Freeze);
        for _ in 0..r.urange(0, 2) {
            let at = r.idx(ops.len() + 1);
            ops.insert(at, Op::Restart);
        }
    }
    if prop == "C19" {
        // the filter builder runs at arbitrary moments, lagging behind by blocks and reorganisations;
        // some runs restart in between (the builder resumes from the stored "latest built" mark)
        let k = r.urange(1, 8);
        for _ in 0..k {
            let at = r.idx(ops.len() + 1);
            ops.insert(at, Op::FilterBuild);
        }
        // in half of the runs some stretches of the history happen in the MIDDLE of a builder pass
        let mut rr = Rng::new(seed ^ 0xC19_4ACE);
        if rr.chance(1, 2) {
            for _ in 0..rr.urange(1, 4) {
                if ops.len() < 4 {
                    break;
                }
                let at = rr.idx(ops.len() - 1);
                let mut inner = Vec::new();
                let want = rr.urange(2, 14);
                while inner.len() < want && at < ops.len() && matches!(ops[at], Op::Deliver { .. } | Op::StepPreload | Op::StepVerify | Op::Drain) {
                    inner.push(ops.remove(at));
                }
                if !inner.is_empty() {
                    ops.insert(at, Op::FilterBuildRacing { after: rr.urange(0, 8), inner });
                }
            }
        }
        ops.push(Op::Drain);
        ops.push(Op::FilterBuild);
        if r.chance(1, 3) {
            let at = r.idx(ops.len() + 1);
            ops.insert(at, Op::Restart);
        }
    }
    if prop == "C20" && Rng::new(seed ^ 0xC20_5407).chance(1, 4) {
        // planted shape: a long slow chain A (its second epoch gets half the difficulty) and a fast
        // branch B that leaves A inside the genesis epoch (its second epoch gets twice the
        // difficulty): B outweighs A while still being SHORTER, the fork point lies inside A's
        // pruned proposal window, and the window of B's tip re-opens blocks that A's tip had left
        let mut r2 = Rng::new(seed ^ 0xC20_5408);
        cfg.genesis_epoch_len = *r2.pick(&[6u64, 8, 10]);
        cfg.permanent_difficulty = false;
        cfg.epoch_duration_target = cfg.genesis_epoch_len * 8;
        cfg.w_close = r2.range(1, 3);
        cfg.w_far = r2.range(8, 11);
        let l = cfg.genesis_epoch_len as usize;
        let t = l + r2.urange(4, 7);
        let f = l - r2.urange(1, 3);
        cfg.w_far = cfg.w_far.max((t - f) as u64 + 1).min(11);
        tree.clear();
        // A is fast up to the fork point and very slow from there to the end of the genesis epoch
        let slow = cfg.epoch_duration_target * 1000 * 2;
        for i in 0..t {
            let mut rec = gen_recipe(&mut r2, i as u64 + 1, true);
            rec.ts_delta = if i < f { 1 + r2.range(0, 3) } else { slow + r2.range(0, 999) };
            rec.uncles = 0;
            rec.new_txs = rec.new_txs.max(1);
            rec.propose = rec.propose.max(2);
            tree.push(TreeOp { parent: i, recipe: rec });
        }
        let nb = t - f;
        for j in 0..nb {
            let mut rec = gen_recipe(&mut r2, 500 + j as u64, true);
            rec.ts_delta = 1 + r2.range(0, 3);
            rec.uncles = 0;
            rec.propose = rec.propose.max(1);
            tree.push(TreeOp { parent: if j == 0 { f } else { t + j }, recipe: rec });
        }
        ops.clear();
        for b in 1..=t {
            ops.push(Op::Deliver { b });
            if r2.chance(1, 3) {
                ops.push(Op::Drain);
            }
        }
        ops.push(Op::Drain);
        for j in 0..nb {
            ops.push(Op::Deliver { b: t + 1 + j });
            ops.push(Op::Drain);
        }
        if r2.chance(1, 2) {
            let at = r2.idx(ops.len() + 1);
            ops.insert(at, Op::Restart);
        }
    } else if prop == "C19" && Rng::new(seed ^ 0xC19_91A7).chance(1, 4) {
        // planted shape "the chain leaves and comes back while the builder is busy": a chain A whose
        // later blocks spend cells created by its earlier blocks; the builder starts a pass over A;
        // in the middle of it a longer branch B (forking low on A) takes over; the pass goes on with
        // the blocks of A it had planned; later A grows past B and is the main chain again
        let mut r2 = Rng::new(seed ^ 0xC19_91A8);
        cfg.permanent_difficulty = true;
        cfg.genesis_epoch_len = *r2.pick(&[8u64, 12]);
        cfg.epoch_duration_target = cfg.genesis_epoch_len * 8;
        cfg.w_close = r2.range(1, 2);
        cfg.w_far = cfg.w_close + r2.range(2, 6);
        let na = r2.urange(7, 12); // A = blocks 1..=na
        let f = r2.urange(0, 3); // B forks off A's block f (0 = genesis)
        let nb = na - f + 1; // B is one block longer than A
        let ext = r2.urange(2, 4); // later extension of A
        tree.clear();
        for i in 0..na {
            let mut rec = gen_recipe(&mut r2, i as u64 + 1, true);
            rec.uncles = 0;
            rec.new_txs = rec.new_txs.max(2);
            rec.propose = rec.propose.max(3);
            rec.commit = rec.commit.max(3);
            tree.push(TreeOp { parent: i, recipe: rec });
        }
        for j in 0..nb {
            let mut rec = gen_recipe(&mut r2, 300 + j as u64, true);
            rec.uncles = 0;
            tree.push(TreeOp { parent: if j == 0 { f } else { na + j }, recipe: rec });
        }
        for j in 0..ext {
            let mut rec = gen_recipe(&mut r2, 600 + j as u64, true);
            rec.uncles = 0;
            rec.commit = rec.commit.max(2);
            tree.push(TreeOp { parent: if j == 0 { na } else { na + nb + j }, recipe: rec });
        }
        ops.clear();
        // the builder has seen a prefix of A (or nothing) before
        let seen = r2.urange(0, na / 2);
        for b in 1..=na {
            ops.push(Op::Deliver { b });
            if b == seen {
                ops.push(Op::Drain);
                ops.push(Op::FilterBuild);
            }
        }
        ops.push(Op::Drain);
        let mut inner = Vec::new();
        for j in 0..nb {
            inner.push(Op::Deliver { b: na + 1 + j });
        }
        inner.push(Op::Drain);
        ops.push(Op::FilterBuildRacing { after: r2.urange(0, 3), inner });
        if r2.chance(1, 2) {
            ops.push(Op::FilterBuild);
        }
        for j in 0..ext {
            ops.push(Op::Deliver { b: na + nb + 1 + j });
        }
        ops.push(Op::Drain);
        ops.push(Op::FilterBuild);
        if r2.chance(1, 3) {
            let at = r2.idx(ops.len() + 1);
            ops.insert(at, Op::Restart);
        }
    } else if prop == "C08" && Rng::new(seed ^ 0xC08_E90C).chance(1, 3) {
        // planted shape "reorganisation between two branches that each crossed the same epoch boundary
        // on their own": A and B fork below the boundary, both continue into the next epoch (same
        // number, different epoch records), B overtakes A with a block that is NOT the first of its
        // epoch; what the store holds as current epoch must be B's from that moment on, in
        // particular when the process dies before B reaches its next epoch
        let mut r2 = Rng::new(seed ^ 0xC08_E90D);
        cfg.permanent_difficulty = true;
        cfg.genesis_epoch_len = *r2.pick(&[3u64, 4, 5, 6]);
        cfg.epoch_duration_target = cfg.genesis_epoch_len * 8;
        let l = cfg.genesis_epoch_len as usize;
        let f = l - r2.urange(1, 2); // fork point: one or two blocks below the boundary (block l opens epoch 1)
        let na = l + r2.urange(1, l - 1); // A's tip: inside epoch 1, not its first block... or its first
        let nb = na - f + 1; // B is one block longer than A
        tree.clear();
        for i in 0..na {
            let mut rec = gen_recipe(&mut r2, i as u64 + 1, true);
            rec.uncles = 0;
            tree.push(TreeOp { parent: i, recipe: rec });
        }
        for j in 0..nb {
            let mut rec = gen_recipe(&mut r2, 300 + j as u64, true);
            rec.uncles = 0;
            tree.push(TreeOp { parent: if j == 0 { f } else { na + j }, recipe: rec });
        }
        // sometimes B goes on into its next epoch
        let more = if r2.chance(1, 2) { r2.urange(1, l) } else { 0 };
        for j in 0..more {
            let rec = gen_recipe(&mut r2, 600 + j as u64, true);
            tree.push(TreeOp { parent: na + nb + j, recipe: rec });
        }
        ops.clear();
        for b in 1..=(na + nb + more) {
            ops.push(Op::Deliver { b });
            if r2.chance(1, 2) {
                ops.push(Op::Drain);
            }
        }
        ops.push(Op::Drain);
    } else if prop == "C20" || (prop == "C02" && r.chance(1, 3)) {
        // clean restarts at arbitrary points
        let k = r.urange(1, 3);
        for _ in 0..k {
            let at = r.idx(ops.len() + 1);
            ops.insert(at, Op::Restart);
        }
    }
    Scenario {
        engine: "simnode".into(),
        prop: prop.into(),
        seed,
        cfg,
        tree,
        ops,
        freezer: prop == "C10",
        freeze_limit: {
            // a stream of its own: the other draws of a seed stay as they were
            let mut rf = Rng::new(seed ^ 0xC10_11A1);
            if prop == "C10" && rf.chance(1, 2) { Some(*rf.pick(&[1u64, 1, 2, 3, 5, 8])) } else { None }
        },
        store_caches: match r.below(4) {
            0 => Some([0; 6]),
            1 => {
                let mut c = [0usize; 6];
                for x in c.iter_mut() {
                    *x = *r.pick(&[0usize, 1, 2, 64]);
                }
                Some(c)
            }
            _ => None,
        },
        verify_cache_cold: false,
        assume_valid_first: if prop == "C14" && r.chance(1, 3) { r.urange(3, 25) } else { 0 },
        header_stage,
        header_path,
        peer_style,
        peer_strict_orphan: header_path == 1 && peer_style == 3,
        // in a third of the headers-first runs a few blocks are found by the node's own miner
        // (submit_block path) while their children are announced by peers
        miner_blocks: {
            let mut rm = Rng::new(seed ^ 0xC03_317E);
            if header_path == 1 && rm.chance(1, 3) { (0..rm.urange(1, 3)).map(|_| rm.urange(1, n.max(1))).collect() } else { Vec::new() }
        },
    }
}
