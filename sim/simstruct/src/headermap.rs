//! Header map: real `ckb_shared::HeaderMap` (memory tier + real sled backend in a temp dir,
//! no timer) vs `HashMap<hash, HeaderIndexView>`.
//!
//! Property text -> oracle: "whatever its memory limit and spill timing, answers like a plain
//! map": memory limit 1..8 items; the simulator places `verif_limit_memory()` (the body of the
//! 5 s timer tick) between any two operations; every `get` must return exactly the last value
//! inserted for that hash (all seven fields) or `None` after `remove`; after EVERY operation
//! `contains_key` is compared for the whole key universe; at the end every key is read back
//! with `get`. The return value of `insert` is not compared (it reflects the memory tier only
//! and no caller reads it).
//!
//! A mirror of the two tiers (LRU order + backend set) is kept only to name probes
//! ("get served from the backend"); no verdict depends on it.

use crate::{Ctx, ENGINE, guarded, h32};
use ckb_shared::types::{HeaderIndexView, header_map::HeaderMap};
use ckb_types::{U256, core::EpochNumberWithFraction};
use serde::{Deserialize, Serialize};
use simcore::*;
use std::collections::{BTreeMap, BTreeSet};
use std::path::Path;
use std::sync::{Arc, atomic::AtomicBool};

#[derive(Clone, Debug, Serialize, Deserialize)]
#[serde(tag = "op")]
pub enum Op {
    Insert { id: u64, variant: u64 },
    Get { id: u64 },
    Contains { id: u64 },
    Remove { id: u64 },
    /// fault: the spill timer fires here
    Spill,
}

#[derive(Clone, Debug, Serialize, Deserialize)]
pub struct Sc {
    pub engine: String,
    pub seed: u64,
    /// memory limit in items
    pub limit: usize,
    pub ibd_finished: bool,
    pub ops: Vec<Op>,
}

const SPACE: u64 = 3;

/// the value stored for (id, variant): same hash, every other field depends on the variant
pub fn view(id: u64, variant: u64) -> HeaderIndexView {
    let mut r = Rng::new(id.wrapping_mul(31).wrapping_add(variant.wrapping_mul(7919)) ^ 0x4EAD);
    let number = match r.below(3) {
        0 => 1,
        1 => r.range(1, 300),
        _ => r.range(1, 1 << 40),
    };
    let len = r.range(1, 1800);
    let epoch = EpochNumberWithFraction::new(r.below(1 << 24), r.below(len), len);
    let timestamp = if r.chance(1, 8) { u64::MAX } else { r.next_u64() };
    let parent = h32(SPACE + 10, r.next_u64());
    let mut td = [0u8; 32];
    let k = r.urange(0, 32);
    let rb = r.bytes(k);
    td[..k].copy_from_slice(&rb);
    if r.chance(1, 10) {
        td = [0xff; 32];
    }
    let total_difficulty = U256::from_little_endian(&td).expect("32 bytes");
    let mut v = HeaderIndexView::new(h32(SPACE, id), number, epoch, timestamp, parent, total_difficulty);
    if r.chance(2, 3) {
        // skip_hash can only be set through build_skip; steer it to an arbitrary hash
        let skip = h32(SPACE + 20, r.next_u64());
        let stepping = HeaderIndexView::new(h32(SPACE + 30, 1), number - 1, epoch, 0, h32(SPACE + 30, 2), U256::zero());
        let target = HeaderIndexView::new(skip, 0, epoch, 0, h32(SPACE + 30, 3), U256::zero());
        v.build_skip(0, |_, _| Some(stepping.clone()), |_, _| Some(target.clone()));
    }
    v
}

pub fn generate(seed: u64) -> Sc {
    let mut r = Rng::new(seed ^ 0x0C17_0C03);
    let limit = r.urange(1, 8);
    let nkeys = r.range(2, 14);
    let nops = r.urange(6, 60);
    let spill_w = *r.pick(&[5u64, 15, 30]);
    let mut ops = Vec::new();
    for _ in 0..nops {
        let id = 1 + r.below(nkeys);
        match r.weighted(&[40, 25, 8, 12, spill_w]) {
            0 => ops.push(Op::Insert {
                id,
                variant: if r.chance(3, 4) { 0 } else { r.below(3) },
            }),
            1 => ops.push(Op::Get { id }),
            2 => ops.push(Op::Contains { id }),
            3 => ops.push(Op::Remove { id }),
            _ => ops.push(Op::Spill),
        }
    }
    Sc {
        engine: ENGINE.into(),
        seed,
        limit,
        ibd_finished: r.chance(1, 2),
        ops,
    }
}

/// alphabet of the bounded-exhaustive part: two keys (one with two values), memory limit 1
pub fn alphabet() -> Vec<Op> {
    vec![
        Op::Insert { id: 1, variant: 0 },
        Op::Insert { id: 1, variant: 1 },
        Op::Insert { id: 2, variant: 0 },
        Op::Get { id: 1 },
        Op::Get { id: 2 },
        Op::Remove { id: 1 },
        Op::Remove { id: 2 },
        Op::Spill,
    ]
}

pub fn generate_enum(index: u64) -> Sc {
    Sc {
        engine: ENGINE.into(),
        seed: index,
        limit: 1,
        ibd_finished: index % 2 == 0,
        ops: crate::nth_sequence(&alphabet(), index),
    }
}

#[derive(Default)]
struct Tiers {
    mem: Vec<u64>, // front = least recently used
    backend: BTreeSet<u64>,
}
impl Tiers {
    fn touch(&mut self, id: u64) {
        self.mem.retain(|x| *x != id);
        self.mem.push(id);
    }
}

pub fn exec(sc: &Sc, root: &Path) -> RunResult {
    let mut cx = Ctx::new(sc.seed);
    if sc.limit == 0 {
        cx.res.harness_error = Some("limit must be >= 1".into());
        return cx.finish();
    }
    if let Err(e) = std::fs::create_dir_all(root) {
        cx.res.harness_error = Some(format!("scratch dir: {e}"));
        return cx.finish();
    }
    let hm = match guarded(|| HeaderMap::verif_new_without_timer(Some(root), sc.limit, Arc::new(AtomicBool::new(sc.ibd_finished)))) {
        Ok(h) => h,
        Err(e) => {
            cx.res.harness_error = Some(format!("open header map: {e}"));
            return cx.finish();
        }
    };
    let mut model: BTreeMap<u64, HeaderIndexView> = BTreeMap::new();
    let mut tiers = Tiers::default();
    let mut universe: BTreeSet<u64> = BTreeSet::new();
    for op in &sc.ops {
        match op {
            Op::Insert { id, .. } | Op::Get { id } | Op::Contains { id } | Op::Remove { id } => {
                universe.insert(*id);
            }
            Op::Spill => {}
        }
    }
    let mut nontrivial = false;
    let mut spilled_once = false;

    macro_rules! sweep_contains {
        ($why:expr) => {{
            for id in &universe {
                match guarded(|| hm.contains_key(&h32(SPACE, *id))) {
                    Ok(got) => {
                        let want = model.contains_key(id);
                        if got != want {
                            cx.viol(
                                &format!("headermap:{}:contains_differs", $why),
                                format!("contains_key({id})={got}, plain map says {want} (memory tier {:?}, backend {:?})", tiers.mem, tiers.backend),
                            );
                            break;
                        }
                    }
                    Err(e) => {
                        cx.viol(&format!("headermap:{}:panic", $why), format!("contains_key({id}): {e}"));
                        break;
                    }
                }
            }
            cx.res.states.push(fp(&[
                0x0C,
                model.len() as u64,
                tiers.mem.len().min(sc.limit + 2) as u64,
                tiers.backend.len() as u64,
                tiers.mem.iter().filter(|i| tiers.backend.contains(*i)).count() as u64,
            ]));
        }};
    }
    macro_rules! do_get {
        ($id:expr, $why:expr) => {{
            let id: u64 = $id;
            match guarded(|| hm.get(&h32(SPACE, id))) {
                Ok(got) => {
                    let want = model.get(&id);
                    if got.as_ref() != want {
                        cx.viol(
                            &format!("headermap:{}:get_differs", $why),
                            format!("get({id}) = {got:?}, plain map says {want:?} (memory tier {:?}, backend {:?})", tiers.mem, tiers.backend),
                        );
                    }
                    if tiers.mem.contains(&id) {
                        tiers.touch(id);
                        if tiers.backend.contains(&id) {
                            cx.res.probes.inc("get_prefers_memory_over_stale_backend_copy");
                        }
                    } else if tiers.backend.remove(&id) {
                        tiers.mem.push(id);
                        cx.res.probes.inc("get_promotes_from_backend");
                        if spilled_once {
                            nontrivial = true;
                        }
                    } else {
                        cx.res.probes.inc("get_absent");
                    }
                    cx.ev(&format!("get {id} -> {:?}", got.map(|v| (v.number(), v.timestamp()))));
                }
                Err(e) => cx.viol(&format!("headermap:{}:panic", $why), format!("get({id}): {e}")),
            }
        }};
    }

    for (opi, op) in sc.ops.iter().enumerate() {
        if cx.failed() {
            break;
        }
        cx.res.steps += 1;
        match op {
            Op::Insert { id, variant } => {
                cx.il.write_u64(1);
                cx.il.write_u64(*id);
                cx.il.write_u64(*variant);
                let v = view(*id, *variant);
                if let Err(e) = guarded(|| hm.insert(v.clone())) {
                    cx.viol("headermap:insert:panic", format!("op {opi}: {e}"));
                    break;
                }
                if let Some(old) = model.get(id) {
                    cx.res.faults.inc("duplicate_insert");
                    if *old != v {
                        cx.res.probes.inc("insert_overwrites_with_new_value");
                    }
                }
                if tiers.backend.contains(id) && !tiers.mem.contains(id) {
                    cx.res.probes.inc("insert_shadows_backend_copy");
                }
                tiers.touch(*id);
                model.insert(*id, v);
                cx.ev(&format!("insert {id}/{variant}"));
                sweep_contains!("insert");
            }
            Op::Get { id } => {
                cx.il.write_u64(2);
                cx.il.write_u64(*id);
                do_get!(*id, "get");
                sweep_contains!("get");
            }
            Op::Contains { id } => {
                cx.il.write_u64(3);
                cx.il.write_u64(*id);
                if !tiers.mem.contains(id) && tiers.backend.contains(id) {
                    cx.res.probes.inc("contains_answered_by_backend");
                }
                cx.ev(&format!("contains {id} -> {}", model.contains_key(id)));
                sweep_contains!("contains");
            }
            Op::Remove { id } => {
                cx.il.write_u64(4);
                cx.il.write_u64(*id);
                if let Err(e) = guarded(|| hm.remove(&h32(SPACE, *id))) {
                    cx.viol("headermap:remove:panic", format!("op {opi}: {e}"));
                    break;
                }
                let in_mem = tiers.mem.contains(id);
                let in_backend = tiers.backend.contains(id);
                match (in_mem, in_backend) {
                    (true, true) => cx.res.probes.inc("remove_from_both_tiers"),
                    (false, true) => cx.res.probes.inc("remove_from_backend_only"),
                    (true, false) => cx.res.probes.inc("remove_from_memory_only"),
                    _ => cx.res.probes.inc("remove_absent"),
                }
                tiers.mem.retain(|x| x != id);
                tiers.backend.remove(id);
                model.remove(id);
                cx.ev(&format!("remove {id}"));
                sweep_contains!("remove");
            }
            Op::Spill => {
                cx.il.write_u64(5);
                if let Err(e) = guarded(|| hm.verif_limit_memory()) {
                    cx.viol("headermap:spill:panic", format!("op {opi}: {e}"));
                    break;
                }
                if tiers.mem.len() > sc.limit {
                    let n = tiers.mem.len() - sc.limit;
                    let moved: Vec<u64> = tiers.mem.drain(..n).collect();
                    for i in moved {
                        if !tiers.backend.insert(i) {
                            cx.res.probes.inc("respill_overwrites_backend_copy");
                        }
                    }
                    cx.res.faults.inc("spill_between_ops");
                    spilled_once = true;
                } else {
                    cx.res.faults.inc("spill_noop_under_limit");
                }
                cx.ev("spill");
                sweep_contains!("spill");
            }
        }
    }
    if !cx.failed() {
        for id in universe.clone() {
            do_get!(id, "final_readback");
            if cx.failed() {
                break;
            }
        }
        if !cx.failed() {
            sweep_contains!("final_readback");
        }
    }
    drop(hm);
    cx.res.nontrivial = nontrivial;
    cx.finish()
}
