//! In-flight download table: real `ckb_sync` `InflightBlocks` on the faketime clock vs two
//! plain maps (`block -> (peer, since)` and `peer -> set of blocks`).
//!
//! `InflightBlocks` lives in a private module of ckb-sync; its type cannot be named from
//! outside, but `SyncShared::state().read_inflight_blocks()` exposes it, so a value is obtained
//! through type inference (`default_of`) and driven through its public methods. The peer and
//! timestamp of an `InflightState` are `pub(crate)`; they are read from its `Debug` output.
//!
//! Property text -> oracle:
//! * "never assigns a block to two peers at once": after every op the per-peer lists are
//!   pairwise disjoint, and `insert` of a block already in flight returns false and changes
//!   nothing.
//! * "records every block listed for a peer as in flight from exactly that peer": for every
//!   block in `inflight_block_by_peer(p)`, `inflight_state_by_block(b).peer == p`. The
//!   converse is NOT demanded: `prune` may evict a peer's scheduler (returned as the
//!   disconnect list) while that peer's states linger until they time out.
//! * "releases exactly the affected entries when a block arrives (`remove_by_block`), a
//!   tracked peer leaves (`remove_by_peer`) or a request times out (`prune`)": both views are
//!   compared with the model after every op over the whole block/peer universe, so both a
//!   missing release and a collateral release are seen. Time-outs follow the two rules in the
//!   code: `since + BLOCK_DOWNLOAD_TIMEOUT < now` for blocks up to tip+20, and
//!   `now > low_time + trace_time` for blocks marked slow (`mark_slow_block`, or re-requested
//!   at or below the restart number). `low_time` is read from `division_point()`.
//! * Where the code has freedom the oracle is one-sided: which peers `prune` evicts is taken
//!   from its return value (only "evicted peers were tracked" is demanded, the task-count
//!   arithmetic is not modelled); `peer_can_fetch_count` is only bounded.

use crate::{Ctx, ENGINE, guarded, h32};
use ckb_constant::sync::{BLOCK_DOWNLOAD_TIMEOUT, INIT_BLOCKS_IN_TRANSIT_PER_PEER, MAX_BLOCKS_IN_TRANSIT_PER_PEER};
use ckb_network::PeerIndex;
use ckb_types::BlockNumberAndHash;
use serde::{Deserialize, Serialize};
use simcore::*;
use std::collections::{BTreeMap, BTreeSet};
use std::ops::Deref;

#[derive(Clone, Debug, Serialize, Deserialize)]
#[serde(tag = "op")]
pub enum Op {
    Insert { peer: u64, number: u64, hid: u64 },
    RemoveByBlock { number: u64, hid: u64 },
    RemoveByPeer { peer: u64 },
    MarkSlow { tip: u64 },
    Prune { tip: u64 },
    Advance { ms: u64 },
}

#[derive(Clone, Debug, Serialize, Deserialize)]
pub struct Sc {
    pub engine: String,
    pub seed: u64,
    /// initial value of the simulated clock (unix ms)
    pub t0: u64,
    pub ops: Vec<Op>,
}

const SPACE: u64 = 2;
type Key = (u64, u64); // (number, hid): ordered like BlockNumberAndHash by number first

fn default_of<S: 'static, G, T>(_: impl Fn(&'static S) -> G) -> T
where
    G: Deref<Target = T>,
    T: Default,
{
    T::default()
}

pub fn generate(seed: u64) -> Sc {
    let mut r = Rng::new(seed ^ 0x0C17_0B02);
    let npeers = r.range(1, 8);
    let base = *r.pick(&[0u64, 1, 100, 5_000]);
    let span = *r.pick(&[4u64, 12, 40, 600]);
    let nblocks = r.range(3, 40);
    // block universe: some numbers carry two competing hashes
    let mut blocks: Vec<Key> = Vec::new();
    for i in 0..nblocks {
        let number = base + r.below(span) + 1;
        blocks.push((number, i + 1));
        if r.chance(1, 6) {
            blocks.push((number, 100 + i));
        }
    }
    let advances = [0u64, 1, 400, 999, 1_000, 1_001, 1_250, 1_499, 1_500, 1_501, 3_000, 10_000, 29_999, 30_000, 30_001, 31_000, 70_000];
    let nops = r.urange(4, 70);
    let style = r.below(3); // 0 mixed, 1 timeout-heavy, 2 slow-block-heavy
    let w: [u64; 6] = match style {
        0 => [40, 14, 6, 6, 12, 14],
        1 => [45, 6, 3, 3, 20, 20],
        _ => [40, 8, 4, 16, 16, 16],
    };
    let mut ops = Vec::new();
    for _ in 0..nops {
        let pick_tip = |r: &mut Rng| match r.below(4) {
            0 => base,
            1 => base + r.below(span + 1),
            2 => base.saturating_sub(r.below(30)),
            _ => base + span + r.below(40),
        };
        match r.weighted(&w) {
            0 => {
                let (number, hid) = *r.pick(&blocks);
                ops.push(Op::Insert {
                    peer: r.range(1, npeers),
                    number,
                    hid,
                });
                // bursts: the same peer asks for a few more
                if r.chance(1, 4) {
                    let peer = r.range(1, npeers);
                    for _ in 0..r.urange(1, 4) {
                        let (number, hid) = *r.pick(&blocks);
                        ops.push(Op::Insert { peer, number, hid });
                    }
                }
            }
            1 => {
                let (number, hid) = if r.chance(1, 10) { (base + 7, 9_999) } else { *r.pick(&blocks) };
                ops.push(Op::RemoveByBlock { number, hid });
            }
            2 => ops.push(Op::RemoveByPeer {
                peer: r.range(1, npeers + 1),
            }),
            3 => ops.push(Op::MarkSlow { tip: pick_tip(&mut r) }),
            4 => ops.push(Op::Prune { tip: pick_tip(&mut r) }),
            _ => ops.push(Op::Advance { ms: *r.pick(&advances) }),
        }
    }
    Sc {
        engine: ENGINE.into(),
        seed,
        t0: 1_600_000_000_000 + r.below(1_000_000),
        ops,
    }
}

/// alphabet of the bounded-exhaustive part: two peers, two blocks, both time-outs reachable
pub fn alphabet() -> Vec<Op> {
    vec![
        Op::Insert { peer: 1, number: 5, hid: 1 },
        Op::Insert { peer: 2, number: 5, hid: 1 },
        Op::Insert { peer: 1, number: 6, hid: 2 },
        Op::Insert { peer: 2, number: 6, hid: 2 },
        Op::RemoveByBlock { number: 5, hid: 1 },
        Op::RemoveByBlock { number: 6, hid: 2 },
        Op::RemoveByPeer { peer: 1 },
        Op::RemoveByPeer { peer: 2 },
        Op::MarkSlow { tip: 4 },
        Op::Prune { tip: 4 },
        Op::Advance { ms: 1_501 },
        Op::Advance { ms: 30_001 },
    ]
}

pub fn generate_enum(index: u64) -> Sc {
    Sc {
        engine: ENGINE.into(),
        seed: index,
        t0: 1_600_000_000_000,
        ops: crate::nth_sequence(&alphabet(), index),
    }
}

#[derive(Default)]
struct Model {
    states: BTreeMap<Key, (u64, u64)>, // block -> (peer, since)
    lists: BTreeMap<u64, BTreeSet<Key>>, // tracked peer -> blocks
    trace: BTreeMap<Key, u64>,         // slow-marked block -> since
    restart: u64,
}

fn parse_after(s: &str, tag: &str) -> Option<u64> {
    let i = s.find(tag)? + tag.len();
    let rest = &s[i..];
    let start = rest.find(|c: char| c.is_ascii_digit())?;
    let digits: String = rest[start..].chars().take_while(|c| c.is_ascii_digit()).collect();
    digits.parse().ok()
}

pub fn exec(sc: &Sc) -> RunResult {
    let mut cx = Ctx::new(sc.seed);
    // the real structure (type inferred, see module doc)
    let mut ib = default_of(|s: &'static ckb_sync::SyncShared| s.state().read_inflight_blocks());
    let clock = ckb_systemtime::faketime();
    let mut now = sc.t0;
    clock.set_faketime(now);
    let mut m = Model::default();

    // universe
    let mut peers: BTreeSet<u64> = BTreeSet::new();
    let mut keys: BTreeSet<Key> = BTreeSet::new();
    for op in &sc.ops {
        match op {
            Op::Insert { peer, number, hid } => {
                peers.insert(*peer);
                keys.insert((*number, *hid));
            }
            Op::RemoveByBlock { number, hid } => {
                keys.insert((*number, *hid));
            }
            Op::RemoveByPeer { peer } => {
                peers.insert(*peer);
            }
            _ => {}
        }
    }
    {
        let mut number_of: BTreeMap<u64, u64> = BTreeMap::new();
        for k in &keys {
            if *number_of.entry(k.1).or_insert(k.0) != k.0 {
                cx.res.harness_error = Some(format!("inconsistent scenario: block hash id {} is given two different numbers", k.1));
                return cx.finish();
            }
        }
    }
    let bnh = |k: &Key| BlockNumberAndHash::new(k.0, h32(SPACE, k.1));
    let pidx = |p: u64| -> PeerIndex { (p as usize).into() };
    let key_of: BTreeMap<Vec<u8>, Key> = keys
        .iter()
        .map(|k| {
            use ckb_types::prelude::Entity;
            (h32(SPACE, k.1).as_slice().to_vec(), *k)
        })
        .collect();

    let mut nontrivial = false;

    macro_rules! check_views {
        ($why:expr) => {{
            let why: &str = $why;
            // the real views
            let mut real_lists: BTreeMap<u64, BTreeSet<Key>> = BTreeMap::new();
            let mut listed_total = 0usize;
            let mut union: BTreeSet<Key> = BTreeSet::new();
            let mut harness_bad: Option<String> = None;
            for p in &peers {
                if let Some(set) = ib.inflight_block_by_peer(pidx(*p)) {
                    let mut s = BTreeSet::new();
                    for b in set.iter() {
                        use ckb_types::prelude::Entity;
                        match key_of.get(b.hash.as_slice()) {
                            Some(k) if k.0 == b.number => {
                                s.insert(*k);
                            }
                            _ => harness_bad = Some(format!("peer {p} lists a block outside the universe: {}-{}", b.number, b.hash)),
                        }
                    }
                    listed_total += s.len();
                    union.extend(s.iter().copied());
                    real_lists.insert(*p, s);
                }
            }
            let mut real_states: BTreeMap<Key, (u64, u64)> = BTreeMap::new();
            for k in &keys {
                if let Some(st) = ib.inflight_state_by_block(&bnh(k)) {
                    let dbg = format!("{:?}", st);
                    match (parse_after(&dbg, "peer:"), parse_after(&dbg, "timestamp:")) {
                        (Some(p), Some(t)) => {
                            real_states.insert(*k, (p, t));
                        }
                        _ => harness_bad = Some(format!("cannot read InflightState from {dbg:?}")),
                    }
                }
            }
            if let Some(e) = harness_bad {
                if e.starts_with("cannot") {
                    cx.res.harness_error = Some(e);
                } else {
                    cx.viol(&format!("inflight:{why}:foreign_block_listed"), e);
                }
            }
            // property invariants on the real views alone
            if listed_total != union.len() {
                let mut owners: BTreeMap<Key, Vec<u64>> = BTreeMap::new();
                for (p, s) in &real_lists {
                    for k in s {
                        owners.entry(*k).or_default().push(*p);
                    }
                }
                let dup: Vec<_> = owners.into_iter().filter(|(_, v)| v.len() > 1).collect();
                cx.viol(&format!("inflight:{why}:block_assigned_to_two_peers"), format!("{dup:?}"));
            }
            for (p, s) in &real_lists {
                for k in s {
                    match real_states.get(k) {
                        Some((q, _)) if q == p => {}
                        other => cx.viol(
                            &format!("inflight:{why}:listed_block_not_in_flight_from_that_peer"),
                            format!("block {k:?} is listed for peer {p} but its in-flight state is {other:?}"),
                        ),
                    }
                }
            }
            // model comparison: exactly the affected entries changed
            if real_lists != m.lists {
                cx.viol(
                    &format!("inflight:{why}:peer_lists_differ"),
                    format!("real {real_lists:?} model {:?}", m.lists),
                );
            }
            if real_states != m.states {
                cx.viol(
                    &format!("inflight:{why}:states_differ"),
                    format!("real {real_states:?} model {:?}", m.states),
                );
            }
            if ib.total_inflight_count() != m.states.len() {
                cx.viol(
                    &format!("inflight:{why}:total_count"),
                    format!("total_inflight_count()={} model {}", ib.total_inflight_count(), m.states.len()),
                );
            }
            for p in &peers {
                let want = m.lists.get(p).map(|s| s.len()).unwrap_or(0);
                let got = ib.peer_inflight_count(pidx(*p));
                if got != want {
                    cx.viol(&format!("inflight:{why}:peer_count"), format!("peer {p}: peer_inflight_count()={got} model {want}"));
                }
                let cf = ib.peer_can_fetch_count(pidx(*p));
                if cf > MAX_BLOCKS_IN_TRANSIT_PER_PEER || (!m.lists.contains_key(p) && cf != INIT_BLOCKS_IN_TRANSIT_PER_PEER) {
                    cx.viol(&format!("inflight:{why}:can_fetch_out_of_range"), format!("peer {p}: peer_can_fetch_count()={cf}"));
                }
            }
            let orphaned = m.states.iter().filter(|(k, (p, _))| !m.lists.get(p).map(|s| s.contains(*k)).unwrap_or(false)).count();
            cx.ev(&format!("t={} states={:?} lists={:?}", now - sc.t0, m.states.keys().collect::<Vec<_>>(), m.lists));
            cx.res.states.push(fp(&[
                0x0B,
                m.states.len() as u64,
                m.lists.len() as u64,
                m.trace.len() as u64,
                orphaned as u64,
                (m.restart != 0) as u64,
            ]));
        }};
    }

    for (opi, op) in sc.ops.iter().enumerate() {
        if cx.failed() {
            break;
        }
        cx.res.steps += 1;
        match op {
            Op::Insert { peer, number, hid } => {
                cx.il.write_u64(1);
                cx.il.write_u64(*peer);
                cx.il.write_u64(*number);
                cx.il.write_u64(*hid);
                let k = (*number, *hid);
                let got = match guarded(|| ib.insert(pidx(*peer), bnh(&k))) {
                    Ok(g) => g,
                    Err(e) => {
                        cx.viol("inflight:insert:panic", format!("op {opi}: {e}"));
                        break;
                    }
                };
                let want = if let Some((q, _)) = m.states.get(&k) {
                    cx.res.faults.inc("duplicate_insert");
                    if *q != *peer {
                        cx.res.probes.inc("insert_refused_block_in_flight_from_other_peer");
                    }
                    false
                } else {
                    m.states.insert(k, (*peer, now));
                    if m.restart >= *number {
                        m.trace.insert(k, now);
                        cx.res.probes.inc("insert_below_restart_number_traced");
                    }
                    m.lists.entry(*peer).or_default().insert(k);
                    true
                };
                if got != want {
                    cx.viol("inflight:insert:return_value", format!("insert(peer {peer}, {k:?}) returned {got}, model {want}"));
                }
                cx.ev(&format!("insert {peer} {k:?} -> {got}"));
                check_views!("insert");
            }
            Op::RemoveByBlock { number, hid } => {
                cx.il.write_u64(2);
                cx.il.write_u64(*number);
                cx.il.write_u64(*hid);
                let k = (*number, *hid);
                let got = match guarded(|| ib.remove_by_block(bnh(&k))) {
                    Ok(g) => g,
                    Err(e) => {
                        cx.viol("inflight:remove_by_block:panic", format!("op {opi}: {e}"));
                        break;
                    }
                };
                let want = match m.states.remove(&k) {
                    Some((p, _)) => {
                        if let Some(l) = m.lists.get_mut(&p) {
                            l.remove(&k);
                            // the code drops the slow-block mark only while the peer is tracked
                            m.trace.remove(&k);
                            cx.res.probes.inc("block_arrived");
                        } else {
                            cx.res.probes.inc("block_arrived_from_evicted_peer");
                        }
                        true
                    }
                    None => {
                        cx.res.faults.inc("remove_unknown_block");
                        false
                    }
                };
                if got != want {
                    cx.viol("inflight:remove_by_block:return_value", format!("remove_by_block({k:?}) returned {got}, model {want}"));
                }
                cx.ev(&format!("remove_by_block {k:?} -> {got}"));
                check_views!("remove_by_block");
            }
            Op::RemoveByPeer { peer } => {
                cx.il.write_u64(3);
                cx.il.write_u64(*peer);
                let got = match guarded(|| ib.remove_by_peer(pidx(*peer))) {
                    Ok(g) => g,
                    Err(e) => {
                        cx.viol("inflight:remove_by_peer:panic", format!("op {opi}: {e}"));
                        break;
                    }
                };
                let want = match m.lists.remove(peer) {
                    Some(set) => {
                        for k in &set {
                            m.states.remove(k);
                            m.trace.remove(k);
                        }
                        if set.len() >= 2 {
                            cx.res.probes.inc("peer_left_with_several_blocks");
                        }
                        if !m.states.is_empty() {
                            cx.res.probes.inc("peer_left_others_kept");
                        }
                        set.len()
                    }
                    None => {
                        cx.res.faults.inc("remove_untracked_peer");
                        0
                    }
                };
                if got != want {
                    cx.viol("inflight:remove_by_peer:return_value", format!("remove_by_peer({peer}) returned {got}, model {want}"));
                }
                cx.ev(&format!("remove_by_peer {peer} -> {got}"));
                check_views!("remove_by_peer");
            }
            Op::MarkSlow { tip } => {
                cx.il.write_u64(4);
                cx.il.write_u64(*tip);
                if let Err(e) = guarded(|| ib.mark_slow_block(*tip)) {
                    cx.viol("inflight:mark_slow_block:panic", format!("op {opi}: {e}"));
                    break;
                }
                let mut marked = 0;
                for k in m.states.keys() {
                    if k.0 > *tip + 1 {
                        break;
                    }
                    if !m.trace.contains_key(k) {
                        m.trace.insert(*k, now);
                        marked += 1;
                    }
                }
                if marked > 0 {
                    cx.res.probes.inc("slow_blocks_marked");
                }
                cx.ev(&format!("mark_slow {tip}"));
                check_views!("mark_slow_block");
            }
            Op::Prune { tip } => {
                cx.il.write_u64(5);
                cx.il.write_u64(*tip);
                let low_time = ib.division_point().2;
                let got = match guarded(|| ib.prune(*tip)) {
                    Ok(g) => g,
                    Err(e) => {
                        cx.viol("inflight:prune:panic", format!("op {opi}: {e}"));
                        break;
                    }
                };
                let before = m.states.len();
                // rule 1: request older than BLOCK_DOWNLOAD_TIMEOUT, block number <= tip + 20
                let timed: Vec<Key> = m
                    .states
                    .iter()
                    .filter(|(k, (_, since))| k.0 <= *tip + 20 && *since + BLOCK_DOWNLOAD_TIMEOUT < now)
                    .map(|(k, _)| *k)
                    .collect();
                for k in &timed {
                    let (p, _) = m.states.remove(k).unwrap();
                    if let Some(l) = m.lists.get_mut(&p) {
                        l.remove(k);
                    }
                    m.trace.remove(k);
                }
                if !timed.is_empty() {
                    cx.res.probes.inc("prune_timeout_fired");
                }
                if m.states.iter().any(|(_, (_, since))| *since + BLOCK_DOWNLOAD_TIMEOUT < now) {
                    cx.res.probes.inc("prune_timed_out_block_beyond_tip_window_kept");
                }
                // scheduler eviction: taken from the return value (one-sided)
                let evicted: BTreeSet<u64> = got.iter().map(|p| p.value() as u64).collect();
                for p in &evicted {
                    match m.lists.remove(p) {
                        Some(l) => {
                            cx.res.probes.inc("peer_evicted_by_prune");
                            if !l.is_empty() {
                                cx.res.probes.inc("peer_evicted_with_blocks_in_flight");
                            }
                        }
                        None => cx.viol("inflight:prune:evicted_untracked_peer", format!("prune({tip}) asks to disconnect peer {p}, which is not tracked")),
                    }
                }
                if m.restart != 0 && *tip + 1 > m.restart {
                    m.restart = 0;
                }
                // rule 2: slow-marked blocks older than low_time
                let slow: Vec<Key> = m.trace.iter().filter(|(_, t)| now > low_time + **t).map(|(k, _)| *k).collect();
                let mut slow_released = 0;
                for k in &slow {
                    m.trace.remove(k);
                    if let Some((p, _)) = m.states.remove(k) {
                        slow_released += 1;
                        if let Some(l) = m.lists.get_mut(&p) {
                            l.remove(k);
                        }
                    }
                    if k.0 > m.restart {
                        m.restart = k.0;
                    }
                }
                if slow_released > 0 {
                    cx.res.probes.inc("prune_slow_block_timeout_fired");
                }
                if !slow.is_empty() {
                    cx.res.probes.inc("restart_number_set");
                }
                let released = before - m.states.len();
                if released > 0 && !m.states.is_empty() {
                    cx.res.probes.inc("prune_released_some_kept_others");
                    nontrivial = true;
                }
                cx.ev(&format!("prune {tip} -> evict {evicted:?} released {released}"));
                check_views!("prune");
            }
            Op::Advance { ms } => {
                cx.il.write_u64(6);
                cx.il.write_u64(*ms);
                now += *ms;
                cx.res.sim_ms += *ms;
                clock.set_faketime(now);
                if m.states.values().any(|(_, since)| *since + BLOCK_DOWNLOAD_TIMEOUT < now && *since + BLOCK_DOWNLOAD_TIMEOUT >= now - *ms) {
                    cx.res.faults.inc("clock_advance_past_timeout");
                }
                if m.trace.values().any(|t| now > *t + 1500 && now - *ms <= *t + 1500) {
                    cx.res.faults.inc("clock_advance_past_slow_limit");
                }
                cx.ev(&format!("advance {ms}"));
            }
        }
    }
    drop(clock);
    cx.res.nontrivial = nontrivial;
    cx.finish()
}
