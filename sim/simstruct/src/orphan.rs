//! Orphan block pool: real `ckb_chain::verif::OrphanBlockPool` vs `Map<id,(parent,epoch)>`.
//!
//! Property text -> oracle:
//! * "returns on release exactly the stored descendants of the released parent (each once)":
//!   for a parent that is a leader (absent from the pool) the returned multiset must equal the
//!   model's transitive descendants, no duplicates, each item carrying the parent/epoch/number
//!   it was inserted with. For a parent that is itself pooled or unknown the code returns
//!   nothing; the oracle accepts "nothing" or "exactly the descendants" there (one-sided: the
//!   property only speaks about parents for which a release happens).
//! * "keeps exactly the rest": `len()` after every op, and at the end of the run every leader
//!   is released and the union must equal the model's remaining content exactly.
//! * "leader set equal to the parents that are themselves absent": `clone_leaders()` as a set
//!   (and duplicate-free) == { parent(b) | b pooled, parent(b) not pooled } after every op.
//! * `clean_expired_blocks` decides per leader from the FIRST child in hash-map order, so only
//!   order-independent facts are demanded: the result is a union of whole leader subtrees,
//!   each block once; a leader whose subtree has no block with epoch+EXPIRED_EPOCH<tip stays;
//!   a leader whose direct children are ALL expired goes.

use crate::{Ctx, ENGINE, guarded, h32};
use ckb_chain::LonelyBlockHash;
use ckb_chain::verif::{EXPIRED_EPOCH, OrphanBlockPool};
use ckb_types::BlockNumberAndHash;
use serde::{Deserialize, Serialize};
use simcore::*;
use std::collections::{BTreeMap, BTreeSet};

#[derive(Clone, Debug, Serialize, Deserialize)]
#[serde(tag = "op")]
pub enum Op {
    Insert { id: u64, parent: u64, epoch: u64, number: u64 },
    Release { parent: u64 },
    Clean { tip_epoch: u64 },
}

#[derive(Clone, Debug, Serialize, Deserialize)]
pub struct Sc {
    pub engine: String,
    pub seed: u64,
    pub ops: Vec<Op>,
}

const SPACE: u64 = 1;

#[derive(Clone, Copy, Debug, PartialEq, Eq)]
struct MBlock {
    parent: u64,
    epoch: u64,
    number: u64,
}

#[derive(Default, Clone)]
struct Model {
    pool: BTreeMap<u64, MBlock>,
}
impl Model {
    fn leaders(&self) -> BTreeSet<u64> {
        self.pool
            .values()
            .map(|b| b.parent)
            .filter(|p| !self.pool.contains_key(p))
            .collect()
    }
    fn children(&self, p: u64) -> Vec<u64> {
        self.pool.iter().filter(|(_, b)| b.parent == p).map(|(i, _)| *i).collect()
    }
    /// (descendants, number of levels)
    fn descendants(&self, p: u64) -> (BTreeSet<u64>, u64) {
        let mut out = BTreeSet::new();
        let mut frontier = vec![p];
        let mut levels = 0;
        while !frontier.is_empty() {
            let mut next = Vec::new();
            for f in frontier {
                for c in self.children(f) {
                    if out.insert(c) {
                        next.push(c);
                    }
                }
            }
            if !next.is_empty() {
                levels += 1;
            }
            frontier = next;
        }
        (out, levels)
    }
}

pub fn generate(seed: u64) -> Sc {
    let mut r = Rng::new(seed ^ 0x0C17_0A01);
    let n = r.urange(3, 26) as u64;
    let absent_roots = r.range(1, 3);
    // forest over ids 1..=n; parents 1000.. are never inserted
    let shape = r.below(3); // 0 bushy, 1 chains, 2 mixed
    let mut parent = BTreeMap::new();
    let mut number = BTreeMap::new();
    let mut child_epoch: BTreeMap<u64, u64> = BTreeMap::new(); // epoch shared by all children of a parent
    let mut epoch = BTreeMap::new();
    for a in 0..absent_roots {
        number.insert(1000 + a, r.range(0, 50));
        child_epoch.insert(1000 + a, r.range(0, 14));
    }
    for i in 1..=n {
        let p = if i == 1 || r.chance(1, 6) {
            1000 + r.below(absent_roots)
        } else {
            match shape {
                0 => r.range(1, i - 1),
                1 => i - 1,
                _ => {
                    if r.chance(2, 3) {
                        i - 1
                    } else {
                        r.range(1, i - 1)
                    }
                }
            }
        };
        parent.insert(i, p);
        number.insert(i, number[&p] + 1);
        let e = child_epoch[&p];
        epoch.insert(i, e);
        // siblings share their epoch number (it is a function of the parent), as on a real chain
        child_epoch.insert(i, e + if r.chance(1, 3) { r.range(1, 4) } else { 0 });
    }
    let mk = |i: u64| Op::Insert {
        id: i,
        parent: parent[&i],
        epoch: epoch[&i],
        number: number[&i],
    };
    let mut order: Vec<u64> = (1..=n).collect();
    match r.below(4) {
        0 => {}                 // parents first
        1 => order.reverse(),   // children first
        _ => r.shuffle(&mut order),
    }
    let mut pending = order;
    pending.reverse(); // pop from the back
    let nops = r.urange(4, 60);
    let mut ops = Vec::new();
    let mut m = Model::default();
    let mut seen: Vec<u64> = Vec::new();
    for _ in 0..nops {
        match r.weighted(&[55, 25, 8]) {
            0 => {
                let i = if !pending.is_empty() && (seen.is_empty() || !r.chance(1, 8)) {
                    pending.pop().unwrap()
                } else if !seen.is_empty() {
                    *r.pick(&seen) // duplicate or re-insert after release
                } else {
                    continue;
                };
                seen.push(i);
                m.pool.insert(
                    i,
                    MBlock {
                        parent: parent[&i],
                        epoch: epoch[&i],
                        number: number[&i],
                    },
                );
                ops.push(mk(i));
            }
            1 => {
                let leaders: Vec<u64> = m.leaders().into_iter().collect();
                let pooled: Vec<u64> = m.pool.keys().copied().collect();
                let p = match r.weighted(&[50, 20, 20, 10]) {
                    0 if !leaders.is_empty() => *r.pick(&leaders),
                    1 if !pooled.is_empty() => *r.pick(&pooled),
                    2 => r.range(1, n),
                    _ => 5000 + r.below(3),
                };
                if m.leaders().contains(&p) {
                    let (d, _) = m.descendants(p);
                    for x in d {
                        m.pool.remove(&x);
                    }
                }
                ops.push(Op::Release { parent: p });
            }
            _ => {
                let tip = r.range(0, 26);
                // generator-side model: all direct children share an epoch, so the rule is exact
                for l in m.leaders() {
                    let kids = m.children(l);
                    if kids.iter().any(|k| m.pool[k].epoch + EXPIRED_EPOCH < tip) {
                        let (d, _) = m.descendants(l);
                        for x in d {
                            m.pool.remove(&x);
                        }
                    }
                }
                ops.push(Op::Clean { tip_epoch: tip });
            }
        }
    }
    Sc {
        engine: ENGINE.into(),
        seed,
        ops,
    }
}

/// alphabet of the bounded-exhaustive part: a 5-block forest under two absent parents
/// (1<-100, 2<-1, 3<-1, 4<-2, 5<-101), every release target, two clean-up epochs
pub fn alphabet() -> Vec<Op> {
    let ins = |id, parent, epoch, number| Op::Insert { id, parent, epoch, number };
    vec![
        ins(1, 100, 1, 11),
        ins(2, 1, 2, 12),
        ins(3, 1, 2, 12),
        ins(4, 2, 9, 13),
        ins(5, 101, 1, 21),
        Op::Release { parent: 100 },
        Op::Release { parent: 1 },
        Op::Release { parent: 2 },
        Op::Release { parent: 101 },
        Op::Clean { tip_epoch: 9 },
        Op::Clean { tip_epoch: 20 },
    ]
}

pub fn generate_enum(index: u64) -> Sc {
    Sc {
        engine: ENGINE.into(),
        seed: index,
        ops: crate::nth_sequence(&alphabet(), index),
    }
}

fn lonely(id: u64, b: &MBlock) -> LonelyBlockHash {
    LonelyBlockHash {
        block_number_and_hash: BlockNumberAndHash::new(b.number, h32(SPACE, id)),
        parent_hash: h32(SPACE, b.parent),
        epoch_number: b.epoch,
        switch: None,
        verify_callback: None,
    }
}

pub fn exec(sc: &Sc) -> RunResult {
    let mut cx = Ctx::new(sc.seed);
    let pool = OrphanBlockPool::with_capacity(8);
    let mut m = Model::default();
    // reverse map hash -> id for everything the scenario mentions
    let mut ids: BTreeMap<Vec<u8>, u64> = BTreeMap::new();
    let mut note = |i: u64| {
        ids.insert(h32(SPACE, i).as_slice_vec(), i);
    };
    for op in &sc.ops {
        match op {
            Op::Insert { id, parent, .. } => {
                note(*id);
                note(*parent);
            }
            Op::Release { parent } => note(*parent),
            Op::Clean { .. } => {}
        }
    }
    // a hash commits to its parent: the same id with two different parents is not a history
    {
        let mut seen: BTreeMap<u64, (u64, u64, u64)> = BTreeMap::new();
        for op in &sc.ops {
            if let Op::Insert { id, parent, epoch, number } = op {
                let v = (*parent, *epoch, *number);
                if *seen.entry(*id).or_insert(v) != v || id == parent {
                    cx.res.harness_error = Some(format!("inconsistent scenario: block {id} is given two different parents/epochs/numbers"));
                    return cx.finish();
                }
            }
        }
    }
    let mut multi_level = false;

    // decode a released list into ids, checking item identity and "each once"
    let decode = |cx: &mut Ctx, m: &Model, got: &[LonelyBlockHash], why: &str| -> Option<BTreeSet<u64>> {
        let mut set = BTreeSet::new();
        for g in got {
            let Some(id) = ids.get(&g.hash().as_slice_vec()).copied() else {
                cx.viol(&format!("orphan:{why}:returned_unknown_block"), format!("hash {}", g.hash()));
                return None;
            };
            if !set.insert(id) {
                cx.viol(&format!("orphan:{why}:returned_twice"), format!("block {id} returned more than once"));
                return None;
            }
            match m.pool.get(&id) {
                None => {
                    cx.viol(&format!("orphan:{why}:returned_block_not_stored"), format!("block {id} is not in the pool by the model"));
                    return None;
                }
                Some(b) => {
                    if g.parent_hash() != h32(SPACE, b.parent) || g.epoch_number() != b.epoch || g.number() != b.number {
                        cx.viol(&format!("orphan:{why}:returned_item_differs"), format!("block {id}: fields differ from what was inserted"));
                        return None;
                    }
                }
            }
        }
        Some(set)
    };

    macro_rules! check_views {
        ($why:expr) => {{
            let len = pool.len();
            if len != m.pool.len() {
                cx.viol(
                    &format!("orphan:{}:len_mismatch", $why),
                    format!("len()={} model={}", len, m.pool.len()),
                );
            }
            let real = pool.clone_leaders();
            let mut rs = BTreeSet::new();
            let mut bad = false;
            for l in &real {
                match ids.get(&l.as_slice_vec()) {
                    Some(i) => {
                        if !rs.insert(*i) {
                            bad = true;
                        }
                    }
                    None => bad = true,
                }
            }
            let want = m.leaders();
            if bad || rs != want {
                cx.viol(
                    &format!("orphan:{}:leaders_mismatch", $why),
                    format!("clone_leaders()={:?} (raw len {}) but parents absent from the pool={:?}", rs, real.len(), want),
                );
            }
            cx.ev(&format!("len={} leaders={:?}", len, rs));
            let depth = want.iter().map(|l| m.descendants(*l).1).max().unwrap_or(0);
            cx.res.states.push(fp(&[0x0A, m.pool.len() as u64, want.len() as u64, depth]));
        }};
    }

    for (opi, op) in sc.ops.iter().enumerate() {
        if cx.failed() {
            break;
        }
        cx.res.steps += 1;
        match op {
            Op::Insert { id, parent, epoch, number } => {
                cx.il.write_u64(1);
                cx.il.write_u64(*id);
                cx.il.write_u64(*parent);
                cx.il.write_u64(*epoch);
                let b = MBlock {
                    parent: *parent,
                    epoch: *epoch,
                    number: *number,
                };
                if m.pool.contains_key(id) {
                    cx.res.faults.inc("duplicate_insert");
                }
                if !m.children(*id).is_empty() {
                    cx.res.probes.inc("parent_inserted_after_children");
                }
                if m.pool.contains_key(parent) {
                    cx.res.probes.inc("insert_under_pooled_parent");
                }
                if let Err(e) = guarded(|| pool.insert(lonely(*id, &b))) {
                    cx.viol("orphan:insert:panic", format!("op {opi}: {e}"));
                    break;
                }
                m.pool.insert(*id, b);
                cx.ev(&format!("insert {id}<-{parent} e{epoch}"));
                check_views!("insert");
            }
            Op::Release { parent } => {
                cx.il.write_u64(2);
                cx.il.write_u64(*parent);
                let is_leader = m.leaders().contains(parent);
                let (want, levels) = m.descendants(*parent);
                let got = match guarded(|| pool.remove_blocks_by_parent(&h32(SPACE, *parent))) {
                    Ok(g) => g,
                    Err(e) => {
                        cx.viol("orphan:release:panic", format!("op {opi} parent {parent}: {e}"));
                        break;
                    }
                };
                let Some(set) = decode(&mut cx, &m, &got, "release") else { break };
                if is_leader {
                    if set != want {
                        cx.viol(
                            "orphan:release:wrong_descendants",
                            format!("release({parent}) returned {set:?}, stored descendants are {want:?}"),
                        );
                        break;
                    }
                    cx.res.probes.inc("release_leader");
                    if want.len() >= 2 && levels >= 2 {
                        cx.res.probes.inc("release_multi_level_subtree");
                        multi_level = true;
                    }
                    if m.pool.len() > want.len() {
                        cx.res.probes.inc("release_keeps_other_subtrees");
                    }
                } else {
                    // pooled or unknown parent: the code releases nothing; releasing exactly the
                    // descendants would also satisfy the property
                    if !(set.is_empty() || set == want) {
                        cx.viol(
                            "orphan:release:non_leader_partial",
                            format!("release({parent}) (not a leader) returned {set:?}; descendants {want:?}"),
                        );
                        break;
                    }
                    if m.pool.contains_key(parent) {
                        cx.res.probes.inc(if want.is_empty() { "release_pooled_leaf" } else { "release_pooled_parent_with_children" });
                    } else {
                        cx.res.probes.inc("release_unknown_parent");
                    }
                }
                for x in &set {
                    m.pool.remove(x);
                }
                cx.ev(&format!("release {parent} -> {set:?}"));
                check_views!("release");
            }
            Op::Clean { tip_epoch } => {
                cx.il.write_u64(3);
                cx.il.write_u64(*tip_epoch);
                let before = m.clone();
                let got = match guarded(|| pool.clean_expired_blocks(*tip_epoch)) {
                    Ok(g) => g,
                    Err(e) => {
                        cx.viol("orphan:clean:panic", format!("op {opi}: {e}"));
                        break;
                    }
                };
                let Some(set) = decode(&mut cx, &m, &got, "clean") else { break };
                let expired = |b: &MBlock| b.epoch + EXPIRED_EPOCH < *tip_epoch;
                let mut cleaned = 0;
                let mut kept = 0;
                for l in before.leaders() {
                    let (d, _) = before.descendants(l);
                    let inter = d.intersection(&set).count();
                    if inter != 0 && inter != d.len() {
                        cx.viol(
                            "orphan:clean:partial_subtree",
                            format!("clean({tip_epoch}) returned part of the subtree under leader {l}: {:?} of {d:?}", d.intersection(&set).collect::<Vec<_>>()),
                        );
                        break;
                    }
                    let kids = before.children(l);
                    let all_kids_expired = kids.iter().all(|k| expired(&before.pool[k]));
                    let any_kid_expired = kids.iter().any(|k| expired(&before.pool[k]));
                    let none_expired = d.iter().all(|k| !expired(&before.pool[k]));
                    if all_kids_expired && inter == 0 {
                        cx.viol(
                            "orphan:clean:expired_kept",
                            format!("clean({tip_epoch}): every direct child of leader {l} is expired but its subtree was kept"),
                        );
                        break;
                    }
                    if none_expired && inter != 0 {
                        cx.viol(
                            "orphan:clean:fresh_removed",
                            format!("clean({tip_epoch}): no block under leader {l} is expired but its subtree was removed"),
                        );
                        break;
                    }
                    if any_kid_expired && !all_kids_expired {
                        cx.res.probes.inc("clean_mixed_sibling_epochs");
                    }
                    if inter != 0 {
                        cleaned += 1;
                    } else {
                        kept += 1;
                    }
                }
                if cx.failed() {
                    break;
                }
                if cleaned > 0 {
                    cx.res.probes.inc("clean_removed_subtree");
                }
                if cleaned > 0 && kept > 0 {
                    cx.res.probes.inc("clean_partial_pool");
                }
                for x in &set {
                    m.pool.remove(x);
                }
                cx.ev(&format!("clean {tip_epoch} -> {set:?}"));
                check_views!("clean");
            }
        }
    }
    // epilogue: "keeps exactly the rest" — drain every leader and compare with the model
    if !cx.failed() {
        let mut leaders: BTreeSet<u64> = m.leaders();
        for l in pool.clone_leaders() {
            if let Some(i) = ids.get(&l.as_slice_vec()) {
                leaders.insert(*i);
            }
        }
        for l in leaders {
            let (want, _) = m.descendants(l);
            let got = match guarded(|| pool.remove_blocks_by_parent(&h32(SPACE, l))) {
                Ok(g) => g,
                Err(e) => {
                    cx.viol("orphan:drain:panic", format!("leader {l}: {e}"));
                    break;
                }
            };
            let Some(set) = decode(&mut cx, &m, &got, "drain") else { break };
            if set != want {
                cx.viol(
                    "orphan:drain:kept_set_differs",
                    format!("final release({l}) returned {set:?}, model keeps {want:?}"),
                );
                break;
            }
            for x in &set {
                m.pool.remove(x);
            }
        }
        if !cx.failed() && (pool.len() != 0 || !m.pool.is_empty() || !pool.clone_leaders().is_empty()) {
            cx.viol(
                "orphan:drain:not_empty",
                format!("after releasing every leader len()={} leaders={} model={}", pool.len(), pool.clone_leaders().len(), m.pool.len()),
            );
        }
    }
    cx.res.nontrivial = multi_level;
    cx.finish()
}

trait SliceVec {
    fn as_slice_vec(&self) -> Vec<u8>;
}
impl SliceVec for ckb_types::packed::Byte32 {
    fn as_slice_vec(&self) -> Vec<u8> {
        use ckb_types::prelude::Entity;
        self.as_slice().to_vec()
    }
}
