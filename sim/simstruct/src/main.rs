//! E-STRUCT: deterministic simulation of ckb's sync bookkeeping structures (property C17).
//!
//! Four scenario kinds, each a seeded, explicit operation list executed against the REAL
//! structure from /repo and a trivial reference model, compared after every operation:
//!
//! * `orphan`    — `ckb_chain::verif::OrphanBlockPool` vs `Map<hash,(parent,epoch)>`
//! * `inflight`  — `ckb_sync` `InflightBlocks` on the faketime clock vs two plain maps
//! * `headermap` — `ckb_shared::HeaderMap` (real sled backend, spills placed by the simulator)
//!   vs `HashMap`
//! * `ancestor`  — `HeaderIndexView::{build_skip,get_ancestor}` vs walking parent links
//! * `locator`   — `ActiveChain::{get_locator,get_ancestor}` on a real `SyncShared` vs walking
//!   parent links
//!
//! Every run is a pure function of its scenario. Verdicts and the event-log hash use only
//! order-independent (sorted) observations, so `HashMap` `RandomState` never matters.

mod ancestor;
mod headermap;
mod inflight;
mod locator;
mod orphan;

use ckb_types::{packed::Byte32, prelude::*};
use serde::{Deserialize, Serialize};
use simcore::*;
use std::collections::{BTreeMap, BTreeSet};
use std::path::{Path, PathBuf};

pub const PROP: &str = "C17";
pub const ENGINE: &str = "simstruct";

#[derive(Clone, Debug, Serialize, Deserialize)]
#[serde(tag = "kind", rename_all = "lowercase")]
pub enum Scenario {
    Orphan(orphan::Sc),
    Inflight(inflight::Sc),
    Headermap(headermap::Sc),
    Ancestor(ancestor::Sc),
    Locator(locator::Sc),
}

/// fake 32-byte hash of a small integer in a name space; spread so that neither hash-map
/// placement nor BTreeMap order follows the ids
pub fn h32(space: u64, id: u64) -> Byte32 {
    let mut r = Rng::new(id.wrapping_mul(0x9E37_79B9).wrapping_add(space.wrapping_mul(0xABCD_EF01_2345)));
    let b = r.bytes(32);
    Byte32::from_slice(&b).expect("32 bytes")
}

/// bounded-exhaustive enumeration: the `index`-th sequence over `alphabet`, shortest first
/// (index 0..k are the sequences of length 1, the next k^2 those of length 2, ...)
pub fn nth_sequence<T: Clone>(alphabet: &[T], index: u64) -> Vec<T> {
    let k = alphabet.len() as u64;
    let mut rest = index;
    let mut len = 1u32;
    while rest >= k.pow(len) {
        rest -= k.pow(len);
        len += 1;
    }
    let mut out = Vec::with_capacity(len as usize);
    for _ in 0..len {
        out.push(alphabet[(rest % k) as usize].clone());
        rest /= k;
    }
    out
}

/// number of sequences of length 1..=max_len over an alphabet of k symbols
pub fn sequences_up_to(k: u64, max_len: u32) -> u64 {
    (1..=max_len).map(|l| k.pow(l)).sum()
}

pub struct Ctx {
    pub res: RunResult,
    pub log: Fnv,
    pub il: Fnv,
}
impl Ctx {
    pub fn new(seed: u64) -> Self {
        Ctx {
            res: RunResult {
                seed,
                ..Default::default()
            },
            log: Fnv::new(),
            il: Fnv::new(),
        }
    }
    pub fn ev(&mut self, s: &str) {
        self.log.write_str(s);
    }
    pub fn viol(&mut self, class: &str, detail: String) {
        if self.res.violation.is_none() {
            self.res.violation = Some(Violation {
                property: PROP.into(),
                class: class.into(),
                detail,
            });
        }
    }
    pub fn failed(&self) -> bool {
        self.res.violation.is_some() || self.res.harness_error.is_some()
    }
    pub fn finish(mut self) -> RunResult {
        self.res.log_hash = self.log.finish();
        self.res.interleaving = self.il.finish();
        self.res.states.sort_unstable();
        self.res.states.dedup();
        self.res
    }
}

thread_local! {
    pub static QUIET_PANIC: std::cell::Cell<bool> = const { std::cell::Cell::new(false) };
}

/// run a call into the real code; a panic inside it (debug assertion, expect) is reported as
/// a violation of the given class by the caller
pub fn guarded<T>(f: impl FnOnce() -> T) -> Result<T, String> {
    QUIET_PANIC.with(|q| q.set(true));
    let r = std::panic::catch_unwind(std::panic::AssertUnwindSafe(f));
    QUIET_PANIC.with(|q| q.set(false));
    r.map_err(|e| {
        if let Some(s) = e.downcast_ref::<String>() {
            s.clone()
        } else if let Some(s) = e.downcast_ref::<&str>() {
            s.to_string()
        } else {
            "panic".to_string()
        }
    })
}

fn scratch_root() -> PathBuf {
    let base = if Path::new("/dev/shm").is_dir() {
        PathBuf::from("/dev/shm")
    } else {
        std::env::temp_dir()
    };
    base.join(format!("verif-struct-{}", std::process::id()))
}

pub fn gen_scenario(kind: &str, seed: u64) -> Scenario {
    match kind {
        "orphan" => Scenario::Orphan(orphan::generate(seed)),
        "inflight" => Scenario::Inflight(inflight::generate(seed)),
        "headermap" => Scenario::Headermap(headermap::generate(seed)),
        "ancestor" => Scenario::Ancestor(ancestor::generate(seed)),
        "locator" => Scenario::Locator(locator::generate(seed)),
        "orphan-enum" => Scenario::Orphan(orphan::generate_enum(seed)),
        "inflight-enum" => Scenario::Inflight(inflight::generate_enum(seed)),
        "headermap-enum" => Scenario::Headermap(headermap::generate_enum(seed)),
        "ancestor-enum" => Scenario::Ancestor(ancestor::generate_enum(seed)),
        _ => panic!("unknown kind {kind} (orphan|inflight|headermap|ancestor|locator)"),
    }
}

pub fn exec_scenario(sc: &Scenario, root: &Path) -> RunResult {
    match sc {
        Scenario::Orphan(s) => orphan::exec(s),
        Scenario::Inflight(s) => inflight::exec(s),
        Scenario::Headermap(s) => headermap::exec(s, root),
        Scenario::Ancestor(s) => ancestor::exec(s),
        Scenario::Locator(s) => locator::exec(s, root),
    }
}

#[derive(Serialize, Deserialize)]
struct WorkerOut {
    batch: BatchResult,
    inter: Vec<u64>,
    state: Vec<u64>,
    nontrivial: Vec<u64>,
}

/// per-thread partial aggregate: keeps the channel of `parallel_seeds` empty of bulky values
#[derive(Default)]
struct Partial {
    batch: BatchResult,
    /// failing runs by seed (the 50 smallest seeds are kept)
    failed: BTreeMap<u64, FailedRun>,
    /// seeds of small non-trivial passing runs (the 3 smallest are kept)
    sample_seeds: BTreeSet<u64>,
}

fn run_batch(kind: &str, lo: u64, hi: u64, threads: usize, root: &Path) -> BatchResult {
    use std::sync::Mutex;
    use std::sync::atomic::{AtomicUsize, Ordering};
    let threads = threads.max(1);
    let slots: Vec<Mutex<Partial>> = (0..threads).map(|_| Mutex::new(Partial::default())).collect();
    let next_slot = AtomicUsize::new(0);
    thread_local! {
        static SLOT: std::cell::Cell<usize> = const { std::cell::Cell::new(usize::MAX) };
    }
    // a previous batch on this (main) thread may have left a slot number behind
    SLOT.with(|s| s.set(usize::MAX));
    parallel_seeds(
        lo,
        hi,
        threads,
        |seed| {
            let slot = SLOT.with(|s| {
                if s.get() == usize::MAX {
                    s.set(next_slot.fetch_add(1, Ordering::Relaxed) % threads);
                }
                s.get()
            });
            let sc = gen_scenario(kind, seed);
            let mut res = exec_scenario(&sc, root);
            let mut p = slots[slot].lock().unwrap();
            if let Some(v) = res.violation.take() {
                p.failed.insert(
                    seed,
                    FailedRun {
                        seed,
                        violation: v,
                        scenario: serde_json::to_value(&sc).unwrap(),
                    },
                );
                if p.failed.len() > 50 {
                    p.failed.pop_last();
                }
            } else if res.nontrivial && res.steps <= 40 {
                p.sample_seeds.insert(seed);
                if p.sample_seeds.len() > 3 {
                    p.sample_seeds.pop_last();
                }
            }
            p.batch.absorb(&res, || serde_json::Value::Null);
        },
        |_, ()| {},
    );
    let mut batch = BatchResult::new(ENGINE);
    let mut failed: BTreeMap<u64, FailedRun> = BTreeMap::new();
    let mut sample_seeds: BTreeSet<u64> = BTreeSet::new();
    for s in slots {
        let p = s.into_inner().unwrap();
        batch.merge(p.batch);
        failed.extend(p.failed);
        sample_seeds.extend(p.sample_seeds);
    }
    batch.violations = failed.into_values().take(50).collect();
    batch.samples = sample_seeds
        .into_iter()
        .take(3)
        .map(|seed| serde_json::to_value(gen_scenario(kind, seed)).unwrap())
        .collect();
    batch
}

/// Runs a batch in child processes and merges their exact sets.
///
/// * `inflight`: `InflightBlocks` reads the process-global faketime clock, so two inflight runs
///   must never overlap inside one process: `parallel` single-threaded workers at a time.
/// * `locator`: the per-thread nodes (RocksDB, sled files, allocator arenas) grow with the
///   number of runs: chunks of `chunk` seeds, one multi-threaded worker process after another.
fn run_batch_in_workers(kind: &str, lo: u64, hi: u64, parallel: usize, worker_threads: usize, chunk: Option<u64>) -> BatchResult {
    let n = hi.saturating_sub(lo);
    let exe = std::env::current_exe().expect("current_exe");
    let ranges: Vec<(u64, u64)> = match chunk {
        Some(c) => (0..n.div_ceil(c.max(1))).map(|i| (lo + i * c, (lo + (i + 1) * c).min(hi))).collect(),
        None => {
            let workers = (parallel.max(1) as u64).min(n.max(1));
            (0..workers).map(|w| (lo + n * w / workers, lo + n * (w + 1) / workers)).collect()
        }
    };
    let mut batch = BatchResult::new(ENGINE);
    for group in ranges.chunks(parallel.max(1)) {
        let mut children = Vec::new();
        for (a, b) in group {
            let child = std::process::Command::new(&exe)
                .args(["batch-worker", "--kind", kind, "--seeds", &format!("{a}..{b}"), "--threads", &worker_threads.to_string()])
                .stdout(std::process::Stdio::piped())
                .spawn()
                .expect("spawn worker");
            children.push(child);
        }
        for child in children {
            let out = child.wait_with_output().expect("worker output");
            let text = String::from_utf8_lossy(&out.stdout);
            let line = text.lines().rev().find(|l| l.trim_start().starts_with('{'));
            match line.and_then(|l| serde_json::from_str::<WorkerOut>(l).ok()) {
                Some(w) => {
                    let mut b = w.batch;
                    b.inter_set = w.inter.into_iter().collect::<BTreeSet<u64>>();
                    b.state_set = w.state.into_iter().collect();
                    b.nontrivial_set = w.nontrivial.into_iter().collect();
                    batch.merge(b);
                }
                None => batch
                    .harness_errors
                    .push(format!("worker exited {:?} without a result", out.status.code())),
            }
        }
    }
    batch
}

const LOCATOR_CHUNK: u64 = 40_000;

fn main() {
    let args: Vec<String> = std::env::args().collect();
    let mode = args.get(1).map(|s| s.as_str()).unwrap_or("");
    let default_hook = std::panic::take_hook();
    std::panic::set_hook(Box::new(move |info| {
        if !QUIET_PANIC.with(|q| q.get()) {
            default_hook(info);
        }
    }));
    let root = scratch_root();
    // SharedBuilder::with_temp_db (locator kind) puts its RocksDB under std::env::temp_dir()
    // and never removes it: point it into the scratch root, which is removed at exit
    // SAFETY: no other thread exists yet
    unsafe { std::env::set_var("TMPDIR", &root) };
    let kind = arg_value(&args, "--kind").unwrap_or_else(|| "orphan".into());
    let code = match mode {
        "gen" => {
            let seed: u64 = arg_value(&args, "--seed").unwrap().parse().unwrap();
            let sc = gen_scenario(&kind, seed);
            println!("{}", serde_json::to_string_pretty(&sc).unwrap());
            0
        }
        "exec" => {
            let path = arg_value(&args, "--scenario").unwrap();
            let sc: Scenario = serde_json::from_str(&std::fs::read_to_string(path).unwrap()).unwrap();
            let res = exec_scenario(&sc, &root);
            println!("{}", serde_json::to_string(&res).unwrap());
            0
        }
        "batch" => {
            // `--enumerate L` with an X-enum kind: every sequence up to length L (ancestor: trunk length L)
            let (lo, hi) = match arg_value(&args, "--enumerate") {
                Some(l) => {
                    let l: u64 = l.parse().unwrap();
                    let total = match kind.as_str() {
                        "orphan-enum" => sequences_up_to(orphan::alphabet().len() as u64, l as u32),
                        "inflight-enum" => sequences_up_to(inflight::alphabet().len() as u64, l as u32),
                        "headermap-enum" => sequences_up_to(headermap::alphabet().len() as u64, l as u32),
                        "ancestor-enum" => ancestor::enum_total(l),
                        _ => panic!("--enumerate needs --kind orphan-enum|inflight-enum|headermap-enum|ancestor-enum"),
                    };
                    (0, total)
                }
                None => parse_seed_range(&arg_value(&args, "--seeds").unwrap()),
            };
            let threads: usize = arg_value(&args, "--threads").map(|s| s.parse().unwrap()).unwrap_or(16);
            let mut batch = if kind.starts_with("inflight") {
                run_batch_in_workers(&kind, lo, hi, threads, 1, None)
            } else if kind == "locator" && hi.saturating_sub(lo) > LOCATOR_CHUNK {
                run_batch_in_workers(&kind, lo, hi, 1, threads, Some(LOCATOR_CHUNK))
            } else {
                run_batch(&kind, lo, hi, threads, &root)
            };
            batch.finish();
            println!("{}", serde_json::to_string(&batch).unwrap());
            0
        }
        "batch-worker" => {
            let (lo, hi) = parse_seed_range(&arg_value(&args, "--seeds").unwrap());
            let threads: usize = arg_value(&args, "--threads").map(|s| s.parse().unwrap()).unwrap_or(1);
            let mut batch = run_batch(&kind, lo, hi, threads, &root);
            batch.finish();
            let out = WorkerOut {
                inter: batch.inter_set.iter().copied().collect(),
                state: batch.state_set.iter().copied().collect(),
                nontrivial: batch.nontrivial_set.iter().copied().collect(),
                batch,
            };
            println!("{}", serde_json::to_string(&out).unwrap());
            0
        }
        _ => {
            eprintln!("usage: simstruct gen --kind K --seed S | exec --scenario FILE | batch --kind K --seeds a..b --threads N   (K = orphan|inflight|headermap|ancestor|locator)");
            2
        }
    };
    let _ = std::fs::remove_dir_all(&root);
    std::process::exit(code);
}
