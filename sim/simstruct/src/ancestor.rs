//! Skip-list ancestor lookup: real `HeaderIndexView::{build_skip,get_ancestor}` vs walking
//! parent links one by one.
//!
//! Headers are created the way `SyncShared::insert_valid_header` does it
//! (`HeaderIndexView::new` + `build_skip(tip_number, get_header_index_view, main-chain
//! shortcut)`), looked up the way `SyncShared::get_header_index_view` does it (store first or
//! header map first; a view that comes from the store has no skip pointer), and queried the
//! way `ActiveChain::get_ancestor` does it. The "store", the "header map" and the main chain
//! are plain maps owned by the simulator: the main chain moves (`Store`), headers leave the
//! header map once stored (`Forget`), so a walk meets views with and without skip pointers and
//! the shortcut fires at arbitrary points.
//!
//! Property text -> oracle: `get_ancestor(tip, n)` returns the header reached by following
//! parent links from `tip` down to height `n` (same hash, number, parent, difficulty), `None`
//! iff `n > tip.number`. `Locator` issues exactly the (base, index) sequence of
//! `ActiveChain::get_locator` and compares every element; `get_locator` itself needs a full
//! `SyncShared` and is NOT executed here.
//! A lookup budget turns a non-terminating walk into a violation instead of a hang.

use crate::{Ctx, ENGINE, guarded, h32};
use ckb_shared::types::HeaderIndexView;
use ckb_types::{BlockNumberAndHash, U256, core::EpochNumberWithFraction, packed::Byte32};
use serde::{Deserialize, Serialize};
use simcore::*;
use std::cell::Cell;
use std::collections::{BTreeMap, HashMap};

#[derive(Clone, Debug, Serialize, Deserialize)]
#[serde(tag = "op")]
pub enum Op {
    /// append `count` headers with ids first_id.. on top of header `from` (0 = genesis)
    Extend { from: u64, count: u64, first_id: u64 },
    /// blocks up to `id` become stored and the main chain ends at `id`
    Store { id: u64 },
    /// a stored header leaves the header map (only its skip-less store view remains)
    Forget { id: u64 },
    Query { tip: u64, number: u64 },
    /// the (base, index) queries of ActiveChain::get_locator starting at `tip`
    Locator { tip: u64 },
}

#[derive(Clone, Debug, Serialize, Deserialize)]
pub struct Sc {
    pub engine: String,
    pub seed: u64,
    pub ops: Vec<Op>,
}

const SPACE: u64 = 4;
const ONE_DAY_BLOCK_NUMBER: u64 = 8192; // sync/src/types/mod.rs

struct Node {
    number: u64,
    parent: u64,
    hash: Byte32,
    parent_hash: Byte32,
    td: U256,
    /// the view kept by the header map (with skip pointer), if still there
    hm: Option<HeaderIndexView>,
    stored: bool,
}

struct State {
    nodes: BTreeMap<u64, Node>,
    by_hash: HashMap<Byte32, u64>,
    /// main[number] = id
    main: Vec<u64>,
}

fn epoch_of(number: u64) -> EpochNumberWithFraction {
    EpochNumberWithFraction::new(number / 1000, number % 1000, 1000)
}

impl State {
    fn tip_number(&self) -> u64 {
        self.main.len() as u64 - 1
    }
    fn store_view(&self, id: u64) -> HeaderIndexView {
        let n = &self.nodes[&id];
        HeaderIndexView::new(n.hash.clone(), n.number, epoch_of(n.number), n.number * 8, n.parent_hash.clone(), n.td.clone())
    }
    /// SyncShared::get_header_index_view
    fn lookup(&self, hash: &Byte32, store_first: bool) -> Option<HeaderIndexView> {
        let id = *self.by_hash.get(hash)?;
        let n = &self.nodes[&id];
        let from_store = || if n.stored { Some(self.store_view(id)) } else { None };
        if store_first {
            from_store().or_else(|| n.hm.clone())
        } else {
            n.hm.clone().or_else(from_store)
        }
    }
    fn on_main(&self, number: u64, hash: &Byte32) -> bool {
        self.main.get(number as usize).map(|id| &self.nodes[id].hash == hash).unwrap_or(false)
    }
    /// reference: follow parent links one by one
    fn walk(&self, tip: u64, number: u64) -> Option<u64> {
        let mut cur = tip;
        if number > self.nodes[&cur].number {
            return None;
        }
        while self.nodes[&cur].number > number {
            cur = self.nodes[&cur].parent;
        }
        Some(cur)
    }
}

pub fn generate(seed: u64) -> Sc {
    let mut r = Rng::new(seed ^ 0x0C17_0D04);
    let trunk = match r.below(40) {
        // get_locator samples low heights only when index > 8192 while step > index/2,
        // which needs a chain of about 24.6k headers
        0 => {
            if r.chance(1, 3) {
                r.range(24_600, 27_000)
            } else {
                r.range(8_200, 9_500)
            }
        }
        1..=6 => r.range(300, 2_500),
        7..=20 => r.range(20, 300),
        _ => r.range(1, 20),
    };
    // generator-side picture: id -> (number, parent)
    let mut info: BTreeMap<u64, (u64, u64)> = BTreeMap::new();
    info.insert(0, (0, 0));
    let mut ids: Vec<u64> = vec![0];
    let mut next_id = 1u64;
    let mut ops = Vec::new();
    let mut main_tip = 0u64;
    let extend = |ops: &mut Vec<Op>, info: &mut BTreeMap<u64, (u64, u64)>, ids: &mut Vec<u64>, next_id: &mut u64, from: u64, count: u64| {
        ops.push(Op::Extend {
            from,
            count,
            first_id: *next_id,
        });
        let mut p = from;
        for _ in 0..count {
            let n = info[&p].0 + 1;
            info.insert(*next_id, (n, p));
            ids.push(*next_id);
            p = *next_id;
            *next_id += 1;
        }
    };
    // sometimes part of the trunk is stored before the rest of the headers arrive
    let first = if r.chance(1, 2) { trunk } else { r.range(1, trunk) };
    extend(&mut ops, &mut info, &mut ids, &mut next_id, 0, first);
    let nops = r.urange(4, 40);
    for _ in 0..nops {
        let pick_node = |r: &mut Rng, ids: &Vec<u64>| -> u64 {
            if r.chance(1, 2) {
                // recent / deep nodes
                let k = ids.len();
                ids[k - 1 - r.idx(k.min(8))]
            } else {
                *r.pick(ids)
            }
        };
        match r.weighted(&[18, 12, 8, 50, 10]) {
            0 => {
                let from = pick_node(&mut r, &ids);
                let count = match r.below(3) {
                    0 => r.range(1, 4),
                    1 => r.range(1, 40),
                    _ => r.range(1, (trunk / 2).max(1)),
                };
                extend(&mut ops, &mut info, &mut ids, &mut next_id, from, count);
            }
            1 => {
                let id = pick_node(&mut r, &ids);
                main_tip = id;
                ops.push(Op::Store { id });
            }
            2 => {
                // forget a stretch of headers below the main tip
                let mut cur = main_tip;
                let hops = r.below(6);
                for _ in 0..hops {
                    cur = info[&cur].1;
                }
                for _ in 0..r.range(1, 12) {
                    if cur == 0 {
                        break;
                    }
                    ops.push(Op::Forget { id: cur });
                    cur = info[&cur].1;
                }
            }
            3 => {
                let tip = pick_node(&mut r, &ids);
                let tn = info[&tip].0;
                let number = match r.below(9) {
                    0 => 0,
                    1 => tn,
                    2 => tn + 1,
                    3 => tn + r.range(1, 1000),
                    4 => tn.saturating_sub(1),
                    5 => tn & tn.wrapping_sub(1).min(tn),
                    6 => info[&main_tip].0.min(tn),
                    7 => (info[&main_tip].0 + 1).min(tn),
                    _ => r.range(0, tn),
                };
                ops.push(Op::Query { tip, number });
            }
            _ => ops.push(Op::Locator {
                tip: pick_node(&mut r, &ids),
            }),
        }
    }
    Sc {
        engine: ENGINE.into(),
        seed,
        ops,
    }
}

/// bounded-exhaustive part: every trunk length n in 1..=max, every fork point f in 0..=n
/// (f == n: no fork), branch length in {1,2,5}, main tip in {genesis, fork point, trunk tip};
/// then EVERY (tip, number) query for the trunk tip and the branch tip, number 0..=tip+1
pub fn enum_total(max_trunk: u64) -> u64 {
    (1..=max_trunk).map(|n| (n + 1) * 9).sum()
}

pub fn generate_enum(index: u64) -> Sc {
    let mut rest = index;
    let mut n = 1u64;
    while rest >= (n + 1) * 9 {
        rest -= (n + 1) * 9;
        n += 1;
    }
    let f = rest / 9;
    let b = [1u64, 2, 5][(rest % 9 / 3) as usize];
    let m = rest % 3;
    let mut ops = vec![Op::Extend { from: 0, count: n, first_id: 1 }];
    let main = match m {
        0 => 0,
        1 => f,
        _ => n,
    };
    // half of the cases store the main chain before the fork's headers arrive
    if main != 0 && (f + n) % 2 == 0 {
        ops.push(Op::Store { id: main });
    }
    let mut tips = vec![(n, n)];
    if f < n {
        ops.push(Op::Extend { from: f, count: b, first_id: n + 1 });
        tips.push((n + b, f + b));
    }
    if main != 0 && (f + n) % 2 == 1 {
        ops.push(Op::Store { id: main });
    }
    if m == 2 && n >= 3 {
        ops.push(Op::Forget { id: n - 1 });
        ops.push(Op::Forget { id: n / 2 });
    }
    for (tip, tn) in tips {
        for number in 0..=tn + 1 {
            ops.push(Op::Query { tip, number });
        }
        ops.push(Op::Locator { tip });
    }
    Sc {
        engine: ENGINE.into(),
        seed: index,
        ops,
    }
}

pub fn exec(sc: &Sc) -> RunResult {
    let mut cx = Ctx::new(sc.seed);
    let genesis_hash = h32(SPACE, 0);
    let mut st = State {
        nodes: BTreeMap::new(),
        by_hash: HashMap::new(),
        main: vec![0],
    };
    st.nodes.insert(
        0,
        Node {
            number: 0,
            parent: 0,
            hash: genesis_hash.clone(),
            parent_hash: Byte32::zero(),
            td: U256::from(1u64),
            hm: None,
            stored: true,
        },
    );
    st.by_hash.insert(genesis_hash, 0);
    let calls = Cell::new(0u64);
    let shortcut = Cell::new(false);
    let mut nontrivial = false;
    let mut forks = 0u64;

    // one real query, the way ActiveChain::get_ancestor_internal issues it
    let real_query = |st: &State, base: &Byte32, number: u64| -> Result<Option<HeaderIndexView>, String> {
        let budget = 4 * st.nodes.len() as u64 + 1000;
        calls.set(0);
        shortcut.set(false);
        let tip_number = st.tip_number();
        guarded(|| {
            let look = |h: &Byte32, store_first: bool| {
                calls.set(calls.get() + 1);
                if calls.get() > budget {
                    panic!("VERIF lookup budget exceeded");
                }
                st.lookup(h, store_first)
            };
            let fast = |n: u64, cur: BlockNumberAndHash| {
                if cur.number <= tip_number && st.on_main(cur.number, &cur.hash) {
                    shortcut.set(true);
                    st.main.get(n as usize).and_then(|id| st.lookup(&st.nodes[id].hash, true))
                } else {
                    None
                }
            };
            st.lookup(base, false)?.get_ancestor(tip_number, number, look, fast)
        })
    };

    for (opi, op) in sc.ops.iter().enumerate() {
        if cx.failed() {
            break;
        }
        cx.res.steps += 1;
        match op {
            Op::Extend { from, count, first_id } => {
                cx.il.write_u64(1);
                cx.il.write_u64(*from);
                cx.il.write_u64(*count);
                cx.il.write_u64(*first_id);
                if !st.nodes.contains_key(from) {
                    continue; // shrunk away
                }
                if st.nodes.values().any(|n| n.parent == *from && n.number > 0) {
                    forks += 1;
                    cx.res.probes.inc("fork_created");
                }
                let mut parent = *from;
                for i in 0..*count {
                    let id = *first_id + i;
                    if st.nodes.contains_key(&id) {
                        break;
                    }
                    let (pn, ph, ptd) = {
                        let p = &st.nodes[&parent];
                        (p.number, p.hash.clone(), p.td.clone())
                    };
                    let number = pn + 1;
                    let hash = h32(SPACE, id);
                    let td = ptd + U256::from(1 + id % 3);
                    let mut view = HeaderIndexView::new(hash.clone(), number, epoch_of(number), number * 8, ph.clone(), td.clone());
                    // SyncShared::insert_valid_header
                    let tip_number = st.tip_number();
                    calls.set(0);
                    let budget = 4 * st.nodes.len() as u64 + 1000;
                    let built = guarded(|| {
                        let look = |h: &Byte32, store_first: bool| {
                            calls.set(calls.get() + 1);
                            if calls.get() > budget {
                                panic!("VERIF lookup budget exceeded");
                            }
                            st.lookup(h, store_first)
                        };
                        let fast = |n: u64, cur: BlockNumberAndHash| {
                            if cur.number <= tip_number && st.on_main(cur.number, &cur.hash) {
                                st.main.get(n as usize).and_then(|id| st.lookup(&st.nodes[id].hash, true))
                            } else {
                                None
                            }
                        };
                        view.build_skip(tip_number, look, fast);
                    });
                    if let Err(e) = built {
                        let class = if e.contains("VERIF lookup budget") { "ancestor:build_skip:lookup_budget_exceeded" } else { "ancestor:build_skip:panic" };
                        cx.viol(class, format!("op {opi} header {id} (number {number}): {e}"));
                        break;
                    }
                    if view.skip_hash().is_none() {
                        cx.viol("ancestor:build_skip:no_skip_pointer", format!("header {id} (number {number}): build_skip found no ancestor although every ancestor is known"));
                        break;
                    }
                    st.by_hash.insert(hash.clone(), id);
                    st.nodes.insert(
                        id,
                        Node {
                            number,
                            parent,
                            hash,
                            parent_hash: ph,
                            td,
                            hm: Some(view),
                            stored: false,
                        },
                    );
                    parent = id;
                }
                cx.ev(&format!("extend {from} +{count} -> {} nodes", st.nodes.len()));
            }
            Op::Store { id } => {
                cx.il.write_u64(2);
                cx.il.write_u64(*id);
                if !st.nodes.contains_key(id) {
                    continue;
                }
                let mut path = Vec::new();
                let mut cur = *id;
                loop {
                    path.push(cur);
                    if cur == 0 {
                        break;
                    }
                    cur = st.nodes[&cur].parent;
                }
                path.reverse();
                for p in &path {
                    st.nodes.get_mut(p).unwrap().stored = true;
                }
                let common = st.main.iter().zip(path.iter()).take_while(|(a, b)| a == b).count();
                if common < st.main.len() && common < path.len() {
                    cx.res.faults.inc("main_chain_reorg");
                } else if path.len() < st.main.len() {
                    cx.res.faults.inc("main_chain_truncated");
                } else if path.len() > st.main.len() {
                    cx.res.probes.inc("main_chain_extended");
                }
                st.main = path;
                cx.ev(&format!("store {id} tip={}", st.tip_number()));
            }
            Op::Forget { id } => {
                cx.il.write_u64(3);
                cx.il.write_u64(*id);
                if let Some(n) = st.nodes.get_mut(id) {
                    if n.stored && n.hm.is_some() {
                        n.hm = None;
                        cx.res.faults.inc("stored_header_left_header_map");
                    }
                }
            }
            Op::Query { tip, number } => {
                cx.il.write_u64(4);
                cx.il.write_u64(*tip);
                cx.il.write_u64(*number);
                if !st.nodes.contains_key(tip) {
                    continue;
                }
                let want = st.walk(*tip, *number);
                let got = match real_query(&st, &st.nodes[tip].hash, *number) {
                    Ok(g) => g,
                    Err(e) => {
                        let class = if e.contains("VERIF lookup budget") { "ancestor:query:lookup_budget_exceeded" } else { "ancestor:query:panic" };
                        cx.viol(class, format!("op {opi} get_ancestor({tip}, {number}): {e}"));
                        break;
                    }
                };
                let tn = st.nodes[tip].number;
                check_answer(&mut cx, &st, "query", *tip, *number, want, got.as_ref());
                match want {
                    None => cx.res.probes.inc("query_above_tip_is_none"),
                    Some(_) if *number == tn => cx.res.probes.inc("query_tip_itself"),
                    Some(_) if *number == 0 => cx.res.probes.inc("query_genesis"),
                    Some(_) => cx.res.probes.inc("query_inner"),
                }
                if want.is_some() {
                    let dist = tn - *number;
                    if shortcut.get() {
                        cx.res.probes.inc("answered_through_main_chain_shortcut");
                    } else if dist >= 8 && calls.get() < dist {
                        cx.res.probes.inc("answered_through_skip_pointers");
                        nontrivial = true;
                    }
                    if !st.on_main(tn, &st.nodes[tip].hash) && want.map(|w| st.on_main(*number, &st.nodes[&w].hash)).unwrap_or(false) {
                        cx.res.probes.inc("query_crosses_fork_point");
                    }
                }
                cx.ev(&format!("query {tip}@{number} -> {want:?}"));
                cx.res.states.push(fp(&[0x0D, bucket(st.nodes.len() as u64), bucket(st.tip_number()), forks.min(6), bucket(tn.saturating_sub(*number)), shortcut.get() as u64]));
            }
            Op::Locator { tip } => {
                cx.il.write_u64(5);
                cx.il.write_u64(*tip);
                if !st.nodes.contains_key(tip) {
                    continue;
                }
                // ActiveChain::get_locator, with every get_ancestor compared
                let mut step = 1u64;
                let mut len = 0usize;
                let mut index = st.nodes[tip].number;
                let mut base = *tip;
                let mut sampled_low = false;
                loop {
                    let want = st.walk(*tip, index);
                    let got = match real_query(&st, &st.nodes[&base].hash, index) {
                        Ok(g) => g,
                        Err(e) => {
                            let class = if e.contains("VERIF lookup budget") { "ancestor:locator:lookup_budget_exceeded" } else { "ancestor:locator:panic" };
                            cx.viol(class, format!("op {opi} get_ancestor({base}, {index}): {e}"));
                            break;
                        }
                    };
                    check_answer(&mut cx, &st, "locator", base, index, want, got.as_ref());
                    if cx.failed() {
                        break;
                    }
                    let anc = want.expect("index <= base number");
                    len += 1;
                    if len >= 10 {
                        step <<= 1;
                    }
                    if index < step * 2 {
                        if len < 52 && index > ONE_DAY_BLOCK_NUMBER {
                            index >>= 1;
                            base = anc;
                            sampled_low = true;
                            continue;
                        }
                        break;
                    }
                    index -= step;
                    base = anc;
                }
                cx.res.probes.inc("locator_shaped_walk");
                if len >= 10 {
                    cx.res.probes.inc("locator_exponential_steps");
                }
                if sampled_low {
                    cx.res.probes.inc("locator_low_height_sampling");
                }
                cx.ev(&format!("locator {tip} len {len}"));
            }
        }
    }
    cx.res.nontrivial = nontrivial;
    cx.finish()
}

fn bucket(x: u64) -> u64 {
    64 - x.leading_zeros() as u64
}

fn check_answer(cx: &mut Ctx, st: &State, why: &str, tip: u64, number: u64, want: Option<u64>, got: Option<&HeaderIndexView>) {
    match (want, got) {
        (None, None) => {}
        (Some(w), Some(g)) => {
            let n = &st.nodes[&w];
            if g.hash() != n.hash {
                let gid = st.by_hash.get(&g.hash());
                cx.viol(
                    &format!("ancestor:{why}:wrong_header"),
                    format!("get_ancestor(header {tip}, {number}) returned header {gid:?} (number {}), the parent walk reaches header {w}", g.number()),
                );
            } else if g.number() != n.number || g.parent_hash() != n.parent_hash || g.total_difficulty() != &n.td {
                cx.viol(&format!("ancestor:{why}:header_fields_differ"), format!("get_ancestor(header {tip}, {number}): fields of header {w} differ"));
            }
        }
        (Some(w), None) => cx.viol(
            &format!("ancestor:{why}:missing"),
            format!("get_ancestor(header {tip}, {number}) = None, the parent walk reaches header {w}"),
        ),
        (None, Some(g)) => cx.viol(
            &format!("ancestor:{why}:phantom"),
            format!("get_ancestor(header {tip}, {number}) returned number {} although {number} is above the tip", g.number()),
        ),
    }
}
