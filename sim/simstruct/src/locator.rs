//! Locator construction: real `ActiveChain::{get_locator,get_ancestor}` of ckb-sync on a real
//! `SyncShared` (genesis-only temp chain DB, real `Shared`, real `HeaderMap` with sled backend)
//! vs walking parent links one by one.
//!
//! Headers are real `HeaderView`s fed through `SyncShared::insert_valid_header` (which builds
//! the skip pointers and fills the header map). The node is built once per worker thread and
//! reused; every run removes the headers it inserted (all hashes are unique to the run's seed),
//! so a run is still a function of its scenario alone as long as the header map answers like a
//! map. The node's header map has a small memory limit (~300 headers) and its own 5 s spill
//! timer, so long chains really move to sled at wall-clock-chosen points, which by the property
//! must not be observable. The simulator does NOT call `verif_limit_memory()` here: a second,
//! concurrent caller of `limit_memory` (there is only the timer in the product) can drop a
//! header that was promoted back between the first caller's snapshot and its `remove_batch`;
//! explicit spill placement is the `headermap` kind's job.
//!
//! Oracle: `get_locator(start)` == the list obtained by running get_locator's index schedule
//! (start, -1 x9, then doubling steps; halving above ONE_DAY_BLOCK_NUMBER; genesis last) with
//! every element found by walking parent links; `get_ancestor(tip, n)` == the parent walk.
//! The stored main chain is genesis only, so the main-chain shortcut is exercised at height 0
//! only; shortcuts at other heights are covered by the `ancestor` kind.

use crate::{Ctx, ENGINE, guarded};
use ckb_sync::SyncShared;
use ckb_types::{
    core::{EpochNumberWithFraction, HeaderBuilder, HeaderView},
    packed::Byte32,
    prelude::*,
};
use serde::{Deserialize, Serialize};
use simcore::*;
use std::collections::BTreeMap;
use std::path::Path;

#[derive(Clone, Debug, Serialize, Deserialize)]
#[serde(tag = "op")]
pub enum Op {
    Extend { from: u64, count: u64, first_id: u64 },
    Locator { tip: u64 },
    Ancestor { tip: u64, number: u64 },
}

#[derive(Clone, Debug, Serialize, Deserialize)]
pub struct Sc {
    pub engine: String,
    pub seed: u64,
    pub ops: Vec<Op>,
}

const ONE_DAY_BLOCK_NUMBER: u64 = 8192;

thread_local! {
    static NODE: std::cell::OnceCell<Option<SyncShared>> = const { std::cell::OnceCell::new() };
}

fn node(root: &Path) -> Option<SyncShared> {
    NODE.with(|n| {
        n.get_or_init(|| {
            let root = root.to_path_buf();
            guarded(move || {
                let _ = std::fs::create_dir_all(&root);
                let mut sync_config = ckb_app_config::SyncConfig::default();
                // ~300 headers stay in memory, the rest spills to sled
                sync_config.header_map.memory_limit = (64u64 * 1024).into();
                let (shared, mut pack) = ckb_shared::SharedBuilder::with_temp_db()
                    .sync_config(sync_config.clone())
                    .header_map_tmp_dir(Some(root))
                    .build()
                    .expect("build shared");
                let rx = pack.take_relay_tx_receiver();
                // keep the services of the package alive for the life of the process
                std::mem::forget(pack);
                SyncShared::new(shared, sync_config, rx)
            })
            .ok()
        })
        .clone()
    })
}

pub fn generate(seed: u64) -> Sc {
    let mut r = Rng::new(seed ^ 0x0C17_0E05);
    let trunk = match r.below(40) {
        0 => {
            if r.chance(1, 2) {
                r.range(24_600, 27_000)
            } else {
                r.range(8_200, 9_500)
            }
        }
        1..=8 => r.range(300, 2_500),
        9..=24 => r.range(20, 300),
        _ => r.range(1, 20),
    };
    let mut info: BTreeMap<u64, u64> = BTreeMap::new(); // id -> number
    info.insert(0, 0);
    let mut ids = vec![0u64];
    let mut next_id = 1u64;
    let mut ops = Vec::new();
    let mut extend = |ops: &mut Vec<Op>, ids: &mut Vec<u64>, from: u64, count: u64| {
        ops.push(Op::Extend {
            from,
            count,
            first_id: next_id,
        });
        let mut n = info[&from];
        for _ in 0..count {
            n += 1;
            info.insert(next_id, n);
            ids.push(next_id);
            next_id += 1;
        }
    };
    extend(&mut ops, &mut ids, 0, trunk);
    let nops = r.urange(3, 16);
    for _ in 0..nops {
        let pick = |r: &mut Rng, ids: &Vec<u64>| -> u64 {
            if r.chance(1, 2) {
                let k = ids.len();
                ids[k - 1 - r.idx(k.min(6))]
            } else {
                *r.pick(ids)
            }
        };
        match r.weighted(&[15, 45, 40]) {
            0 => {
                let from = pick(&mut r, &ids);
                let count = if r.chance(1, 2) { r.range(1, 30) } else { r.range(1, (trunk / 3).max(1)) };
                extend(&mut ops, &mut ids, from, count);
            }
            1 => ops.push(Op::Locator { tip: pick(&mut r, &ids) }),
            _ => {
                let tip = pick(&mut r, &ids);
                ops.push(Op::Ancestor {
                    tip,
                    number: r.below(3), // placeholder, resolved below: 0 => 0, 1 => random below the tip, 2 => at/above
                });
            }
        }
    }
    // make the Ancestor numbers explicit (the generator knows every header's number)
    let mut numbers: BTreeMap<u64, u64> = BTreeMap::new();
    numbers.insert(0, 0);
    for op in &ops {
        if let Op::Extend { from, count, first_id } = op {
            let mut n = numbers[from];
            for i in 0..*count {
                n += 1;
                numbers.insert(first_id + i, n);
            }
        }
    }
    for op in ops.iter_mut() {
        if let Op::Ancestor { tip, number } = op {
            let tn = numbers[tip];
            *number = match *number {
                0 => 0,
                1 => r.range(0, tn),
                _ => tn + r.range(0, 3),
            };
        }
    }
    Sc {
        engine: ENGINE.into(),
        seed,
        ops,
    }
}

struct Node {
    number: u64,
    parent: u64,
    hash: Byte32,
}

fn walk(nodes: &BTreeMap<u64, Node>, tip: u64, number: u64) -> Option<u64> {
    let mut cur = tip;
    if number > nodes[&cur].number {
        return None;
    }
    while nodes[&cur].number > number {
        cur = nodes[&cur].parent;
    }
    Some(cur)
}

pub fn exec(sc: &Sc, root: &Path) -> RunResult {
    let mut cx = Ctx::new(sc.seed);
    let Some(sync) = node(root) else {
        cx.res.harness_error = Some("cannot build the SyncShared node".into());
        return cx.finish();
    };
    let genesis: HeaderView = sync.consensus().genesis_block().header();
    let mut nodes: BTreeMap<u64, Node> = BTreeMap::new();
    nodes.insert(
        0,
        Node {
            number: 0,
            parent: 0,
            hash: genesis.hash(),
        },
    );
    let mut by_hash: BTreeMap<Vec<u8>, u64> = BTreeMap::new();
    by_hash.insert(genesis.hash().as_slice().to_vec(), 0);
    let mut inserted: Vec<Byte32> = Vec::new();
    let peer: ckb_network::PeerIndex = 1usize.into();
    let mut nontrivial = false;

    for (opi, op) in sc.ops.iter().enumerate() {
        if cx.failed() {
            break;
        }
        cx.res.steps += 1;
        match op {
            Op::Extend { from, count, first_id } => {
                cx.il.write_u64(1);
                cx.il.write_u64(*from);
                cx.il.write_u64(*count);
                cx.il.write_u64(*first_id);
                if !nodes.contains_key(from) {
                    continue;
                }
                if nodes.values().any(|n| n.parent == *from && n.number > 0) {
                    cx.res.probes.inc("fork_created");
                }
                let mut parent = *from;
                for i in 0..*count {
                    let id = *first_id + i;
                    if nodes.contains_key(&id) {
                        break;
                    }
                    let number = nodes[&parent].number + 1;
                    let header = HeaderBuilder::default()
                        .parent_hash(nodes[&parent].hash.clone())
                        .number(number)
                        .epoch(EpochNumberWithFraction::new(number / 1000, number % 1000, 1000))
                        .timestamp(genesis.timestamp() + number * 8_000)
                        // unique to (seed, id): no two runs share a header hash
                        .nonce(((sc.seed as u128) << 64) | id as u128)
                        .build();
                    if let Err(e) = guarded(|| sync.insert_valid_header(peer, &header)) {
                        cx.viol("locator:insert_valid_header:panic", format!("op {opi} header {id} (number {number}): {e}"));
                        break;
                    }
                    inserted.push(header.hash());
                    by_hash.insert(header.hash().as_slice().to_vec(), id);
                    nodes.insert(
                        id,
                        Node {
                            number,
                            parent,
                            hash: header.hash(),
                        },
                    );
                    parent = id;
                }
                cx.ev(&format!("extend {from} +{count} -> {}", nodes.len()));
            }
            Op::Ancestor { tip, number } => {
                cx.il.write_u64(3);
                cx.il.write_u64(*tip);
                cx.il.write_u64(*number);
                if !nodes.contains_key(tip) {
                    continue;
                }
                let want = walk(&nodes, *tip, *number);
                let got = match guarded(|| sync.active_chain().get_ancestor(&nodes[tip].hash, *number)) {
                    Ok(g) => g,
                    Err(e) => {
                        cx.viol("locator:get_ancestor:panic", format!("op {opi} get_ancestor({tip}, {number}): {e}"));
                        break;
                    }
                };
                let got_id = got.as_ref().map(|v| by_hash.get(v.hash().as_slice()).copied());
                match (want, got_id) {
                    (None, None) => cx.res.probes.inc("active_chain_ancestor_above_tip_none"),
                    (Some(w), Some(Some(g))) if w == g => cx.res.probes.inc("active_chain_ancestor"),
                    _ => cx.viol(
                        "locator:get_ancestor:wrong_header",
                        format!("ActiveChain::get_ancestor(header {tip}, {number}) = {got_id:?} (number {:?}), the parent walk gives {want:?}", got.map(|v| v.number())),
                    ),
                }
                cx.ev(&format!("ancestor {tip}@{number} -> {want:?}"));
            }
            Op::Locator { tip } => {
                cx.il.write_u64(2);
                cx.il.write_u64(*tip);
                if !nodes.contains_key(tip) {
                    continue;
                }
                // expected: get_locator's index schedule, every element by parent walk
                let mut want: Vec<u64> = Vec::new();
                let mut step = 1u64;
                let mut index = nodes[tip].number;
                let mut sampled_low = false;
                loop {
                    want.push(walk(&nodes, *tip, index).expect("index below tip"));
                    if want.len() >= 10 {
                        step <<= 1;
                    }
                    if index < step * 2 {
                        if want.len() < 52 && index > ONE_DAY_BLOCK_NUMBER {
                            index >>= 1;
                            sampled_low = true;
                            continue;
                        }
                        if index != 0 {
                            want.push(0);
                        }
                        break;
                    }
                    index -= step;
                }
                let start = (nodes[tip].number, nodes[tip].hash.clone()).into();
                let got = match guarded(|| sync.active_chain().get_locator(start)) {
                    Ok(g) => g,
                    Err(e) => {
                        cx.viol("locator:get_locator:panic", format!("op {opi} get_locator({tip}): {e}"));
                        break;
                    }
                };
                let got_ids: Vec<Option<u64>> = got.iter().map(|h| by_hash.get(h.as_slice()).copied()).collect();
                let want_ids: Vec<Option<u64>> = want.iter().map(|w| Some(*w)).collect();
                if got_ids != want_ids {
                    cx.viol(
                        "locator:get_locator:wrong_headers",
                        format!("get_locator(header {tip}, number {}) = {got_ids:?}, walking parent links gives {want_ids:?}", nodes[tip].number),
                    );
                    break;
                }
                cx.res.probes.inc("get_locator");
                if want.len() > 11 {
                    cx.res.probes.inc("get_locator_exponential_steps");
                    nontrivial = true;
                }
                if sampled_low {
                    cx.res.probes.inc("get_locator_low_height_sampling");
                }
                cx.ev(&format!("locator {tip} -> {want:?}"));
                cx.res.states.push(fp(&[0x0E, want.len() as u64, 64 - (nodes.len() as u64).leading_zeros() as u64, sampled_low as u64]));
            }
        }
    }
    // leave the shared header map as it was found
    let hm = sync.shared().header_map();
    let _ = guarded(|| {
        for h in &inserted {
            hm.remove(h);
        }
    });
    cx.res.nontrivial = nontrivial;
    cx.finish()
}
