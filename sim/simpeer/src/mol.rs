//! Generic machinery over every molecule type a peer can send: for each type
//!  * `arb`     builds a random but well-formed value through the generated builders,
//!  * `rebuild` walks EVERY accessor of a decoded value recursively (fields, items, option,
//!              union arm, raw data) and re-serialises it field by field through the builders;
//!              for a strictly decoded value the result must equal the accepted bytes.
//! The per-type semantic checks (views, hashes, verifiers) hang off `rebuild` through `deep`
//! functions in `deep.rs`, so a Transaction nested in a Block nested in a SendBlock is checked too.

use crate::deep;
use ckb_chain_spec::consensus::Consensus;
use ckb_types::packed::*;
use ckb_types::prelude::*;
use simcore::Rng;

pub struct Cx<'a> {
    pub consensus: &'a Consensus,
    /// accessor / check calls made
    pub n: u64,
    /// inconsistencies found by the walk itself (e.g. get(i) == None for i < len())
    pub bad: Vec<String>,
    /// probes: which deep checks ran / which verdicts were seen
    pub probes: simcore::Counters,
    /// remaining budget for expensive deep checks per frame (keeps every case bounded)
    pub deep_budget: u32,
}
impl<'a> Cx<'a> {
    pub fn new(consensus: &'a Consensus) -> Self {
        Cx { consensus, n: 0, bad: Vec::new(), probes: Default::default(), deep_budget: 400 }
    }
    pub fn take_deep(&mut self) -> bool {
        if self.deep_budget == 0 {
            false
        } else {
            self.deep_budget -= 1;
            true
        }
    }
}

pub struct G<'a> {
    pub r: &'a mut Rng,
    pub budget: isize,
    /// 32-byte values that mean something to the receiving node (block / transaction hashes)
    pub dict32: &'a [[u8; 32]],
}
impl<'a> G<'a> {
    pub fn with_dict(r: &'a mut Rng, budget: isize, dict32: &'a [[u8; 32]]) -> Self {
        G { r, budget, dict32 }
    }
    /// vector length: empty, small, or large (bounded by the remaining byte budget)
    pub fn vlen(&mut self, item_cost: usize) -> usize {
        if self.budget <= 0 {
            return 0;
        }
        let n = match self.r.weighted(&[30, 25, 18, 14, 9, 4]) {
            0 => 0,
            1 => 1,
            2 => 2,
            3 => self.r.urange(3, 6),
            4 => self.r.urange(7, 24),
            _ => self.r.urange(25, 1500),
        };
        let cap = (self.budget.max(0) as usize) / item_cost.max(1);
        let n = n.min(cap);
        self.budget -= (n * item_cost) as isize;
        n
    }
    pub fn bytes_biased(&mut self, n: usize) -> Vec<u8> {
        match self.r.weighted(&[60, 15, 15, 10]) {
            0 => self.r.bytes(n),
            1 => vec![0u8; n],
            2 => vec![0xffu8; n],
            _ => {
                let mut v = vec![0u8; n];
                if n > 0 {
                    let i = self.r.idx(n);
                    v[i] = self.r.below(256) as u8;
                }
                v
            }
        }
    }
}

pub trait Mol: Sized {
    fn rebuild(&self, cx: &mut Cx) -> Self;
    fn arb(g: &mut G) -> Self;
}
pub trait MolUnion: Sized {
    const ARMS: &'static [&'static str];
    fn arb_arm(g: &mut G, k: usize) -> Self;
}

impl Mol for Byte {
    fn rebuild(&self, cx: &mut Cx) -> Self {
        cx.n += 1;
        let b: u8 = (*self).into();
        Byte::new(b)
    }
    fn arb(g: &mut G) -> Self {
        g.budget -= 1;
        // hash_type / dep_type / max_hops: mostly small legal values
        let b = match g.r.weighted(&[30, 30, 15, 10, 15]) {
            0 => 0,
            1 => 1,
            2 => 2,
            3 => 4,
            _ => g.r.below(256) as u8,
        };
        Byte::new(b)
    }
}

macro_rules! m_array {
    ($($T:ident = $n:expr),* $(,)?) => {$(
        impl Mol for $T {
            fn rebuild(&self, cx: &mut Cx) -> Self {
                cx.n += 3;
                let d = self.raw_data();
                let d2 = self.as_reader().raw_data();
                if d.as_ref() != d2 || d.len() != $n {
                    cx.bad.push(format!("{}: raw_data disagrees with reader", stringify!($T)));
                }
                let _ = self.nth0();
                match $T::from_slice(&d) {
                    Ok(v) => v,
                    Err(e) => {
                        cx.bad.push(format!("{}: from_slice(raw_data) failed: {e}", stringify!($T)));
                        self.clone()
                    }
                }
            }
            fn arb(g: &mut G) -> Self {
                g.budget -= $n;
                if $n == 32 && !g.dict32.is_empty() && g.r.chance(1, 2) {
                    let v = g.dict32[g.r.idx(g.dict32.len())];
                    return $T::from_slice(&v[..$n.min(32)]).unwrap();
                }
                if $n == 8 && !g.dict32.is_empty() && g.r.chance(1, 3) {
                    // numbers near the node's chain
                    let v = g.r.below(12).to_le_bytes();
                    return $T::from_slice(&v[..$n.min(8)]).unwrap();
                }
                $T::from_slice(&g.bytes_biased($n)).unwrap()
            }
        }
    )*};
}

macro_rules! m_vec {
    ($($V:ident < $I:ident > cost $c:expr),* $(,)?) => {$(
        impl Mol for $V {
            fn rebuild(&self, cx: &mut Cx) -> Self {
                let n = self.len();
                cx.n += 4 + n as u64;
                if self.is_empty() != (n == 0) || self.item_count() != n {
                    cx.bad.push(format!("{}: len/is_empty/item_count disagree", stringify!($V)));
                }
                let mut items = Vec::with_capacity(n);
                for i in 0..n {
                    match self.get(i) {
                        Some(it) => items.push(it.rebuild(cx)),
                        None => cx.bad.push(format!("{}: get({i}) is None but len()={n}", stringify!($V))),
                    }
                }
                if self.get(n).is_some() {
                    cx.bad.push(format!("{}: get(len) is Some", stringify!($V)));
                }
                let c1 = self.clone().into_iter().count();
                let c2 = self.as_reader().iter().count();
                if c1 != n || c2 != n {
                    cx.bad.push(format!("{}: iterators yield {c1}/{c2} items, len()={n}", stringify!($V)));
                }
                let _ = self.total_size();
                $V::new_builder().set(items).build()
            }
            fn arb(g: &mut G) -> Self {
                let n = g.vlen($c);
                let mut items = Vec::with_capacity(n);
                for _ in 0..n {
                    items.push(<$I as Mol>::arb(g));
                }
                $V::new_builder().set(items).build()
            }
        }
    )*};
}

macro_rules! m_opt {
    ($($O:ident ( $I:ident )),* $(,)?) => {$(
        impl Mol for $O {
            fn rebuild(&self, cx: &mut Cx) -> Self {
                cx.n += 3;
                let o = self.to_opt();
                if o.is_some() != self.is_some() || o.is_none() != self.is_none() {
                    cx.bad.push(format!("{}: to_opt/is_some disagree", stringify!($O)));
                }
                $O::new_builder().set(o.map(|x| x.rebuild(cx))).build()
            }
            fn arb(g: &mut G) -> Self {
                let v = if g.r.chance(1, 2) { Some(<$I as Mol>::arb(g)) } else { None };
                $O::new_builder().set(v).build()
            }
        }
    )*};
}

macro_rules! m_struct {
    ($T:ident { $($f:ident : $FT:ident),* $(,)? } $(deep $d:path)?) => {
        impl Mol for $T {
            fn rebuild(&self, cx: &mut Cx) -> Self {
                cx.n += 1;
                $( let $f = self.$f().rebuild(cx); )*
                let out = $T::new_builder()$(.$f($f))*.build();
                $( $d(self, cx); )?
                out
            }
            fn arb(g: &mut G) -> Self {
                $T::new_builder()$(.$f(<$FT as Mol>::arb(g)))*.build()
            }
        }
    };
}

macro_rules! m_table {
    ($T:ident { $($f:ident : $FT:ident),* $(,)? } $(deep $d:path)?) => {
        impl Mol for $T {
            fn rebuild(&self, cx: &mut Cx) -> Self {
                cx.n += 5;
                let _ = self.total_size();
                let fc = self.field_count();
                let extra = self.count_extra_fields();
                if self.has_extra_fields() != (extra > 0) || fc != $T::FIELD_COUNT + extra {
                    cx.bad.push(format!("{}: field_count/extra fields disagree", stringify!($T)));
                }
                $( let $f = self.$f().rebuild(cx); )*
                let out = $T::new_builder()$(.$f($f))*.build();
                $( $d(self, cx); )?
                out
            }
            fn arb(g: &mut G) -> Self {
                g.budget -= 4;
                $T::new_builder()$(.$f(<$FT as Mol>::arb(g)))*.build()
            }
        }
    };
}

macro_rules! m_union {
    ($T:ident / $U:ident { $($A:ident),* $(,)? } $(deep $d:path)?) => {
        impl Mol for $T {
            fn rebuild(&self, cx: &mut Cx) -> Self {
                cx.n += 3;
                let _ = self.item_id();
                let e = self.to_enum();
                let _ = e.item_name();
                let out = match e {
                    $( $U::$A(x) => $T::new_builder().set(x.rebuild(cx)).build(), )*
                };
                $( $d(self, cx); )?
                out
            }
            fn arb(g: &mut G) -> Self {
                let k = g.r.idx(<Self as MolUnion>::ARMS.len());
                <Self as MolUnion>::arb_arm(g, k)
            }
        }
        impl MolUnion for $T {
            const ARMS: &'static [&'static str] = &[$(stringify!($A)),*];
            fn arb_arm(g: &mut G, k: usize) -> Self {
                let mut i = 0usize;
                $(
                    if i == k {
                        return $T::new_builder().set(<$A as Mol>::arb(g)).build();
                    }
                    i += 1;
                )*
                let _ = i;
                unreachable!("arm index out of range")
            }
        }
    };
}

// ------------------------------------------------------------------ blockchain.mol

m_array!(Uint16 = 2, Uint32 = 4, Uint64 = 8, Uint128 = 16, Byte32 = 32, Uint256 = 32, ProposalShortId = 10, BeUint32 = 4, BeUint64 = 8);

/// Bool: a one-byte array; a well-behaved sender writes 0 or 1
impl Mol for Bool {
    fn rebuild(&self, cx: &mut Cx) -> Self {
        cx.n += 2;
        let d = self.raw_data();
        let _ = self.nth0();
        match Bool::from_slice(&d) {
            Ok(v) => v,
            Err(e) => {
                cx.bad.push(format!("Bool: from_slice(raw_data) failed: {e}"));
                self.clone()
            }
        }
    }
    fn arb(g: &mut G) -> Self {
        g.budget -= 1;
        Bool::from_slice(&[g.r.below(2) as u8]).unwrap()
    }
}

impl Mol for Bytes {
    fn rebuild(&self, cx: &mut Cx) -> Self {
        cx.n += 5;
        let d = self.raw_data();
        let n = self.len();
        if d.len() != n || self.is_empty() != (n == 0) || self.as_reader().raw_data() != d.as_ref() {
            cx.bad.push("Bytes: raw_data/len disagree".into());
        }
        if n > 0 {
            let a: Option<u8> = self.get(0).map(Into::into);
            let z: Option<u8> = self.get(n - 1).map(Into::into);
            if a != Some(d[0]) || z != Some(d[n - 1]) {
                cx.bad.push("Bytes: get() disagrees with raw_data".into());
            }
        }
        if self.get(n).is_some() {
            cx.bad.push("Bytes: get(len) is Some".into());
        }
        let v: Vec<Byte> = d.iter().map(|b| Byte::new(*b)).collect();
        Bytes::new_builder().set(v).build()
    }
    fn arb(g: &mut G) -> Self {
        let n = g.vlen(1);
        let v: Vec<Byte> = g.bytes_biased(n).into_iter().map(Byte::new).collect();
        Bytes::new_builder().set(v).build()
    }
}

m_opt!(BytesOpt(Bytes), ScriptOpt(Script));
m_vec!(
    BytesOptVec<BytesOpt> cost 8,
    BytesVec<Bytes> cost 8,
    Byte32Vec<Byte32> cost 32,
    UncleBlockVec<UncleBlock> cost 240,
    TransactionVec<Transaction> cost 200,
    ProposalShortIdVec<ProposalShortId> cost 10,
    CellDepVec<CellDep> cost 37,
    CellInputVec<CellInput> cost 44,
    CellOutputVec<CellOutput> cost 80,
);
m_table!(Script { code_hash: Byte32, hash_type: Byte, args: Bytes } deep deep::script);
m_struct!(OutPoint { tx_hash: Byte32, index: Uint32 } deep deep::out_point);
m_struct!(CellInput { since: Uint64, previous_output: OutPoint });
m_table!(CellOutput { capacity: Uint64, lock: Script, type_: ScriptOpt } deep deep::cell_output);
m_struct!(CellDep { out_point: OutPoint, dep_type: Byte } deep deep::cell_dep);
m_table!(RawTransaction { version: Uint32, cell_deps: CellDepVec, header_deps: Byte32Vec, inputs: CellInputVec, outputs: CellOutputVec, outputs_data: BytesVec });
m_table!(Transaction { raw: RawTransaction, witnesses: BytesVec } deep deep::transaction);
m_struct!(RawHeader { version: Uint32, compact_target: Uint32, timestamp: Uint64, number: Uint64, epoch: Uint64, parent_hash: Byte32, transactions_root: Byte32, proposals_hash: Byte32, extra_hash: Byte32, dao: Byte32 });
m_struct!(Header { raw: RawHeader, nonce: Uint128 } deep deep::header);
m_table!(UncleBlock { header: Header, proposals: ProposalShortIdVec } deep deep::uncle_block);
m_table!(BlockV1 { header: Header, uncles: UncleBlockVec, transactions: TransactionVec, proposals: ProposalShortIdVec, extension: Bytes });
m_table!(CellbaseWitness { lock: Script, message: Bytes });
m_table!(WitnessArgs { lock: BytesOpt, input_type: BytesOpt, output_type: BytesOpt });

/// Block: a plain table, or (one extra field) a BlockV1 seen through `as_v0`
impl Mol for Block {
    fn rebuild(&self, cx: &mut Cx) -> Self {
        cx.n += 5;
        let _ = self.total_size();
        let fc = self.field_count();
        let extra = self.count_extra_fields();
        if self.has_extra_fields() != (extra > 0) || fc != Block::FIELD_COUNT + extra {
            cx.bad.push("Block: field_count/extra fields disagree".into());
        }
        let header = self.header().rebuild(cx);
        let uncles = self.uncles().rebuild(cx);
        let transactions = self.transactions().rebuild(cx);
        let proposals = self.proposals().rebuild(cx);
        for i in 0..extra.min(3) {
            let _ = self.extra_field(i);
            let _ = self.as_reader().extra_field(i);
        }
        let _ = self.extra_field(extra);
        // a node drops a SendBlock whose block has more than one extra field; with exactly one
        // it goes on to treat the field as the extension
        let out = if extra == 1 {
            deep::block(self, cx);
            match self.extension() {
                Some(ext) => BlockV1::new_builder()
                    .header(header)
                    .uncles(uncles)
                    .transactions(transactions)
                    .proposals(proposals)
                    .extension(ext.rebuild(cx))
                    .build()
                    .as_v0(),
                None => {
                    cx.bad.push("Block: one extra field but extension() is None".into());
                    self.clone()
                }
            }
        } else {
            if extra == 0 {
                deep::block(self, cx);
            }
            Block::new_builder().header(header).uncles(uncles).transactions(transactions).proposals(proposals).build()
        };
        out
    }
    fn arb(g: &mut G) -> Self {
        g.budget -= 4;
        if g.r.chance(1, 2) {
            BlockV1::arb(g).as_v0()
        } else {
            Block::new_builder()
                .header(Header::arb(g))
                .uncles(UncleBlockVec::arb(g))
                .transactions(TransactionVec::arb(g))
                .proposals(ProposalShortIdVec::arb(g))
                .build()
        }
    }
}

// ------------------------------------------------------------------ extensions.mol

m_opt!(BoolOpt(Bool), Byte32Opt(Byte32), CellOutputOpt(CellOutput), Uint64VecOpt(Uint64Vec));
m_vec!(
    Uint32Vec<Uint32> cost 4,
    Uint64Vec<Uint64> cost 8,
    Uint256Vec<Uint256> cost 32,
    HeaderVec<Header> cost 208,
    OutPointVec<OutPoint> cost 36,
    RelayTransactionVec<RelayTransaction> cost 220,
    IndexTransactionVec<IndexTransaction> cost 220,
    HeaderDigestVec<HeaderDigest> cost 120,
    VerifiableHeaderVec<VerifiableHeader> cost 400,
    FilteredBlockVec<FilteredBlock> cost 500,
);
m_struct!(HeaderDigest { children_hash: Byte32, total_difficulty: Uint256, start_number: Uint64, end_number: Uint64, start_epoch: Uint64, end_epoch: Uint64, start_timestamp: Uint64, end_timestamp: Uint64, start_compact_target: Uint32, end_compact_target: Uint32 } deep deep::header_digest);

m_union!(RelayMessage / RelayMessageUnion { CompactBlock, RelayTransactions, RelayTransactionHashes, GetRelayTransactions, GetBlockTransactions, BlockTransactions, GetBlockProposal, BlockProposal });
m_table!(CompactBlockV1 { header: Header, short_ids: ProposalShortIdVec, prefilled_transactions: IndexTransactionVec, uncles: Byte32Vec, proposals: ProposalShortIdVec, extension: Bytes });
m_table!(RelayTransaction { cycles: Uint64, transaction: Transaction });
m_table!(RelayTransactions { transactions: RelayTransactionVec } deep deep::relay_transactions);
m_table!(RelayTransactionHashes { tx_hashes: Byte32Vec });
m_table!(GetRelayTransactions { tx_hashes: Byte32Vec });
m_table!(GetBlockTransactions { block_hash: Byte32, indexes: Uint32Vec, uncle_indexes: Uint32Vec } deep deep::get_block_transactions);
m_table!(BlockTransactions { block_hash: Byte32, transactions: TransactionVec, uncles: UncleBlockVec } deep deep::block_transactions);
m_table!(GetBlockProposal { block_hash: Byte32, proposals: ProposalShortIdVec });
m_table!(BlockProposal { transactions: TransactionVec });
m_table!(IndexTransaction { index: Uint32, transaction: Transaction });

impl Mol for CompactBlock {
    fn rebuild(&self, cx: &mut Cx) -> Self {
        cx.n += 5;
        let _ = self.total_size();
        let fc = self.field_count();
        let extra = self.count_extra_fields();
        if self.has_extra_fields() != (extra > 0) || fc != CompactBlock::FIELD_COUNT + extra {
            cx.bad.push("CompactBlock: field_count/extra fields disagree".into());
        }
        let header = self.header().rebuild(cx);
        let short_ids = self.short_ids().rebuild(cx);
        let prefilled = self.prefilled_transactions().rebuild(cx);
        let uncles = self.uncles().rebuild(cx);
        let proposals = self.proposals().rebuild(cx);
        for i in 0..extra.min(3) {
            let _ = self.extra_field(i);
        }
        // the relayer bans on more than one extra field, otherwise processes the compact block
        if extra == 1 {
            deep::compact_block(self, cx);
            match self.extension() {
                Some(ext) => CompactBlockV1::new_builder()
                    .header(header)
                    .short_ids(short_ids)
                    .prefilled_transactions(prefilled)
                    .uncles(uncles)
                    .proposals(proposals)
                    .extension(ext.rebuild(cx))
                    .build()
                    .as_v0(),
                None => {
                    cx.bad.push("CompactBlock: one extra field but extension() is None".into());
                    self.clone()
                }
            }
        } else {
            if extra == 0 {
                deep::compact_block(self, cx);
            }
            CompactBlock::new_builder()
                .header(header)
                .short_ids(short_ids)
                .prefilled_transactions(prefilled)
                .uncles(uncles)
                .proposals(proposals)
                .build()
        }
    }
    fn arb(g: &mut G) -> Self {
        g.budget -= 4;
        if g.r.chance(1, 2) {
            CompactBlockV1::arb(g).as_v0()
        } else {
            CompactBlock::new_builder()
                .header(Header::arb(g))
                .short_ids(ProposalShortIdVec::arb(g))
                .prefilled_transactions(IndexTransactionVec::arb(g))
                .uncles(Byte32Vec::arb(g))
                .proposals(ProposalShortIdVec::arb(g))
                .build()
        }
    }
}

m_union!(BlockFilterMessage / BlockFilterMessageUnion { GetBlockFilters, BlockFilters, GetBlockFilterHashes, BlockFilterHashes, GetBlockFilterCheckPoints, BlockFilterCheckPoints });
m_struct!(GetBlockFilters { start_number: Uint64 });
m_table!(BlockFilters { start_number: Uint64, block_hashes: Byte32Vec, filters: BytesVec });
m_struct!(GetBlockFilterHashes { start_number: Uint64 });
m_table!(BlockFilterHashes { start_number: Uint64, parent_block_filter_hash: Byte32, block_filter_hashes: Byte32Vec });
m_struct!(GetBlockFilterCheckPoints { start_number: Uint64 });
m_table!(BlockFilterCheckPoints { start_number: Uint64, block_filter_hashes: Byte32Vec });

m_union!(SyncMessage / SyncMessageUnion { GetHeaders, SendHeaders, GetBlocks, SendBlock, InIBD });
m_table!(GetHeaders { hash_stop: Byte32, block_locator_hashes: Byte32Vec });
m_table!(GetBlocks { block_hashes: Byte32Vec });
m_table!(SendHeaders { headers: HeaderVec });
m_table!(SendBlock { block: Block } deep deep::send_block);
m_table!(FilteredBlock { header: Header, witnesses_root: Byte32, transactions: TransactionVec, proof: MerkleProof });
m_table!(MerkleProof { indices: Uint32Vec, lemmas: Byte32Vec } deep deep::merkle_proof);
m_table!(InIBD {});

m_table!(VerifiableHeader { header: Header, uncles_hash: Byte32, extension: BytesOpt, parent_chain_root: HeaderDigest } deep deep::verifiable_header);
m_union!(LightClientMessage / LightClientMessageUnion { GetLastState, SendLastState, GetLastStateProof, SendLastStateProof, GetBlocksProof, SendBlocksProof, GetTransactionsProof, SendTransactionsProof });
m_table!(GetLastState { subscribe: Bool } deep deep::primitives_of_light);
m_table!(SendLastState { last_header: VerifiableHeader });
m_table!(GetLastStateProof { last_hash: Byte32, start_hash: Byte32, start_number: Uint64, last_n_blocks: Uint64, difficulty_boundary: Uint256, difficulties: Uint256Vec } deep deep::get_last_state_proof);
m_table!(SendLastStateProof { last_header: VerifiableHeader, proof: HeaderDigestVec, headers: VerifiableHeaderVec });
m_table!(GetBlocksProof { last_hash: Byte32, block_hashes: Byte32Vec });
m_table!(SendBlocksProofV1 { last_header: VerifiableHeader, proof: HeaderDigestVec, headers: HeaderVec, missing_block_hashes: Byte32Vec, blocks_uncles_hash: Byte32Vec, blocks_extension: BytesOptVec });
m_table!(GetTransactionsProof { last_hash: Byte32, tx_hashes: Byte32Vec });
m_table!(SendTransactionsProofV1 { last_header: VerifiableHeader, proof: HeaderDigestVec, filtered_blocks: FilteredBlockVec, missing_tx_hashes: Byte32Vec, blocks_uncles_hash: Byte32Vec, blocks_extension: BytesOptVec });

/// SendBlocksProof / SendTransactionsProof: plain, or the V1 table seen through new_unchecked
macro_rules! m_table_or_v1 {
    ($T:ident / $V1:ident { $($f:ident : $FT:ident),* $(,)? }) => {
        impl Mol for $T {
            fn rebuild(&self, cx: &mut Cx) -> Self {
                cx.n += 5;
                let _ = self.total_size();
                let extra = self.count_extra_fields();
                if self.has_extra_fields() != (extra > 0) || self.field_count() != $T::FIELD_COUNT + extra {
                    cx.bad.push(format!("{}: field_count/extra fields disagree", stringify!($T)));
                }
                $( let $f = self.$f().rebuild(cx); )*
                if extra == 2 {
                    if let Ok(v1) = $V1::from_slice(self.as_slice()) {
                        return $T::new_unchecked(v1.rebuild(cx).as_bytes());
                    }
                }
                $T::new_builder()$(.$f($f))*.build()
            }
            fn arb(g: &mut G) -> Self {
                g.budget -= 4;
                if g.r.chance(1, 2) {
                    $T::new_unchecked(<$V1 as Mol>::arb(g).as_bytes())
                } else {
                    $T::new_builder()$(.$f(<$FT as Mol>::arb(g)))*.build()
                }
            }
        }
    };
}
m_table_or_v1!(SendBlocksProof / SendBlocksProofV1 { last_header: VerifiableHeader, proof: HeaderDigestVec, headers: HeaderVec, missing_block_hashes: Byte32Vec });
m_table_or_v1!(SendTransactionsProof / SendTransactionsProofV1 { last_header: VerifiableHeader, proof: HeaderDigestVec, filtered_blocks: FilteredBlockVec, missing_tx_hashes: Byte32Vec });

m_table!(Time { timestamp: Uint64 });
m_table!(RawAlert { notice_until: Uint64, id: Uint32, cancel: Uint32, priority: Uint32, message: Bytes, min_version: BytesOpt, max_version: BytesOpt });
m_table!(Alert { raw: RawAlert, signatures: BytesVec } deep deep::alert);
m_table!(Identify { flag: Uint64, name: Bytes, client_version: Bytes });

// ------------------------------------------------------------------ protocols.mol (network layer)

m_union!(PingPayload / PingPayloadUnion { Ping, Pong });
m_table!(PingMessage { payload: PingPayload });
m_table!(Ping { nonce: Uint32 });
m_table!(Pong { nonce: Uint32 });
m_opt!(PortOpt(Uint16));
m_vec!(NodeVec<Node> cost 40, Node2Vec<Node2> cost 48, AddressVec<Address> cost 30);
m_union!(DiscoveryPayload / DiscoveryPayloadUnion { GetNodes, Nodes });
m_table!(DiscoveryMessage { payload: DiscoveryPayload });
m_table!(GetNodes { version: Uint32, count: Uint32, listen_port: PortOpt });
m_table!(GetNodes2 { version: Uint32, count: Uint32, listen_port: PortOpt, required_flags: Uint64 });
m_table!(Nodes { announce: Bool, items: NodeVec });
m_table!(Nodes2 { announce: Bool, items: Node2Vec });
m_table!(Node { addresses: BytesVec });
m_table!(Node2 { addresses: BytesVec, flags: Uint64 });
m_table!(Address { bytes: Bytes });
m_table!(IdentifyMessage { listen_addrs: AddressVec, observed_addr: Address, identify: Bytes });
