//! Kind "reconstruct": genuine simulation of relay state. Per run one real node; per round the
//! simulator builds a block B, derives a (possibly illegal / colliding) compact block, chooses
//! what the tx-pool holds and what the peer supplies, and drives
//!   * Relayer::reconstruct_block directly (gated by the relayer's own verifiers as the node does), and
//!   * Relayer::received (CompactBlockProcess / BlockTransactionsProcess) end to end with a
//!     SimNetContext capturing what the node sends and a SimChain capturing what it forwards.
//! Oracle (the property): the result is B exactly, or Missing naming exactly the absent
//! positions, or Collided/Error; never another block.

use crate::guard::{guarded, PanicInfo};
use crate::node::{Node, SimNetContext};
use ckb_network::{CKBProtocolHandler, PeerIndex, SupportProtocols};
use ckb_store::ChainStore;
use ckb_sync::verif::{block_transactions_verify, block_uncles_verify, compact_block_verify, ReconstructionResult};
use ckb_types::{
    bytes::Bytes,
    core::{BlockBuilder, BlockView, TransactionView, UncleBlockView},
    packed::{self, CompactBlock, ProposalShortId},
    prelude::*,
};
use serde::{Deserialize, Serialize};
use simcore::*;
use std::collections::{BTreeSet, HashMap, HashSet};
use std::sync::Arc;

pub const PROP: &str = "C16";

#[derive(Clone, Debug, Serialize, Deserialize)]
pub struct TxSpec {
    /// index of the always-success cell it spends (ignored when `parent` is set)
    pub cell: usize,
    /// spend output 0 of the earlier transaction `parent` of the same list instead
    pub parent: Option<usize>,
    pub fee: u64,
    pub tag: u64,
}

#[derive(Clone, Debug, Serialize, Deserialize)]
pub struct UncleSpec {
    /// true: a side block the node has stored; false: a block the node has never seen
    pub known: bool,
    pub idx: usize,
}

#[derive(Clone, Debug, Serialize, Deserialize)]
pub enum PeerTx {
    /// transaction i of B's non-cellbase list
    B(usize),
    /// unrelated transaction j
    U(usize),
    /// a different transaction made from B's transaction i (other fee): wrong content
    W(usize),
}

#[derive(Clone, Debug, Serialize, Deserialize)]
pub struct Round {
    pub txs: Vec<TxSpec>,
    pub uncles: Vec<UncleSpec>,
    pub proposals: usize,
    pub extension: Option<usize>,
    /// positions in the block (>= 1) that are prefilled besides the cellbase
    pub prefilled: Vec<usize>,
    /// "" | unordered | duplicate | out_of_range | dup_short_id | no_cellbase | prefilled_in_short_ids
    pub illegal: String,
    /// (position in the block, unrelated tx j): the compact block lists j's short id at that position
    pub collide: Vec<(usize, usize)>,
    /// which of `txs` are submitted to the pool, in this order
    pub pool: Vec<usize>,
    pub unrelated: Vec<TxSpec>,
    /// which unrelated transactions are submitted to the pool
    pub pool_unrelated: Vec<usize>,
    /// peer-supplied list for the un-gated call ("any set of transactions")
    pub loose_txs: Vec<PeerTx>,
    /// how the peer answers the node's request: exact | drop | extra | swap | wrong | unrelated | empty | collide_tx
    pub answer_txs: String,
    /// exact | drop | extra | swap | wrong | empty
    pub answer_uncles: String,
    pub k: usize,
    pub e2e: bool,
}

#[derive(Clone, Debug, Serialize, Deserialize)]
pub struct Scenario {
    pub engine: String,
    pub kind: String,
    pub seed: u64,
    pub height: u64,
    pub n_forks: usize,
    /// rounds; each is independent (the pool is cleared in between), so they shrink by ddmin
    pub ops: Vec<Round>,
}

pub fn gen_scenario(seed: u64) -> Scenario {
    let mut r = Rng::new(seed ^ 0xC16_2EC0);
    let height = r.range(4, 7);
    let n_forks = r.urange(2, 4);
    let n_cells = height as usize * crate::node::OUTS_PER_BLOCK;
    let n_rounds = r.urange(4, 9);
    let mut ops = Vec::new();
    for _ in 0..n_rounds {
        let n = match r.weighted(&[5, 10, 25, 40, 20]) {
            0 => 0,
            1 => 1,
            2 => r.urange(2, 3),
            3 => r.urange(4, 8),
            _ => r.urange(9, 12),
        };
        // distinct cells for B's transactions and for unrelated ones
        let mut cells: Vec<usize> = (0..n_cells).collect();
        r.shuffle(&mut cells);
        let mut txs = Vec::new();
        for i in 0..n {
            let parent = if i > 0 && r.chance(1, 6) { Some(r.idx(i)) } else { None };
            txs.push(TxSpec { cell: cells.pop().unwrap(), parent, fee: 100_000 + r.below(1000), tag: r.next_u64() });
        }
        // a parent can be spent once
        let mut used = HashSet::new();
        for t in txs.iter_mut() {
            if let Some(p) = t.parent {
                if !used.insert(p) {
                    t.parent = None;
                }
            }
        }
        let n_unrel = r.urange(0, 4);
        let unrelated: Vec<TxSpec> = (0..n_unrel).map(|_| TxSpec { cell: cells.pop().unwrap(), parent: None, fee: 100_000 + r.below(1000), tag: r.next_u64() }).collect();
        let n_uncles = r.weighted(&[50, 30, 20]);
        let uncles: Vec<UncleSpec> = (0..n_uncles)
            .map(|i| if r.chance(1, 2) { UncleSpec { known: true, idx: i % n_forks.max(1) } } else { UncleSpec { known: false, idx: i } })
            .collect();
        let prefilled: Vec<usize> = (1..=n).filter(|_| r.chance(1, 4)).collect();
        let illegal = if r.chance(1, 5) {
            r.pick(&["unordered", "duplicate", "out_of_range", "dup_short_id", "no_cellbase", "prefilled_in_short_ids"]).to_string()
        } else {
            String::new()
        };
        let pool_mode = r.weighted(&[15, 25, 45, 15]);
        let mut pool: Vec<usize> = (0..n)
            .filter(|_| match pool_mode {
                0 => false,
                1 => true,
                2 => r.chance(1, 2),
                _ => r.chance(4, 5),
            })
            .collect();
        if r.chance(1, 4) {
            r.shuffle(&mut pool);
        }
        let pool_unrelated: Vec<usize> = (0..n_unrel).filter(|_| r.chance(3, 4)).collect();
        let mut collide = Vec::new();
        if illegal.is_empty() && n > 0 && !pool_unrelated.is_empty() && r.chance(1, 6) {
            let pos = 1 + r.idx(n);
            if !prefilled.contains(&pos) {
                collide.push((pos, *r.pick(&pool_unrelated)));
            }
        }
        let n_loose = r.urange(0, n + 2);
        let loose_txs: Vec<PeerTx> = (0..n_loose)
            .map(|_| match r.weighted(&[70, if n_unrel > 0 { 15 } else { 0 }, 15]) {
                0 if n > 0 => PeerTx::B(r.idx(n)),
                1 => PeerTx::U(r.idx(n_unrel)),
                _ if n > 0 => PeerTx::W(r.idx(n)),
                _ => PeerTx::U(0),
            })
            .filter(|p| !matches!(p, PeerTx::U(j) if *j >= n_unrel))
            .collect();
        let answer_txs = r.pick(&["exact", "exact", "exact", "drop", "extra", "swap", "wrong", "unrelated", "empty", "collide_tx"]).to_string();
        let answer_uncles = r.pick(&["exact", "exact", "exact", "drop", "extra", "swap", "wrong", "empty"]).to_string();
        ops.push(Round {
            txs,
            uncles,
            proposals: r.urange(0, 4),
            extension: if r.chance(1, 3) { Some(r.urange(0, 40)) } else { None },
            prefilled,
            illegal,
            collide,
            pool,
            unrelated,
            pool_unrelated,
            loose_txs,
            answer_txs,
            answer_uncles,
            k: r.urange(0, 7),
            e2e: r.chance(2, 3),
        });
    }
    Scenario { engine: "simpeer".into(), kind: "reconstruct".into(), seed, height, n_forks, ops }
}

// ------------------------------------------------------------------ execution

struct Ctx {
    res: RunResult,
    log: Fnv,
    il: Fnv,
    deferred: Option<Violation>,
}
impl Ctx {
    fn ev(&mut self, s: &str) {
        self.log.write_str(s);
        if std::env::var_os("SIM_TRACE").is_some() {
            eprintln!("[ev] {s}");
        }
    }
    fn viol(&mut self, class: &str, detail: String) {
        if std::env::var_os("SIM_TRACE").is_some() {
            eprintln!("[viol] {class}: {detail}");
        }
        if crate::guard::continue_past(class) {
            self.res.probes.inc(&format!("continued_past:{class}"));
            if self.deferred.is_none() {
                self.deferred = Some(Violation { property: PROP.into(), class: class.into(), detail });
            }
            return;
        }
        if self.res.violation.is_none() {
            self.res.violation = Some(Violation { property: PROP.into(), class: class.into(), detail });
        }
    }
    fn herr(&mut self, s: String) {
        if std::env::var_os("SIM_TRACE").is_some() {
            eprintln!("[harness] {s}");
        }
        if self.res.harness_error.is_none() {
            self.res.harness_error = Some(s);
        }
    }
    fn panic(&mut self, what: &str, p: &PanicInfo) {
        if p.in_harness() {
            self.herr(format!("harness panic in {what} at {}: {}", p.location, p.message));
        } else {
            self.res.probes.inc(&format!("panic_in:{}", what.split('(').next().unwrap_or(what)));
            self.viol(&p.class(what.split('(').next().unwrap_or(what)), format!("{what} panicked at {}: {}", p.location, p.message));
        }
    }
}

#[derive(Clone, Copy, PartialEq, Debug)]
enum Src {
    Prefilled,
    Peer,
    Pool,
}

/// what the property allows for one reconstruct call
enum Expect {
    Missing(Vec<usize>, Vec<usize>),
    /// everything is available and assembles to this block; `same` = it is B
    Assembled { block: BlockView, root_ok: bool, srcs: Vec<Src> },
    /// the verifier let an illegal compact block through: no positional model, only "never another block"
    Unmodelled,
}

struct World<'a> {
    b: &'a BlockView,
    cb: &'a CompactBlock,
    legal: bool,
    pool: &'a HashMap<ProposalShortId, TransactionView>,
    known_uncles: &'a HashSet<packed::Byte32>,
    chain_uncles: &'a HashMap<packed::Byte32, UncleBlockView>,
}

fn model_legal(cb: &CompactBlock) -> Result<(), &'static str> {
    let pre: Vec<usize> = cb.prefilled_transactions().into_iter().map(|p| p.index().into()).collect();
    let n = cb.txs_len();
    if pre.is_empty() || pre[0] != 0 {
        return Err("cellbase not prefilled first");
    }
    if pre.windows(2).any(|w| w[0] >= w[1]) {
        return Err("prefilled indexes not strictly increasing");
    }
    if *pre.last().unwrap() >= n {
        return Err("prefilled index out of range");
    }
    let ids: Vec<ProposalShortId> = cb.short_ids().into_iter().collect();
    let set: HashSet<ProposalShortId> = ids.iter().cloned().collect();
    if set.len() != ids.len() {
        return Err("duplicate short ids");
    }
    if cb.prefilled_transactions().into_iter().skip(1).any(|p| set.contains(&p.transaction().proposal_short_id())) {
        return Err("a prefilled transaction is also listed by short id");
    }
    Ok(())
}

fn expect(w: &World, received: &[TransactionView], uncles_index: &[u32], received_uncles: &[UncleBlockView]) -> Expect {
    if !w.legal {
        return Expect::Unmodelled;
    }
    let ids: Vec<ProposalShortId> = w.cb.short_ids().into_iter().collect();
    let mut want: HashSet<ProposalShortId> = ids.iter().cloned().collect();
    let mut have: HashMap<ProposalShortId, (TransactionView, Src)> = HashMap::new();
    for tx in received {
        let id = tx.proposal_short_id();
        if want.remove(&id) {
            have.insert(id, (tx.clone(), Src::Peer));
        }
    }
    for id in want {
        if let Some(tx) = w.pool.get(&id) {
            have.insert(id, (tx.clone(), Src::Pool));
        }
    }
    let pre: HashMap<usize, packed::Transaction> = w.cb.prefilled_transactions().into_iter().map(|p| (p.index().into(), p.transaction())).collect();
    let n = w.cb.txs_len();
    let mut slots: Vec<Option<(packed::Transaction, Src)>> = Vec::with_capacity(n);
    let mut next = 0usize;
    for p in 0..n {
        if let Some(t) = pre.get(&p) {
            slots.push(Some((t.clone(), Src::Prefilled)));
        } else {
            let id = &ids[next];
            next += 1;
            slots.push(have.get(id).map(|(t, s)| (t.data(), *s)));
        }
    }
    let missing_tx: Vec<usize> = slots.iter().enumerate().filter(|(_, s)| s.is_none()).map(|(i, _)| i).collect();
    let mut missing_un = Vec::new();
    let mut uncles = Vec::new();
    let mut pos = 0usize;
    for (i, h) in w.cb.uncles().into_iter().enumerate() {
        if uncles_index.contains(&(i as u32)) {
            match received_uncles.get(pos) {
                Some(u) => uncles.push(u.data()),
                None => return Expect::Unmodelled, // the uncle verifier should never have let this through
            }
            pos += 1;
        } else if w.known_uncles.contains(&h) {
            uncles.push(w.chain_uncles[&h].data());
        } else {
            missing_un.push(i);
        }
    }
    if !missing_tx.is_empty() || !missing_un.is_empty() {
        return Expect::Missing(missing_tx, missing_un);
    }
    let srcs: Vec<Src> = slots.iter().map(|s| s.as_ref().unwrap().1).collect();
    let txs: Vec<packed::Transaction> = slots.into_iter().map(|s| s.unwrap().0).collect();
    let block = if let Some(ext) = w.cb.extension() {
        packed::BlockV1::new_builder().header(w.cb.header()).uncles(uncles).transactions(txs).proposals(w.cb.proposals()).extension(ext).build().as_v0()
    } else {
        packed::Block::new_builder().header(w.cb.header()).uncles(uncles).transactions(txs).proposals(w.cb.proposals()).build()
    }
    .into_view();
    let root_ok = block.transactions_root() == w.cb.header().raw().transactions_root();
    Expect::Assembled { block, root_ok, srcs }
}

fn kind_of(r: &ReconstructionResult) -> &'static str {
    match r {
        ReconstructionResult::Block(_) => "Block",
        ReconstructionResult::Missing(..) => "Missing",
        ReconstructionResult::Collided => "Collided",
        ReconstructionResult::Error(_) => "Error",
    }
}

/// the oracle for one call; returns (nontrivial, state fingerprint)
fn judge(cx: &mut Ctx, what: &str, w: &World, exp: &Expect, got: &ReconstructionResult) -> bool {
    let mut nontrivial = false;
    // the heart of the property, independent of any model: never another block
    if let ReconstructionResult::Block(b) = got {
        if b.hash() != w.cb.calc_header_hash() || b.hash() != w.b.hash() || b.data().as_slice() != w.b.data().as_slice() {
            let why = if b.hash() != w.b.hash() {
                "its header hash differs from the compact block's"
            } else if b.data().transactions().as_slice() != w.b.data().transactions().as_slice() {
                "its transactions differ"
            } else if b.data().uncles().as_slice() != w.b.data().uncles().as_slice() {
                "its uncles differ"
            } else if b.data().proposals().as_slice() != w.b.data().proposals().as_slice() {
                "its proposals differ"
            } else {
                "its extension / encoding differs"
            };
            cx.viol(
                &format!("different_block:{what}"),
                format!("{what}: reconstruct_block returned Block(b) but b is not the block the header commits to: {why} (b {} txs, B {} txs; hash {:#x} vs {:#x})", b.transactions().len(), w.b.transactions().len(), b.hash(), w.b.hash()),
            );
        }
    }
    match (exp, got) {
        (Expect::Unmodelled, _) => {}
        (Expect::Missing(mt, mu), ReconstructionResult::Missing(gt, gu)) => {
            nontrivial = true;
            if mt != gt || mu != gu {
                cx.viol(
                    &format!("missing_report_imprecise:{what}"),
                    format!("{what}: Missing({gt:?},{gu:?}) but exactly transactions {mt:?} and uncles {mu:?} are neither prefilled, pooled, stored nor supplied"),
                );
            }
        }
        (Expect::Missing(mt, mu), other) => {
            cx.viol(
                &format!("missing_report_imprecise:{what}"),
                format!("{what}: transactions {mt:?} / uncles {mu:?} are unavailable but the result is {}", kind_of(other)),
            );
        }
        (Expect::Assembled { block, root_ok, srcs }, got) => {
            let from_pool = srcs.iter().filter(|s| **s == Src::Pool).count();
            let from_peer = srcs.iter().filter(|s| **s == Src::Peer).count();
            if from_pool > 0 && from_peer > 0 {
                nontrivial = true;
            }
            match got {
                ReconstructionResult::Block(b) => {
                    if !*root_ok {
                        cx.viol(&format!("different_block:{what}"), format!("{what}: the available transactions do not match the header's transactions root, yet a block was returned"));
                    } else if b.data().as_slice() != block.data().as_slice() {
                        cx.viol(&format!("different_block:{what}"), format!("{what}: returned block differs from the block assembled from the same parts"));
                    }
                }
                ReconstructionResult::Missing(gt, gu) => {
                    cx.viol(&format!("missing_report_imprecise:{what}"), format!("{what}: everything is available but the result is Missing({gt:?},{gu:?})"));
                }
                ReconstructionResult::Collided | ReconstructionResult::Error(_) => {
                    if *root_ok && block.data().as_slice() == w.b.data().as_slice() {
                        cx.viol(&format!("block_not_reconstructed:{what}"), format!("{what}: every part of B is available and matches, but the verdict is {}", kind_of(got)));
                    }
                }
            }
        }
    }
    cx.res.probes.inc(&format!("result:{}", kind_of(got)));
    nontrivial
}

fn state_fp(exp: &Expect, got: &ReconstructionResult, round: &Round) -> u64 {
    let (a, b, c, d) = match exp {
        Expect::Missing(t, u) => (1u64, t.len().min(6) as u64, u.len() as u64, 0u64),
        Expect::Assembled { srcs, root_ok, .. } => (
            2,
            srcs.iter().filter(|s| **s == Src::Pool).count().min(4) as u64,
            srcs.iter().filter(|s| **s == Src::Peer).count().min(4) as u64,
            *root_ok as u64 + 2 * srcs.iter().filter(|s| **s == Src::Prefilled).count().min(3) as u64,
        ),
        Expect::Unmodelled => (3, 0, 0, 0),
    };
    let g = match got {
        ReconstructionResult::Block(_) => 1u64,
        ReconstructionResult::Missing(..) => 2,
        ReconstructionResult::Collided => 3,
        ReconstructionResult::Error(_) => 4,
    };
    fp(&[0xEC, a, b, c, d, g, fp_bytes(round.illegal.as_bytes()), !round.collide.is_empty() as u64, round.extension.is_some() as u64])
}

fn build_tx(node: &Node, specs: &[TxSpec], built: &[TransactionView], i: usize) -> TransactionView {
    let s = &specs[i];
    match s.parent {
        Some(p) if p < built.len() => {
            let parent = &built[p];
            let cap: u64 = parent.outputs().get(0).map(|o| o.capacity().into()).unwrap_or(0);
            node.spend(packed::OutPoint::new(parent.hash(), 0), cap, s.fee, s.tag)
        }
        _ => {
            let (op, cap) = node.cells[s.cell % node.cells.len()].clone();
            node.spend(op, cap, s.fee, s.tag)
        }
    }
}

/// the compact block the peer sends: legal form from build_from_block, then the requested defect
fn make_compact(b: &BlockView, round: &Round, unrelated: &[TransactionView], cx: &mut Ctx) -> CompactBlock {
    let pre: HashSet<usize> = round.prefilled.iter().cloned().filter(|p| *p >= 1 && *p < b.transactions().len()).collect();
    let cb = CompactBlock::build_from_block(b, &pre);
    let mut short_ids: Vec<ProposalShortId> = cb.short_ids().into_iter().collect();
    let mut prefilled: Vec<packed::IndexTransaction> = cb.prefilled_transactions().into_iter().collect();
    let mut changed = false;
    // short-id collision, emulated: the compact block names the id of a DIFFERENT transaction that
    // the node can find, at a position where the header commits to B's transaction
    if !round.collide.is_empty() {
        let idx = cb.short_id_indexes();
        for (pos, j) in &round.collide {
            if let (Some(slot), Some(u)) = (idx.iter().position(|p| p == pos), unrelated.get(*j)) {
                if !short_ids.contains(&u.proposal_short_id()) {
                    short_ids[slot] = u.proposal_short_id();
                    changed = true;
                    cx.res.faults.inc("short_id_collision");
                }
            }
        }
    }
    let k = round.k;
    match round.illegal.as_str() {
        "unordered" => {
            if prefilled.len() >= 2 {
                let i = k % (prefilled.len() - 1);
                prefilled.swap(i, i + 1);
                changed = true;
            }
        }
        "duplicate" => {
            let i = k % prefilled.len();
            let d = prefilled[i].clone();
            prefilled.insert(i + 1, d);
            changed = true;
        }
        "out_of_range" => {
            let n = prefilled.len() + short_ids.len();
            let last = prefilled.len() - 1;
            let bad = n + [0usize, 1, 7, 1000, u32::MAX as usize - n][k % 5];
            prefilled[last] = prefilled[last].clone().as_builder().index(bad as u32).build();
            changed = true;
        }
        "dup_short_id" => {
            if !short_ids.is_empty() {
                let d = short_ids[k % short_ids.len()].clone();
                if short_ids.len() >= 2 && k % 2 == 0 {
                    let j = (k + 1) % short_ids.len();
                    if short_ids[j] != d {
                        short_ids[j] = d;
                        changed = true;
                    }
                } else {
                    short_ids.push(d);
                    changed = true;
                }
            }
        }
        "no_cellbase" => {
            let c = prefilled.remove(0);
            short_ids.insert(0, c.transaction().proposal_short_id());
            changed = true;
        }
        "prefilled_in_short_ids" => {
            if prefilled.len() >= 2 {
                let p = &prefilled[1 + k % (prefilled.len() - 1)];
                short_ids.push(p.transaction().proposal_short_id());
                changed = true;
            }
        }
        _ => {}
    }
    if !changed {
        return cb;
    }
    if !round.illegal.is_empty() {
        cx.res.faults.inc("prefilled_illegal");
        cx.res.faults.inc(&format!("prefilled_illegal:{}", round.illegal));
    }
    if let Some(ext) = cb.extension() {
        packed::CompactBlockV1::new_builder()
            .header(cb.header())
            .short_ids(short_ids)
            .prefilled_transactions(prefilled)
            .uncles(cb.uncles())
            .proposals(cb.proposals())
            .extension(ext)
            .build()
            .as_v0()
    } else {
        cb.as_builder().short_ids(short_ids).prefilled_transactions(prefilled).build()
    }
}

fn answer_txs(round: &Round, ask: &[u32], b: &BlockView, cb: &CompactBlock, unrelated: &[TransactionView], wrong: &dyn Fn(usize) -> Option<TransactionView>, cx: &mut Ctx) -> Vec<TransactionView> {
    let btx = b.transactions();
    let mut v: Vec<TransactionView> = ask.iter().filter_map(|i| btx.get(*i as usize).cloned()).collect();
    let k = round.k;
    let mut wrong_fault = false;
    match round.answer_txs.as_str() {
        "drop" if !v.is_empty() => {
            v.remove(k % v.len());
        }
        "extra" => {
            if let Some(u) = unrelated.first() {
                v.insert(k % (v.len() + 1), u.clone());
                wrong_fault = true;
            } else if let Some(t) = btx.get(1) {
                v.push(t.clone());
            }
        }
        "swap" if v.len() >= 2 => {
            let i = k % (v.len() - 1);
            v.swap(i, i + 1);
        }
        "wrong" if !v.is_empty() => {
            let i = k % v.len();
            if let Some(wt) = wrong(ask[i] as usize) {
                v[i] = wt;
                wrong_fault = true;
            }
        }
        "unrelated" => {
            v = unrelated.iter().take(ask.len()).cloned().collect();
            wrong_fault = !v.is_empty();
        }
        "empty" => v.clear(),
        "collide_tx" => {
            // the peer supplies, for every asked position, the transaction whose id the compact block names
            let ids = cb.block_short_ids();
            for (slot, i) in ask.iter().enumerate() {
                if let Some(Some(id)) = ids.get(*i as usize) {
                    if let Some(u) = unrelated.iter().find(|u| &u.proposal_short_id() == id) {
                        if slot < v.len() {
                            v[slot] = u.clone();
                            wrong_fault = true;
                        }
                    }
                }
            }
        }
        _ => {}
    }
    if wrong_fault {
        cx.res.faults.inc("peer_supplied_wrong_tx");
    }
    v
}

fn answer_uncles(round: &Round, ask: &[u32], b: &BlockView, strangers: &[UncleBlockView], cx: &mut Ctx) -> Vec<UncleBlockView> {
    let bu = b.uncles();
    let mut v: Vec<UncleBlockView> = ask.iter().filter_map(|i| bu.get(*i as usize)).collect();
    let k = round.k / 2;
    match round.answer_uncles.as_str() {
        "drop" if !v.is_empty() => {
            v.remove(k % v.len());
            cx.res.faults.inc("peer_supplied_uncle_subset");
        }
        "extra" => {
            if let Some(s) = strangers.last() {
                v.push(s.clone());
                cx.res.faults.inc("peer_supplied_uncle_superset");
            }
        }
        "swap" if v.len() >= 2 => {
            v.swap(0, 1);
            cx.res.faults.inc("peer_supplied_uncle_wrong_order");
        }
        "wrong" if !v.is_empty() => {
            if let Some(s) = strangers.last() {
                let i = k % v.len();
                v[i] = s.clone();
                cx.res.faults.inc("peer_supplied_wrong_uncle");
            }
        }
        "empty" => {
            if !v.is_empty() {
                cx.res.faults.inc("peer_supplied_uncle_subset");
            }
            v.clear();
        }
        _ => {}
    }
    v
}

fn wait_for_request(nc: &SimNetContext, peer: PeerIndex, hash: &packed::Byte32, skip: usize, max_ms: u32) -> Option<(Vec<u32>, Vec<u32>)> {
    for _ in 0..max_ms {
        {
            let log = nc.log.lock().unwrap();
            let mut seen = 0usize;
            for (_, p, data) in &log.sent {
                if *p != peer {
                    continue;
                }
                if let Ok(m) = packed::RelayMessage::from_slice(data) {
                    if let packed::RelayMessageUnion::GetBlockTransactions(g) = m.to_enum() {
                        if &g.block_hash() == hash {
                            if seen == skip {
                                return Some((g.indexes().into_iter().map(|i| i.into()).collect(), g.uncle_indexes().into_iter().map(|i| i.into()).collect()));
                            }
                            seen += 1;
                        }
                    }
                }
            }
        }
        std::thread::sleep(std::time::Duration::from_millis(1));
    }
    None
}

pub fn exec(sc: &Scenario, dir: &std::path::Path) -> RunResult {
    let mut cx = Ctx { res: RunResult { seed: sc.seed, ..Default::default() }, log: Fnv::new(), il: Fnv::new(), deferred: None };
    let opened = guarded(|| Node::open(dir, sc.height, sc.n_forks));
    let mut node = match opened {
        Ok(Ok(n)) => n,
        Ok(Err(e)) => {
            cx.herr(format!("node setup: {e}"));
            return finish(cx);
        }
        Err(p) => {
            cx.herr(format!("node setup panicked at {}: {}", p.location, p.message));
            return finish(cx);
        }
    };
    let known_uncles: HashSet<packed::Byte32> = node.forks.iter().map(|f| f.hash()).collect();
    let chain_uncles: HashMap<packed::Byte32, UncleBlockView> = node.forks.iter().map(|f| (f.hash(), f.as_uncle())).collect();
    let strangers: Vec<UncleBlockView> = node.strangers.iter().map(|s| s.as_uncle()).collect();
    let tip = node.shared.snapshot().tip_header().clone();
    let tx_pool = node.shared.tx_pool_controller().clone();

    for (ri, round) in sc.ops.iter().enumerate() {
        if cx.res.violation.is_some() || cx.res.harness_error.is_some() {
            break;
        }
        cx.res.steps += 1;
        cx.il.write_str(&serde_json::to_string(round).unwrap_or_default());
        // ---- the block the header commits to
        let mut btxs: Vec<TransactionView> = Vec::new();
        for i in 0..round.txs.len() {
            let t = build_tx(&node, &round.txs, &btxs, i);
            btxs.push(t);
        }
        let unrelated: Vec<TransactionView> = (0..round.unrelated.len()).map(|i| build_tx(&node, &round.unrelated, &[], i)).collect();
        let mut r = Rng::new(sc.seed ^ (ri as u64) << 32 ^ 0xB10C);
        let cellbase = {
            let cb = ckb_types::core::TransactionBuilder::default()
                .input(packed::CellInput::new_cellbase_input(tip.number() + 1))
                .witness(packed::CellbaseWitness::new_builder().lock(node.always_success_script.clone()).message(Bytes::from(r.bytes(8)).pack()).build().as_bytes().pack())
                .output(packed::CellOutput::new_builder().capacity(ckb_types::core::Capacity::shannons(100_000_000_000)).lock(node.always_success_script.clone()).build())
                .output_data(Bytes::new().pack());
            cb.build()
        };
        let mut uncles: Vec<UncleBlockView> = Vec::new();
        for u in &round.uncles {
            let v = if u.known { node.forks.get(u.idx % node.forks.len().max(1)).map(|f| f.as_uncle()) } else { strangers.get(u.idx % strangers.len().max(1)).cloned() };
            if let Some(v) = v {
                if !uncles.iter().any(|x| x.hash() == v.hash()) {
                    uncles.push(v);
                }
            }
        }
        let mut proposals: Vec<ProposalShortId> = (0..round.proposals).map(|_| ProposalShortId::from_slice(&r.bytes(10)).unwrap()).collect();
        if let Some(t) = btxs.first() {
            if round.proposals > 0 {
                proposals.push(t.proposal_short_id());
            }
        }
        let header = crate::node::new_header_builder(&node.shared, &tip).timestamp(tip.timestamp() + 1000 + ri as u64).build();
        let mut bb = BlockBuilder::default().header(header).transaction(cellbase).transactions(btxs.clone()).uncles(uncles).proposals(proposals);
        if let Some(n) = round.extension {
            bb = bb.extension(Some(Bytes::from(r.bytes(n)).pack()));
        }
        let b = bb.build();
        // ---- what the node holds
        if let Err(e) = tx_pool.clear_pool(node.shared.cloned_snapshot()) {
            cx.herr(format!("clear_pool: {e}"));
            break;
        }
        let mut submitted_ok: HashSet<ProposalShortId> = HashSet::new();
        let mut rejected = 0u64;
        for i in &round.pool {
            if let Some(t) = btxs.get(*i) {
                match tx_pool.submit_local_tx(t.clone()) {
                    Ok(Ok(())) => {
                        submitted_ok.insert(t.proposal_short_id());
                    }
                    Ok(Err(_)) => rejected += 1,
                    Err(e) => cx.herr(format!("submit_local_tx: {e}")),
                }
            }
        }
        for j in &round.pool_unrelated {
            if let Some(t) = unrelated.get(*j) {
                match tx_pool.submit_local_tx(t.clone()) {
                    Ok(Ok(())) => {
                        submitted_ok.insert(t.proposal_short_id());
                    }
                    Ok(Err(_)) => rejected += 1,
                    Err(e) => cx.herr(format!("submit_local_tx: {e}")),
                }
            }
        }
        if round.pool.len() < btxs.len() || rejected > 0 {
            cx.res.faults.inc("pool_subset");
        }
        if rejected > 0 {
            cx.res.faults.inc("pool_rejected_submission");
        }
        let cb = make_compact(&b, round, &unrelated, &mut cx);
        // availability = what the pool actually answers for the ids the compact block names
        let all_ids: HashSet<ProposalShortId> = cb.short_ids().into_iter().collect();
        let pool: HashMap<ProposalShortId, TransactionView> = if all_ids.is_empty() {
            HashMap::new()
        } else {
            match node.rt.block_on(tx_pool.fetch_txs(all_ids.clone())) {
                Ok(m) => m,
                Err(e) => {
                    cx.herr(format!("fetch_txs: {e}"));
                    break;
                }
            }
        };
        for id in pool.keys() {
            if !submitted_ok.contains(id) {
                cx.herr(format!("the pool answers for {id:?} which was never accepted"));
            }
        }
        for id in all_ids.iter() {
            if submitted_ok.contains(id) && !pool.contains_key(id) {
                cx.herr(format!("the pool accepted {id:?} but does not return it"));
            }
        }
        let legal = model_legal(&cb);
        let verdict = match guarded(|| compact_block_verify(&cb)) {
            Ok(s) => s,
            Err(p) => {
                cx.panic("CompactBlockVerifier::verify", &p);
                continue;
            }
        };
        cx.ev(&format!(
            "round {ri}: B {} txs {} uncles ext {:?}; compact {} short ids {} prefilled illegal='{}' collide {}; pool holds {}; verifier {}",
            b.transactions().len(),
            b.uncles().hashes().len(),
            round.extension,
            cb.short_ids().len(),
            cb.prefilled_transactions().len(),
            round.illegal,
            round.collide.len(),
            pool.len(),
            if verdict.is_ok() { "ok" } else { "rejected" }
        ));
        cx.res.probes.inc(if verdict.is_ok() { "compact_block_verifier:ok" } else { "compact_block_verifier:rejected" });
        match (&legal, verdict.is_ok()) {
            (Err(why), true) => cx.viol(&format!("illegal_compact_block_accepted:{}", round.illegal), format!("round {ri}: CompactBlockVerifier accepted a compact block with {why}")),
            (Ok(()), false) => cx.viol("legal_compact_block_rejected", format!("round {ri}: CompactBlockVerifier rejected a well-formed compact block: {verdict}")),
            _ => {}
        }
        let w = World { b: &b, cb: &cb, legal: legal.is_ok(), pool: &pool, known_uncles: &known_uncles, chain_uncles: &chain_uncles };
        // wrong[pos]: a different transaction spending the same cell as B's transaction at block position `pos`
        let wrong: Vec<Option<TransactionView>> = (0..=round.txs.len())
            .map(|pos| {
                if pos == 0 {
                    return None;
                }
                let mut specs = round.txs.clone();
                specs[pos - 1].fee += 7;
                specs[pos - 1].tag ^= 0x5a5a;
                Some(build_tx(&node, &specs, &btxs, pos - 1))
            })
            .collect();
        let wrong_of = |pos: usize| -> Option<TransactionView> { wrong.get(pos).cloned().flatten() };
        let active_chain = node.sync_shared.active_chain();
        let mut nontrivial = false;

        // ---- direct calls, gated exactly as CompactBlockProcess / BlockTransactionsProcess gate them
        'direct: {
            if !verdict.is_ok() {
                break 'direct;
            }
            // phase 1: nothing from the peer yet
            let e1 = expect(&w, &[], &[], &[]);
            let r1 = guarded(|| node.rt.block_on(node.relayer.reconstruct_block(&active_chain, &cb, vec![], &[], &[])));
            let r1 = match r1 {
                Ok(r) => r,
                Err(p) => {
                    cx.panic("reconstruct_block(compact block only)", &p);
                    break 'direct;
                }
            };
            nontrivial |= judge(&mut cx, "compact_block_only", &w, &e1, &r1);
            cx.res.states.push(state_fp(&e1, &r1, round));
            cx.ev(&format!("  phase1 -> {}", kind_of(&r1)));
            // any set of peer-supplied transactions (no uncles): reconstruct_block filters by short id
            if !round.loose_txs.is_empty() {
                let loose: Vec<TransactionView> = round
                    .loose_txs
                    .iter()
                    .filter_map(|p| match p {
                        PeerTx::B(i) => btxs.get(*i).cloned(),
                        PeerTx::U(j) => unrelated.get(*j).cloned(),
                        PeerTx::W(i) => wrong_of(*i + 1),
                    })
                    .collect();
                if round.loose_txs.iter().any(|p| !matches!(p, PeerTx::B(_))) {
                    cx.res.faults.inc("peer_supplied_wrong_tx");
                }
                let e = expect(&w, &loose, &[], &[]);
                match guarded(|| node.rt.block_on(node.relayer.reconstruct_block(&active_chain, &cb, loose.clone(), &[], &[]))) {
                    Ok(r) => {
                        nontrivial |= judge(&mut cx, "any_peer_set", &w, &e, &r);
                        cx.res.states.push(state_fp(&e, &r, round));
                        cx.ev(&format!("  loose({}) -> {}", loose.len(), kind_of(&r)));
                    }
                    Err(p) => {
                        cx.panic("reconstruct_block(any peer-supplied set)", &p);
                        break 'direct;
                    }
                }
            }
            // phase 2: the peer answers the request the node would send
            let ask: Option<(Vec<u32>, Vec<u32>)> = match &r1 {
                ReconstructionResult::Missing(t, u) => Some((t.iter().map(|i| *i as u32).collect(), u.iter().map(|i| *i as u32).collect())),
                ReconstructionResult::Collided => Some((cb.short_id_indexes().into_iter().map(|i| i as u32).collect(), vec![])),
                _ => None,
            };
            if let Some((ask_t, ask_u)) = ask {
                let at = answer_txs(round, &ask_t, &b, &cb, &unrelated, &wrong_of, &mut cx);
                let au = answer_uncles(round, &ask_u, &b, &strangers, &mut cx);
                let vt = guarded(|| block_transactions_verify(&cb, &ask_t, &at));
                let vu = guarded(|| block_uncles_verify(&cb, &ask_u, &au));
                match (vt, vu) {
                    (Err(p), _) => cx.panic("BlockTransactionsVerifier::verify", &p),
                    (_, Err(p)) => cx.panic("BlockUnclesVerifier::verify", &p),
                    (Ok(vt), Ok(vu)) => {
                        cx.res.probes.inc(if vt.is_ok() { "block_transactions_verifier:ok" } else { "block_transactions_verifier:rejected" });
                        cx.res.probes.inc(if vu.is_ok() { "block_uncles_verifier:ok" } else { "block_uncles_verifier:rejected" });
                        if vu.is_ok() && au.len() != ask_u.len() {
                            cx.res.probes.inc("block_uncles_verifier_passed_a_length_mismatch");
                        }
                        cx.ev(&format!("  answer {} txs ({}) {} uncles ({}) for request {:?}/{:?}: verifiers {}/{}", at.len(), round.answer_txs, au.len(), round.answer_uncles, ask_t, ask_u, vt.is_ok(), vu.is_ok()));
                        if vt.is_ok() && vu.is_ok() {
                            let e2 = expect(&w, &at, &ask_u, &au);
                            match guarded(|| node.rt.block_on(node.relayer.reconstruct_block(&active_chain, &cb, at.clone(), &ask_u, &au))) {
                                Ok(r2) => {
                                    nontrivial |= judge(&mut cx, "with_peer_answer", &w, &e2, &r2);
                                    cx.res.states.push(state_fp(&e2, &r2, round));
                                    cx.ev(&format!("  phase2 -> {}", kind_of(&r2)));
                                }
                                Err(p) => {
                                    cx.panic("reconstruct_block(with the peer's answer, after both verifiers passed)", &p);
                                    break 'direct;
                                }
                            }
                        }
                    }
                }
            }
        }

        // ---- end to end through Relayer::received
        if round.e2e && cx.res.violation.is_none() && cx.res.harness_error.is_none() {
            nontrivial |= e2e(&mut cx, &mut node, ri, round, &w, &b, &cb, verdict.is_ok(), &unrelated, &wrong_of, &strangers);
        }
        if nontrivial {
            cx.res.nontrivial = true;
        }
    }
    drop(node);
    finish(cx)
}

#[allow(clippy::too_many_arguments)]
fn e2e(
    cx: &mut Ctx,
    node: &mut Node,
    ri: usize,
    round: &Round,
    w: &World,
    b: &BlockView,
    cb: &CompactBlock,
    verifier_ok: bool,
    unrelated: &[TransactionView],
    wrong_of: &dyn Fn(usize) -> Option<TransactionView>,
    strangers: &[UncleBlockView],
) -> bool {
    let mut nontrivial = false;
    let nc = Arc::new(SimNetContext::new(SupportProtocols::RelayV3));
    let peer: PeerIndex = (100 + ri).into();
    let hash = cb.calc_header_hash();
    let active_chain = node.sync_shared.active_chain();
    if node.chain.insert_pending() != 0 {
        cx.herr("chain request queue not empty before the round".into());
        return false;
    }
    let msg = packed::RelayMessage::new_builder().set(cb.clone()).build().as_bytes();
    let dynnc: Arc<dyn ckb_network::CKBProtocolContext + Sync> = nc.clone();
    let got = {
        let relayer = &mut node.relayer;
        let rt = &node.rt;
        guarded(|| rt.block_on(relayer.received(Arc::clone(&dynnc), peer, msg)))
    };
    if let Err(p) = got {
        cx.panic("Relayer::received(CompactBlock)", &p);
        return false;
    }
    cx.res.probes.inc("e2e:compact_block_delivered");
    let e1 = expect(w, &[], &[], &[]);
    let forwarded = |cx: &mut Ctx, node: &mut Node, what: &str| {
        // whatever reached the chain service must be B
        let n = node.chain.insert_pending();
        if n != 1 {
            cx.herr(format!("{what}: expected one block handed to the chain service, found {n}"));
            return;
        }
        node.chain.step_insert_queued();
        match node.shared.store().get_block(&hash) {
            Some(stored) => {
                if stored.data().as_slice() != b.data().as_slice() {
                    cx.viol(&format!("different_block:forwarded_{what}"), format!("{what}: the block handed to the chain service under hash {hash:#x} is not B"));
                } else {
                    cx.res.probes.inc("e2e:forwarded_block_is_B");
                }
            }
            None => cx.herr(format!("{what}: B was handed to the chain service but refused before storing (status {:?})", active_chain.get_block_status(&hash))),
        }
    };
    if !verifier_ok {
        if node.chain.insert_pending() != 0 {
            node.chain.step_insert_queued();
            cx.viol("illegal_compact_block_forwarded", format!("round {ri}: a compact block refused by CompactBlockVerifier still produced a block for the chain service"));
        }
        // refused means refused: nothing kept pending, nothing asked of the peer
        let kept = node.rt.block_on(node.sync_shared.state().pending_compact_blocks()).contains_key(&hash);
        if kept {
            cx.viol("illegal_compact_block_processed", format!("round {ri}: a compact block with defect '{}' (refused by CompactBlockVerifier) was kept pending and answered with a request", round.illegal));
        }
        cx.ev("  e2e: refused");
        return false;
    }
    let mut pending_ask: Option<(Vec<u32>, Vec<u32>)> = None;
    match &e1 {
        Expect::Assembled { root_ok: true, block, .. } if block.data().as_slice() == b.data().as_slice() => {
            forwarded(cx, node, "compact_block");
            cx.ev("  e2e: accepted from the compact block alone");
        }
        Expect::Missing(mt, mu) => {
            nontrivial = true;
            match wait_for_request(&nc, peer, &hash, 0, 3000) {
                Some((gt, gu)) => {
                    let (wt, wu): (Vec<u32>, Vec<u32>) = (mt.iter().map(|i| *i as u32).collect(), mu.iter().map(|i| *i as u32).collect());
                    if gt != wt || gu != wu {
                        cx.viol("missing_report_imprecise:e2e_request", format!("round {ri}: the node asked the peer for transactions {gt:?} uncles {gu:?}; absent are exactly {wt:?} / {wu:?}"));
                    }
                    cx.res.probes.inc("e2e:request_matches_missing");
                    pending_ask = Some((gt, gu));
                }
                None => cx.herr(format!("round {ri}: no GetBlockTransactions although {mt:?}/{mu:?} are missing (banned: {:?})", nc.log.lock().unwrap().banned)),
            }
        }
        Expect::Assembled { .. } => {
            // collision / mismatch: the node must ask for every short-id position again or refuse
            if node.chain.insert_pending() != 0 {
                node.chain.step_insert_queued();
                cx.viol("different_block:forwarded_compact_block", format!("round {ri}: the parts do not assemble to B, yet a block was handed to the chain service"));
            }
            if let Some((gt, gu)) = wait_for_request(&nc, peer, &hash, 0, 40) {
                cx.res.probes.inc("e2e:collision_rerequest");
                pending_ask = Some((gt, gu));
            }
        }
        Expect::Unmodelled => {}
    }
    // the peer's answer
    if let Some((ask_t, ask_u)) = pending_ask {
        let at = answer_txs(round, &ask_t, b, cb, unrelated, wrong_of, cx);
        let au = answer_uncles(round, &ask_u, b, strangers, cx);
        let bt = packed::BlockTransactions::new_builder()
            .block_hash(hash.clone())
            .transactions(at.iter().map(|t| t.data()).collect::<Vec<_>>())
            .uncles(au.iter().map(|u| u.data()).collect::<Vec<_>>())
            .build();
        let msg = packed::RelayMessage::new_builder().set(bt).build().as_bytes();
        let got = {
            let relayer = &mut node.relayer;
            let rt = &node.rt;
            guarded(|| rt.block_on(relayer.received(Arc::clone(&dynnc), peer, msg)))
        };
        if let Err(p) = got {
            cx.panic("Relayer::received(BlockTransactions)", &p);
            return nontrivial;
        }
        cx.res.probes.inc("e2e:block_transactions_delivered");
        let n = node.chain.insert_pending();
        if n > 0 {
            // a block came out: it must be B, and B's parts must really have been there
            let e2 = expect(w, &at, &ask_u, &au);
            match e2 {
                Expect::Assembled { root_ok: true, ref block, ref srcs } if block.data().as_slice() == b.data().as_slice() => {
                    if srcs.iter().any(|s| *s == crate::recon::Src::Pool) && srcs.iter().any(|s| *s == crate::recon::Src::Peer) {
                        nontrivial = true;
                    }
                    forwarded(cx, node, "block_transactions");
                }
                _ => {
                    node.chain.step_insert_queued();
                    let stored = node.shared.store().get_block(&hash);
                    let same = stored.map(|s| s.data().as_slice() == b.data().as_slice()).unwrap_or(false);
                    if !same {
                        cx.viol("different_block:forwarded_block_transactions", format!("round {ri}: after the peer's answer ({} / {}) a block that is not B was handed to the chain service", round.answer_txs, round.answer_uncles));
                    }
                }
            }
            cx.ev("  e2e: a block was forwarded after the answer");
        } else {
            cx.ev("  e2e: no block after the answer");
        }
    }
    nontrivial
}

fn finish(mut cx: Ctx) -> RunResult {
    if cx.res.violation.is_none() {
        cx.res.violation = cx.deferred.take();
    }
    if let Ok(v) = crate::guard::BACKGROUND_PANICS.lock() {
        if let Some(first) = v.first() {
            // a panic on a thread the simulator does not drive (pool service, runtime): reported, never hidden
            cx.res.probes.add("background_thread_panic", v.len() as u64);
            if cx.res.harness_error.is_none() && cx.res.violation.is_none() {
                cx.res.harness_error = Some(format!("panic on a background thread: {first}"));
            }
        }
    }
    cx.res.log_hash = cx.log.finish();
    cx.res.interleaving = cx.il.finish();
    cx.res
}

#[allow(dead_code)]
fn _unused(_: BTreeSet<u8>) {}
