//! Panic capture: a process-wide hook records where a panic happened (per thread); `guarded`
//! turns a panic on the calling thread into a value. Panics whose location is inside this
//! harness are reported as harness errors, never as violations.

use std::cell::RefCell;
use std::panic::{catch_unwind, AssertUnwindSafe};

#[derive(Clone, Debug)]
pub struct PanicInfo {
    pub location: String,
    pub message: String,
}
impl PanicInfo {
    pub fn in_harness(&self) -> bool {
        self.location.contains("/verif/sim/") || self.location.starts_with("simpeer/") || self.location.contains("simpeer/src/") || self.location.contains("simcore/src/")
    }
    /// violation class of this panic; a panic inside a third-party crate (cargo registry) gets the
    /// entry point appended as its locus, because such locations (e.g. a slice index helper) are generic
    pub fn class(&self, entry: &str) -> String {
        if self.location.contains("/registry/src/") {
            format!("panic:{}@{}", self.class_location(), entry)
        } else {
            format!("panic:{}", self.class_location())
        }
    }
    /// file:line with the checkout prefix removed, so the class is stable across worktrees
    pub fn class_location(&self) -> String {
        let mut l = self.location.as_str();
        for pre in ["/repo/", "/tmp/wt-c16/"] {
            if let Some(i) = l.find(pre) {
                l = &l[i + pre.len()..];
            }
        }
        if let Some(i) = l.find("/registry/src/") {
            // third-party crate: keep crate-dir/path
            let rest = &l[i + "/registry/src/".len()..];
            l = rest.split_once('/').map(|x| x.1).unwrap_or(rest);
        }
        // drop the column
        let parts: Vec<&str> = l.rsplitn(2, ':').collect();
        if parts.len() == 2 && parts[0].chars().all(|c| c.is_ascii_digit()) { parts[1].to_string() } else { l.to_string() }
    }
}

thread_local! {
    static LAST: RefCell<Option<PanicInfo>> = const { RefCell::new(None) };
    static QUIET: std::cell::Cell<bool> = const { std::cell::Cell::new(false) };
}

pub static BACKGROUND_PANICS: std::sync::Mutex<Vec<String>> = std::sync::Mutex::new(Vec::new());

pub fn install_hook() {
    let default_hook = std::panic::take_hook();
    std::panic::set_hook(Box::new(move |info| {
        let location = info.location().map(|l| format!("{}:{}:{}", l.file(), l.line(), l.column())).unwrap_or_else(|| "<unknown>".into());
        let message = if let Some(s) = info.payload().downcast_ref::<&str>() {
            s.to_string()
        } else if let Some(s) = info.payload().downcast_ref::<String>() {
            s.clone()
        } else {
            "<non-string panic payload>".into()
        };
        let quiet = QUIET.with(|q| q.get());
        if quiet {
            LAST.with(|l| *l.borrow_mut() = Some(PanicInfo { location, message }));
        } else {
            let name = std::thread::current().name().unwrap_or("?").to_string();
            if let Ok(mut v) = BACKGROUND_PANICS.lock() {
                if v.len() < 16 {
                    v.push(format!("thread {name}: {location}: {message}"));
                }
            }
            if std::env::var_os("SIM_TRACE").is_some() {
                default_hook(info);
            }
        }
    }));
}

pub fn guarded<R>(f: impl FnOnce() -> R) -> Result<R, PanicInfo> {
    let prev = QUIET.with(|q| q.replace(true));
    LAST.with(|l| *l.borrow_mut() = None);
    let r = catch_unwind(AssertUnwindSafe(f));
    QUIET.with(|q| q.set(prev));
    match r {
        Ok(v) => Ok(v),
        Err(_) => Err(LAST.with(|l| l.borrow_mut().take()).unwrap_or(PanicInfo { location: "<unknown>".into(), message: "<panic without hook record>".into() })),
    }
}

/// violation classes the caller already knows (SIMPEER_CONTINUE_PAST=a,b): a run notes them in its
/// probes, goes on exploring, and reports the first of them only if nothing else turns up
pub fn continue_past(class: &str) -> bool {
    static LIST: std::sync::OnceLock<Vec<String>> = std::sync::OnceLock::new();
    LIST.get_or_init(|| std::env::var("SIMPEER_CONTINUE_PAST").map(|v| v.split(',').map(|s| s.trim().to_string()).filter(|s| !s.is_empty()).collect()).unwrap_or_default())
        .iter()
        .any(|c| c == class)
}

/// first-violation-wins slot with the deferred slot for known classes
#[derive(Default)]
pub struct Verdicts {
    pub first: Option<simcore::Violation>,
    pub deferred: Option<simcore::Violation>,
}
impl Verdicts {
    pub fn add(&mut self, probes: &mut simcore::Counters, property: &str, class: &str, detail: String) {
        if continue_past(class) {
            probes.inc(&format!("continued_past:{class}"));
            if self.deferred.is_none() {
                self.deferred = Some(simcore::Violation { property: property.into(), class: class.into(), detail });
            }
        } else if self.first.is_none() {
            self.first = Some(simcore::Violation { property: property.into(), class: class.into(), detail });
        }
    }
    pub fn stop(&self) -> bool {
        self.first.is_some()
    }
    pub fn finish(self) -> Option<simcore::Violation> {
        self.first.or(self.deferred)
    }
}
