//! What a receiving node computes on decoded values: view conversions, hashes, sizes,
//! unpack conversions and the context-free verifiers. Everything here runs inside the
//! caller's catch_unwind; nothing here may panic on its own account.

use crate::mol::Cx;
use ckb_pow::Pow;
use ckb_traits::{HeaderFields, HeaderFieldsProvider};
use ckb_types::{
    core::{self, Capacity, EpochNumberWithFraction},
    packed::{self, *},
    prelude::*,
    utilities::merkle_mountain_range::VerifiableHeader as CoreVerifiableHeader,
};
use ckb_verification::{BlockVerifier, HeaderVerifier, NonContextualBlockTxsVerifier, NonContextualTransactionVerifier};
use ckb_verification_traits::Verifier;
use std::collections::HashSet;

fn verdict(cx: &mut Cx, what: &str, ok: bool) {
    cx.probes.inc(&format!("{what}:{}", if ok { "ok" } else { "rejected" }));
}

pub fn script(s: &Script, cx: &mut Cx) {
    cx.n += 5;
    let _ = s.calc_script_hash();
    let _ = s.is_hash_type_type();
    let _ = core::ScriptHashType::try_from(s.hash_type());
    let _ = s.occupied_capacity();
    let _: Vec<u8> = s.args().unpack();
}

pub fn out_point(o: &OutPoint, cx: &mut Cx) {
    cx.n += 3;
    let _ = o.is_null();
    let k = o.to_cell_key();
    let i: u32 = o.index().into();
    if k.len() != 36 || k[32..] != i.to_be_bytes() {
        cx.bad.push("OutPoint: to_cell_key inconsistent".into());
    }
}

pub fn cell_dep(d: &CellDep, cx: &mut Cx) {
    cx.n += 1;
    let _ = core::DepType::try_from(d.dep_type());
}

pub fn cell_output(o: &CellOutput, cx: &mut Cx) {
    cx.n += 6;
    let _ = o.calc_lock_hash();
    let c: u64 = o.capacity().into();
    let _ = Capacity::shannons(c);
    for data_len in [0usize, 1, 1 << 20] {
        if let Ok(dc) = Capacity::bytes(data_len) {
            let _ = o.occupied_capacity(dc);
            let _ = o.is_lack_of_capacity(dc);
        }
    }
}

pub fn header_digest(d: &HeaderDigest, cx: &mut Cx) {
    cx.n += 3;
    let _ = d.is_default();
    let _ = d.calc_mmr_hash();
    let _: ckb_types::U256 = d.total_difficulty().into();
}

pub fn transaction(t: &Transaction, cx: &mut Cx) {
    if !cx.take_deep() {
        return;
    }
    cx.n += 20;
    let h = t.calc_tx_hash();
    let wh = t.calc_witness_hash();
    let sid = t.proposal_short_id();
    let cb = t.is_cellbase();
    let sz = t.serialized_size_in_block();
    if sz != t.as_slice().len() + 4 || t.as_reader().serialized_size_in_block() != sz {
        cx.bad.push("Transaction: serialized_size_in_block inconsistent".into());
    }
    if t.raw().calc_tx_hash() != h || sid != ProposalShortId::from_tx_hash(&h) {
        cx.bad.push("Transaction: hash accessors disagree".into());
    }
    let v = t.clone().into_view();
    if v.hash() != h || v.witness_hash() != wh || v.proposal_short_id() != sid || v.is_cellbase() != cb || v.data().as_slice() != t.as_slice() {
        cx.bad.push("Transaction: view disagrees with packed".into());
    }
    let _ = v.version();
    let _ = v.outputs_capacity();
    let pts = v.output_pts();
    if pts.len() != v.outputs().len() {
        cx.bad.push("Transaction: output_pts length".into());
    }
    let _ = v.input_pts_iter().count();
    let _ = v.cell_deps_iter().count();
    let _ = v.header_deps_iter().count();
    let _ = v.outputs_with_data_iter().count();
    let _ = v.unique_parents();
    let n_out = v.outputs().len();
    // output_with_data presupposes outputs.len() == outputs_data.len(), which every node path
    // establishes first (check_data() on relay/sync messages, OutputsDataVerifier elsewhere)
    let data_ok = v.outputs().len() == v.outputs_data().len();
    for i in [0usize, n_out.saturating_sub(1), n_out] {
        let _ = v.output(i);
        if data_ok {
            let _ = v.output_with_data(i);
        }
    }
    for w in v.witnesses().into_iter().take(4) {
        // what the cellbase / lock-script paths try on witnesses
        let _ = WitnessArgs::from_slice(&w.raw_data());
        let _ = WitnessArgs::from_compatible_slice(&w.raw_data());
        let _ = Script::from_witness(w.clone());
        let _ = CellbaseWitness::from_slice(&w.raw_data());
    }
    let ok = NonContextualTransactionVerifier::new(&v, cx.consensus).verify().is_ok();
    verdict(cx, "NonContextualTransactionVerifier", ok);
}

struct StubHeaders {
    parent_number: u64,
    parent_epoch: EpochNumberWithFraction,
    known: bool,
}
impl HeaderFieldsProvider for StubHeaders {
    fn get_header_fields(&self, hash: &packed::Byte32) -> Option<HeaderFields> {
        if !self.known {
            return None;
        }
        Some(HeaderFields {
            hash: hash.clone(),
            // number 0 ends the median-time walk at once
            number: self.parent_number,
            epoch: self.parent_epoch,
            timestamp: 1,
            parent_hash: packed::Byte32::zero(),
        })
    }
    fn block_median_time(&self, _block_hash: &packed::Byte32, _median_block_count: usize) -> u64 {
        1
    }
}

pub fn header(h: &Header, cx: &mut Cx) {
    if !cx.take_deep() {
        return;
    }
    cx.n += 16;
    let hh = h.calc_header_hash();
    let _ = h.calc_pow_hash();
    let _ = h.raw().calc_pow_hash();
    let v = h.clone().into_view();
    if v.hash() != hh || v.data().as_slice() != h.as_slice() {
        cx.bad.push("Header: view disagrees with packed".into());
    }
    let _ = (v.version(), v.number(), v.timestamp(), v.compact_target(), v.nonce(), v.is_genesis());
    let _ = (v.parent_hash(), v.transactions_root(), v.proposals_hash(), v.extra_hash(), v.dao());
    let e = v.epoch();
    let _ = (e.number(), e.index(), e.length(), e.is_well_formed(), e.full_value());
    let _ = v.difficulty();
    // the three PoW engines a network can configure
    for p in [Pow::Dummy, Pow::Eaglesong, Pow::EaglesongBlake2b] {
        let _ = p.engine().verify(h);
    }
    // the header verifier as the relayer / synchronizer run it, over a stub parent provider
    let parent_epoch = if e.is_well_formed() && e.index() > 0 {
        EpochNumberWithFraction::new_unchecked(e.number(), e.index() - 1, e.length())
    } else {
        EpochNumberWithFraction::new(0, 0, 1)
    };
    for (known, pn) in [(false, 0u64), (true, v.number().saturating_sub(1)), (true, 0), (true, 5)] {
        let stub = StubHeaders { parent_number: pn, parent_epoch, known };
        let ok = HeaderVerifier::new(&stub, cx.consensus).verify(&v).is_ok();
        verdict(cx, "HeaderVerifier", ok);
    }
}

pub fn uncle_block(u: &UncleBlock, cx: &mut Cx) {
    if !cx.take_deep() {
        return;
    }
    cx.n += 6;
    let hh = u.calc_header_hash();
    let ph = u.calc_proposals_hash();
    let v = u.clone().into_view();
    if v.hash() != hh || v.calc_proposals_hash() != ph || v.data().as_slice() != u.as_slice() {
        cx.bad.push("UncleBlock: view disagrees with packed".into());
    }
    let _ = (v.number(), v.epoch().is_well_formed(), v.difficulty(), v.nonce(), v.header().hash());
    let _ = core::UncleBlockView::serialized_size_in_block();
}

pub fn block(b: &Block, cx: &mut Cx) {
    if !cx.take_deep() {
        return;
    }
    cx.n += 40;
    let hh = b.calc_header_hash();
    let _ = b.calc_proposals_hash();
    let _ = b.calc_uncles_hash();
    let eh = b.calc_extension_hash();
    let _ = b.calc_extra_hash().extra_hash();
    let txh = b.calc_tx_hashes();
    let _ = b.calc_tx_witness_hashes();
    let sz = b.serialized_size_without_uncle_proposals();
    if sz > b.as_slice().len() {
        cx.bad.push("Block: serialized_size_without_uncle_proposals exceeds total size".into());
    }
    let u = b.as_uncle();
    if u.header().as_slice() != b.header().as_slice() {
        cx.bad.push("Block: as_uncle header differs".into());
    }
    let _ = b.as_reader().check_data_public();
    // the view that keeps the received header as it is ...
    let v0 = b.clone().into_view_without_reset_header();
    if v0.hash() != hh || v0.tx_hashes() != &txh[..] || v0.data().as_slice() != b.as_slice() || v0.calc_extension_hash() != eh {
        cx.bad.push("Block: into_view_without_reset_header disagrees with packed".into());
    }
    // ... and the one the sync/relay paths use: it re-derives the roots in the header
    let v = b.clone().into_view();
    if v.tx_hashes() != &txh[..] || v.transactions_root() != v.calc_transactions_root() || v.proposals_hash() != v.calc_proposals_hash() || v.extra_hash() != v.calc_extra_hash().extra_hash() {
        cx.bad.push("Block: into_view did not re-derive the header roots consistently".into());
    }
    if (v.hash() == hh) != (v.data().as_slice() == b.as_slice()) {
        cx.bad.push("Block: into_view hash/data equality disagree".into());
    }
    let _ = (v.number(), v.epoch().is_well_formed(), v.difficulty(), v.is_genesis(), v.nonce());
    let ids = v.union_proposal_ids();
    let n_iter = v.union_proposal_ids_iter().collect::<HashSet<_>>().len();
    if ids.len() != n_iter {
        cx.bad.push("Block: union_proposal_ids disagree".into());
    }
    let _ = v.calc_transactions_root();
    let _ = v.calc_raw_transactions_root();
    let _ = v.calc_witnesses_root();
    let _ = v.calc_uncles_hash();
    let _ = v.calc_proposals_hash();
    let _ = v.calc_extra_hash().extra_hash();
    let _ = v.extension();
    let _ = v.uncle_hashes().len();
    let uv = v.uncles();
    let _ = uv.data().len();
    for i in 0..uv.hashes().len().min(3) {
        let _ = uv.get(i).map(|x| x.hash());
    }
    let _ = v.as_uncle().hash();
    let txs = v.transactions();
    let nt = txs.len();
    for i in [0usize, nt.saturating_sub(1), nt] {
        let _ = v.transaction(i).map(|t| t.hash());
        let _ = v.output(i, 0);
    }
    let ok = BlockVerifier::new(cx.consensus).verify(&v).is_ok();
    verdict(cx, "BlockVerifier", ok);
    let ok = NonContextualBlockTxsVerifier::new(cx.consensus).verify(&v).is_ok();
    verdict(cx, "NonContextualBlockTxsVerifier", ok);
    // relaying the block onwards: the compact form and back
    let mut pre = HashSet::new();
    if nt > 2 {
        pre.insert(nt / 2);
    }
    let cb = CompactBlock::build_from_block(&v, &pre);
    if cb.txs_len() != nt && nt > 0 {
        cx.bad.push(format!("Block: build_from_block txs_len {} != {}", cb.txs_len(), nt));
    }
    let _ = cb.calc_header_hash();
}

pub fn compact_block(c: &CompactBlock, cx: &mut Cx) {
    if !cx.take_deep() {
        return;
    }
    cx.n += 10;
    let _ = c.calc_header_hash();
    let n = c.txs_len();
    let _ = c.extension();
    let st = ckb_sync::verif::compact_block_verify(c);
    verdict(cx, "CompactBlockVerifier", st.is_ok());
    if st.is_ok() {
        // only a compact block that passed the verifier is kept pending and asked these
        let ids = c.block_short_ids();
        let idx = c.short_id_indexes();
        if ids.len() != n || idx.len() != c.short_ids().len() || ids.iter().filter(|x| x.is_some()).count() != c.short_ids().len() {
            cx.bad.push("CompactBlock: block_short_ids / short_id_indexes inconsistent after a passed verifier".into());
        }
        // the checks BlockTransactionsProcess runs on an answer, here with an empty answer
        let want: Vec<u32> = idx.iter().map(|i| *i as u32).collect();
        let _ = ckb_sync::verif::block_transactions_verify(c, &want, &[]);
        let _ = ckb_sync::verif::block_uncles_verify(c, &[], &[]);
    }
}

pub fn relay_transactions(m: &RelayTransactions, cx: &mut Cx) {
    cx.n += 2;
    let ok = m.as_reader().check_data();
    verdict(cx, "RelayTransactions.check_data", ok);
    for t in m.transactions().into_iter().take(8) {
        let _: u64 = t.cycles().into();
    }
}

pub fn block_transactions(m: &BlockTransactions, cx: &mut Cx) {
    cx.n += 2;
    let ok = m.as_reader().check_data();
    verdict(cx, "BlockTransactions.check_data", ok);
}

pub fn send_block(m: &SendBlock, cx: &mut Cx) {
    cx.n += 1;
    let ok = m.as_reader().check_data();
    verdict(cx, "SendBlock.check_data", ok);
}

pub fn get_block_transactions(m: &GetBlockTransactions, cx: &mut Cx) {
    cx.n += 2;
    let _: Vec<u32> = m.indexes().into_iter().map(|i| i.into()).collect();
    let _: Vec<usize> = m.uncle_indexes().into_iter().map(|i| i.into()).collect();
}

pub fn merkle_proof(m: &MerkleProof, cx: &mut Cx) {
    cx.n += 1;
    let _: Vec<u32> = m.indices().into_iter().map(|i| i.into()).collect();
}

pub fn verifiable_header(v: &VerifiableHeader, cx: &mut Cx) {
    if !cx.take_deep() {
        return;
    }
    cx.n += 4;
    let cv: CoreVerifiableHeader = v.clone().into();
    for act in [0u64, 3, 10_000] {
        let ok = cv.is_valid(act);
        verdict(cx, "VerifiableHeader.is_valid", ok);
    }
    let _ = (cv.header().hash(), cv.uncles_hash(), cv.extension(), cv.parent_chain_root());
}

pub fn alert(a: &Alert, cx: &mut Cx) {
    cx.n += 2;
    let _ = a.calc_alert_hash();
    let _ = a.raw().calc_alert_hash();
}

/// BlockReader::check_data is private; the same recursion is public one level up
pub trait CheckDataPublic {
    fn check_data_public(&self) -> bool;
}
impl<'r> CheckDataPublic for BlockReader<'r> {
    fn check_data_public(&self) -> bool {
        let sb = SendBlock::new_builder().block(self.to_entity()).build();
        sb.as_reader().check_data()
    }
}

/// `Unpack` / `Into` conversions of the primitive types, as handlers apply them to message fields
pub fn primitives_of_light(m: &GetLastState, cx: &mut Cx) {
    cx.n += 1;
    // get_last_state.rs: `let subscribe: bool = self.message.subscribe().into();`
    let _: bool = m.subscribe().into();
}
pub fn get_last_state_proof(m: &GetLastStateProof, cx: &mut Cx) {
    cx.n += 4;
    let _: u64 = m.start_number().into();
    let _: u64 = m.last_n_blocks().into();
    let _: ckb_types::U256 = m.difficulty_boundary().into();
    let _: Vec<ckb_types::U256> = m.difficulties().into_iter().map(Into::into).collect();
}
