//! Kind "handlers": the same corrupted frames as kind "frames", but delivered to the REAL protocol
//! handlers of a real node (Synchronizer, Relayer, BlockFilter, LightClientProtocol `received`),
//! with messages that mention hashes the node knows. Oracle: the handler returns (no panic).
//! Frames are derived at run time from (frame seed, the deterministic prepared chain), so `ops`
//! is a list of independent frame seeds that shrinks by ddmin; the violation carries the bytes.

use crate::frames::{self, hex};
use crate::guard::guarded;
use crate::node::{Node, SimNetContext};
use ckb_network::bytes::{Bytes as NBytes, BytesMut};
use ckb_network::{CKBProtocolContext, CKBProtocolHandler, PeerIndex, SupportProtocols};
use ckb_store::ChainStore;
use ckb_types::prelude::*;
use serde::{Deserialize, Serialize};
use simcore::*;
use std::sync::Arc;

#[derive(Clone, Debug, Serialize, Deserialize)]
pub struct FrameRef {
    pub proto: String,
    pub fseed: u64,
    /// explicit message bytes (after decompression) instead of a seeded frame: for hand-made replays
    #[serde(default, skip_serializing_if = "Option::is_none")]
    pub raw_hex: Option<String>,
}

#[derive(Clone, Debug, Serialize, Deserialize)]
pub struct Scenario {
    pub engine: String,
    pub kind: String,
    pub seed: u64,
    pub height: u64,
    pub n_forks: usize,
    pub ops: Vec<FrameRef>,
}

pub fn gen_scenario(seed: u64) -> Scenario {
    let mut r = Rng::new(seed ^ 0xC16_4A2D1E);
    let n = r.urange(120, 260);
    let ops = (0..n)
        .map(|_| FrameRef { proto: r.pick(&["sync", "sync", "relay", "relay", "filter", "light"]).to_string(), fseed: r.next_u64() >> 16, raw_hex: None })
        .collect();
    Scenario { engine: "simpeer".into(), kind: "handlers".into(), seed, height: r.range(4, 7), n_forks: r.urange(2, 3), ops }
}

pub fn exec(sc: &Scenario, dir: &std::path::Path) -> RunResult {
    let mut res = RunResult { seed: sc.seed, ..Default::default() };
    let mut log = Fnv::new();
    let mut il = Fnv::new();
    let mut verdicts = crate::guard::Verdicts::default();
    let mut node = match guarded(|| Node::open(dir, sc.height, sc.n_forks)) {
        Ok(Ok(n)) => n,
        Ok(Err(e)) => {
            res.harness_error = Some(format!("node setup: {e}"));
            return res;
        }
        Err(p) => {
            res.harness_error = Some(format!("node setup panicked at {}: {}", p.location, p.message));
            return res;
        }
    };
    // what the node knows: block hashes of the main chain and the side blocks, transaction hashes
    let mut dict: Vec<[u8; 32]> = Vec::new();
    let tip = node.shared.snapshot().tip_number();
    for n in 0..=tip {
        if let Some(h) = node.shared.store().get_block_hash(n) {
            let mut a = [0u8; 32];
            a.copy_from_slice(h.as_slice());
            dict.push(a);
            if let Some(b) = node.shared.store().get_block(&h) {
                for t in b.transactions() {
                    let mut a = [0u8; 32];
                    a.copy_from_slice(t.hash().as_slice());
                    dict.push(a);
                }
            }
        }
    }
    for f in node.forks.iter().chain(node.strangers.iter()) {
        let mut a = [0u8; 32];
        a.copy_from_slice(f.hash().as_slice());
        dict.push(a);
    }
    if std::env::var_os("SIMPEER_CHAIN_INFO").is_some() {
        // helper for writing replays by hand: the hashes of the (deterministic) prepared chain
        for n in 0..=tip {
            if let Some(h) = node.shared.store().get_block_hash(n) {
                let txs: Vec<String> = node.shared.store().get_block(&h).map(|b| b.transactions().iter().map(|t| format!("{:x}", t.hash())).collect()).unwrap_or_default();
                eprintln!("[chain] block {n} {h:x} txs {txs:?}");
            }
        }
    }
    let mut synchronizer = ckb_sync::Synchronizer::new(node.chain.controller().clone(), Arc::clone(&node.sync_shared));
    let mut filter = ckb_sync::BlockFilter::new(Arc::clone(&node.sync_shared));
    let mut light = ckb_light_client_protocol_server::LightClientProtocol::new(node.shared.clone());
    let peer: PeerIndex = 7usize.into();
    let nc_sync = Arc::new(SimNetContext::new(SupportProtocols::Sync));
    let nc_relay = Arc::new(SimNetContext::new(SupportProtocols::RelayV3));
    let nc_filter = Arc::new(SimNetContext::new(SupportProtocols::Filter));
    let nc_light = Arc::new(SimNetContext::new(SupportProtocols::LightClient));
    {
        let d: Arc<dyn CKBProtocolContext + Sync> = nc_sync.clone();
        let _ = guarded(|| node.rt.block_on(synchronizer.connected(d, peer, "3")));
        let d: Arc<dyn CKBProtocolContext + Sync> = nc_relay.clone();
        let relayer = &mut node.relayer;
        let rt = &node.rt;
        let _ = guarded(|| rt.block_on(relayer.connected(d, peer, "3")));
    }
    for (i, op) in sc.ops.iter().enumerate() {
        if verdicts.stop() {
            break;
        }
        let fsc = frames::gen_with(op.fseed, Some(&op.proto), &dict);
        let data = if let Some(h) = &op.raw_hex {
            let d = frames::unhex(h);
            il.write(&d);
            NBytes::from(d)
        } else {
            let (frame, _) = frames::build_frame(&fsc);
            il.write(&frame);
            for o in &fsc.ops {
                res.faults.inc(o.kind_name());
            }
            match guarded(|| ckb_network::compress::decompress(BytesMut::from(&frame[..]))) {
                Ok(Ok(d)) => d,
                Ok(Err(_)) => {
                    res.probes.inc("frame_rejected_at_decompress");
                    continue;
                }
                Err(p) => {
                    set_panic(&mut res, &mut verdicts, "compress::decompress", &p, &frame, i);
                    break;
                }
            }
        };
        if data.len() > 1 << 20 {
            continue;
        }
        res.steps += 1;
        let data = NBytes::from(data.to_vec());
        let (who, r, nc_log) = match op.proto.as_str() {
            "sync" => {
                let d: Arc<dyn CKBProtocolContext + Sync> = nc_sync.clone();
                ("Synchronizer::received", guarded(|| node.rt.block_on(synchronizer.received(d, peer, data.clone()))), &nc_sync)
            }
            "relay" => {
                let d: Arc<dyn CKBProtocolContext + Sync> = nc_relay.clone();
                let relayer = &mut node.relayer;
                let rt = &node.rt;
                ("Relayer::received", guarded(|| rt.block_on(relayer.received(d, peer, data.clone()))), &nc_relay)
            }
            "filter" => {
                let d: Arc<dyn CKBProtocolContext + Sync> = nc_filter.clone();
                ("BlockFilter::received", guarded(|| node.rt.block_on(filter.received(d, peer, data.clone()))), &nc_filter)
            }
            _ => {
                let d: Arc<dyn CKBProtocolContext + Sync> = nc_light.clone();
                ("LightClientProtocol::received", guarded(|| node.rt.block_on(light.received(d, peer, data.clone()))), &nc_light)
            }
        };
        match r {
            Err(p) => {
                set_panic(&mut res, &mut verdicts, who, &p, &data, i);
                log.write_str("panic");
            }
            Ok(()) => {
                let banned = {
                    let mut l = nc_log.log.lock().unwrap();
                    let b = !l.banned.is_empty();
                    l.banned.clear();
                    l.sent.clear();
                    b
                };
                res.probes.inc(&format!("{}:{}", op.proto, if banned { "peer_banned" } else { "processed" }));
                if !banned {
                    res.states.push(fp(&[0xAD, fp_bytes(fsc.message.as_bytes()), fsc.ops.is_empty() as u64]));
                    if !fsc.ops.is_empty() {
                        res.nontrivial = true;
                    }
                }
                log.write_u64(banned as u64);
            }
        }
        // whatever the handlers queued for the chain service: stage 1 only
        let mut guard_steps = 0;
        while node.chain.insert_pending() > 0 && guard_steps < 64 {
            let _ = guarded(|| node.chain.step_insert_queued());
            guard_steps += 1;
        }
    }
    if let Ok(v) = crate::guard::BACKGROUND_PANICS.lock() {
        if let Some(first) = v.first() {
            res.probes.add("background_thread_panic", v.len() as u64);
            if res.harness_error.is_none() && verdicts.first.is_none() {
                res.harness_error = Some(format!("panic on a background thread: {first}"));
            }
        }
    }
    drop(node);
    res.violation = verdicts.finish();
    res.log_hash = log.finish();
    res.interleaving = il.finish();
    res
}

fn set_panic(res: &mut RunResult, verdicts: &mut crate::guard::Verdicts, who: &str, p: &crate::guard::PanicInfo, input: &[u8], i: usize) {
    if p.in_harness() {
        if res.harness_error.is_none() {
            res.harness_error = Some(format!("harness panic in {who} at {}: {}", p.location, p.message));
        }
        return;
    }
    let shown = if input.len() <= 4096 { hex(input) } else { format!("{}.. ({} bytes)", hex(&input[..4096]), input.len()) };
    res.probes.inc(&format!("panic_in:{who}"));
    verdicts.add(&mut res.probes, frames::PROP, &p.class(who), format!("frame #{i}: {who} panicked at {}: {} ; message bytes={}", p.location, p.message, shown));
}
