//! E-PEER (property C16): bytes from peers cannot crash the node or forge a block.
//!
//! kind "frames":      transport-corruption faults on valid messages of every protocol, then
//!                     decompress / decode / every accessor / view / hash / context-free verifier.
//! kind "reconstruct": real Relayer::reconstruct_block + CompactBlockProcess / BlockTransactionsProcess
//!                     over a real Shared + tx-pool, against a model of what is available where.

mod deep;
mod frames;
mod guard;
mod handlers;
mod mol;
mod node;
mod recon;

use simcore::*;
use std::fs;
use std::path::{Path, PathBuf};
use std::sync::atomic::{AtomicU64, Ordering};

static HASH_SEED: AtomicU64 = AtomicU64::new(0);
static HASH_CTR: AtomicU64 = AtomicU64::new(0);

/// Interposes libc's getrandom(3): std derives HashMap RandomState keys from it, so the iteration
/// order of the node's hash maps is a function of the run's seed rather than of the OS.
#[unsafe(no_mangle)]
pub unsafe extern "C" fn getrandom(buf: *mut u8, buflen: usize, _flags: u32) -> isize {
    let mut x = HASH_SEED.load(Ordering::Relaxed).wrapping_mul(6364136223846793005).wrapping_add(1442695040888963407) ^ HASH_CTR.fetch_add(1, Ordering::Relaxed).wrapping_mul(0x9E37_79B9_7F4A_7C15);
    for i in 0..buflen {
        x ^= x << 13;
        x ^= x >> 7;
        x ^= x << 17;
        unsafe {
            *buf.add(i) = (x >> 32) as u8;
        }
    }
    buflen as isize
}

/// keep at most `CAP` failing runs per violation class in the batch (simcore keeps 50 in total):
/// a frequent class must not crowd out a rare one. Every failing run is still counted in probes.
const CAP: u64 = 4;
fn cap_class(res: &mut RunResult, seen: &mut std::collections::BTreeMap<String, u64>) {
    if let Some(v) = &res.violation {
        let n = seen.entry(v.class.clone()).or_insert(0);
        *n += 1;
        res.probes.inc(&format!("violating_runs:{}", v.class));
        if *n > CAP {
            res.violation = None;
        }
    }
}

fn scratch_of(pid: u32) -> PathBuf {
    let base = if Path::new("/dev/shm").is_dir() { PathBuf::from("/dev/shm") } else { std::env::temp_dir() };
    base.join(format!("verif-peer-{pid}"))
}
fn scratch() -> PathBuf {
    scratch_of(std::process::id())
}

/// one reconstruct run = one node = one OS process
fn child_run(seed: u64, kind: &str) -> RunResult {
    use std::io::Read;
    use std::process::{Command, Stdio};
    let exe = std::env::current_exe().expect("current_exe");
    let child = Command::new(exe).args(["child", "--seed", &seed.to_string(), "--kind", kind]).env("RUST_LOG", "off").stdout(Stdio::piped()).stderr(Stdio::null()).spawn();
    let mut child = match child {
        Ok(c) => c,
        Err(e) => return RunResult { seed, harness_error: Some(format!("spawn: {e}")), ..Default::default() },
    };
    // a run takes well under a second; a child that is still there after 3 minutes is stuck.
    // Reported as a harness error (exit 2), never as a violation: the cause may be the harness.
    let deadline = std::time::Instant::now() + std::time::Duration::from_secs(180);
    let status = loop {
        match child.try_wait() {
            Ok(Some(st)) => break Some(st),
            Ok(None) => {
                if std::time::Instant::now() > deadline {
                    let _ = child.kill();
                    let _ = child.wait();
                    let _ = fs::remove_dir_all(scratch_of(child.id()));
                    break None;
                }
                std::thread::sleep(std::time::Duration::from_millis(5));
            }
            Err(_) => break None,
        }
    };
    let mut text = String::new();
    if let Some(mut out) = child.stdout.take() {
        let _ = out.read_to_string(&mut text);
    }
    for line in text.lines().rev() {
        if line.trim_start().starts_with('{') {
            if let Ok(r) = serde_json::from_str::<RunResult>(line.trim()) {
                return r;
            }
        }
    }
    let _ = fs::remove_dir_all(scratch_of(child.id()));
    RunResult { seed, harness_error: Some(match status { Some(st) => format!("{kind} child for seed {seed} produced no result (exit {:?})", st.code()), None => format!("{kind} child for seed {seed} timed out after 180 s") }), ..Default::default() }
}

fn main() {
    let args: Vec<String> = std::env::args().collect();
    let mode = args.get(1).map(|s| s.as_str()).unwrap_or("");
    guard::install_hook();
    let code = match mode {
        "gen" => {
            let seed: u64 = arg_value(&args, "--seed").unwrap().parse().unwrap();
            let kind = arg_value(&args, "--kind").unwrap_or_else(|| "frames".into());
            let v = match kind.as_str() {
                "frames" => serde_json::to_value(frames::gen_scenario(seed)).unwrap(),
                "reconstruct" => serde_json::to_value(recon::gen_scenario(seed)).unwrap(),
                "handlers" => serde_json::to_value(handlers::gen_scenario(seed)).unwrap(),
                _ => panic!("unknown kind"),
            };
            if arg_flag(&args, "--compact") {
                println!("{}", serde_json::to_string(&v).unwrap());
            } else {
                println!("{}", serde_json::to_string_pretty(&v).unwrap());
            }
            0
        }
        "exec" => {
            let path = arg_value(&args, "--scenario").unwrap();
            let v: serde_json::Value = serde_json::from_str(&fs::read_to_string(path).unwrap()).unwrap();
            let kind = v.get("kind").and_then(|k| k.as_str()).unwrap_or("frames").to_string();
            let res = match kind.as_str() {
                "frames" => {
                    let sc: frames::Scenario = serde_json::from_value(v).unwrap();
                    let consensus = ckb_chain_spec::consensus::ConsensusBuilder::default().build();
                    frames::exec(&sc, &consensus)
                }
                "reconstruct" => {
                    let sc: recon::Scenario = serde_json::from_value(v).unwrap();
                    HASH_SEED.store(sc.seed, Ordering::Relaxed);
                    let dir = scratch();
                    let res = recon::exec(&sc, &dir);
                    let _ = fs::remove_dir_all(&dir);
                    res
                }
                "handlers" => {
                    let sc: handlers::Scenario = serde_json::from_value(v).unwrap();
                    HASH_SEED.store(sc.seed, Ordering::Relaxed);
                    let dir = scratch();
                    let res = handlers::exec(&sc, &dir);
                    let _ = fs::remove_dir_all(&dir);
                    res
                }
                _ => panic!("unknown kind"),
            };
            println!("{}", serde_json::to_string(&res).unwrap());
            0
        }
        "child" => {
            let seed: u64 = arg_value(&args, "--seed").unwrap().parse().unwrap();
            HASH_SEED.store(seed, Ordering::Relaxed);
            let dir = scratch();
            if arg_value(&args, "--kind").as_deref() == Some("handlers") {
                let res = handlers::exec(&handlers::gen_scenario(seed), &dir);
                let _ = fs::remove_dir_all(&dir);
                println!("{}", serde_json::to_string(&res).unwrap());
                std::process::exit(0);
            }
            let sc = recon::gen_scenario(seed);
            let res = recon::exec(&sc, &dir);
            let _ = fs::remove_dir_all(&dir);
            println!("{}", serde_json::to_string(&res).unwrap());
            0
        }
        "batch" => {
            let (lo, hi) = parse_seed_range(&arg_value(&args, "--seeds").unwrap());
            let threads: usize = arg_value(&args, "--threads").map(|s| s.parse().unwrap()).unwrap_or(16);
            let which = arg_value(&args, "--kind").unwrap_or_else(|| "frames".into());
            let mut batch = BatchResult::new("simpeer");
            let mut seen = std::collections::BTreeMap::new();
            match which.as_str() {
                "frames" => {
                    let consensus = ckb_chain_spec::consensus::ConsensusBuilder::default().build();
                    parallel_seeds(
                        lo,
                        hi,
                        threads,
                        |seed| {
                            let sc = frames::gen_scenario(seed);
                            let res = frames::exec(&sc, &consensus);
                            let keep = res.violation.is_some() || res.harness_error.is_some() || (res.nontrivial && seed < lo + 64);
                            (if keep { Some(sc) } else { None }, res)
                        },
                        |seed, (sc, mut res)| {
                            cap_class(&mut res, &mut seen);
                            if batch.samples.len() < 3 && res.nontrivial {
                                if let Some(sc) = &sc {
                                    if sc.base_hex.len() < 1200 {
                                        batch.samples.push(serde_json::to_value(sc).unwrap());
                                    }
                                }
                            }
                            batch.absorb(&res, || serde_json::to_value(sc.unwrap_or_else(|| frames::gen_scenario(seed))).unwrap());
                        },
                    )
                }
                "reconstruct" => parallel_seeds(
                    lo,
                    hi,
                    threads,
                    |seed| child_run(seed, "reconstruct"),
                    |seed, mut res| {
                        cap_class(&mut res, &mut seen);
                        if batch.samples.len() < 2 && res.nontrivial {
                            let mut sc = recon::gen_scenario(seed);
                            sc.ops.truncate(2);
                            batch.samples.push(serde_json::to_value(&sc).unwrap());
                        }
                        batch.absorb(&res, || serde_json::to_value(recon::gen_scenario(seed)).unwrap());
                    },
                ),
                "handlers" => parallel_seeds(
                    lo,
                    hi,
                    threads,
                    |seed| child_run(seed, "handlers"),
                    |seed, mut res| {
                        cap_class(&mut res, &mut seen);
                        if batch.samples.len() < 1 && res.nontrivial {
                            let mut sc = handlers::gen_scenario(seed);
                            sc.ops.truncate(6);
                            batch.samples.push(serde_json::to_value(&sc).unwrap());
                        }
                        batch.absorb(&res, || serde_json::to_value(handlers::gen_scenario(seed)).unwrap());
                    },
                ),
                _ => panic!("unknown kind"),
            }
            batch.finish();
            println!("{}", serde_json::to_string(&batch).unwrap());
            0
        }
        _ => {
            eprintln!("usage: simpeer gen --seed S [--kind K] | exec --scenario F | batch --seeds a..b --threads N --kind frames|reconstruct");
            2
        }
    };
    std::process::exit(code);
}
