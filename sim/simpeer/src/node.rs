//! The node under simulation for kind "reconstruct": real RocksDB (tmpfs), Shared, tx-pool
//! service, chain stages as steps (ckb_chain::verif::SimChain, no threads), SyncShared, Relayer.
//! One node per OS process (faketime, stop signals and the db temp dir are process-global in ckb).

use ckb_app_config::{DBConfig, NetworkConfig};
use ckb_chain::verif::SimChain;
use ckb_chain::LonelyBlock;
use ckb_chain_spec::consensus::{build_genesis_epoch_ext, ConsensusBuilder};
use ckb_dao::DaoCalculator;
use ckb_dao_utils::genesis_dao_data;
use ckb_network::{
    async_trait, bytes::Bytes as P2pBytes, network::TransportType, Behaviour, CKBProtocolContext, Error, Flags, NetworkController, NetworkService, NetworkState, Peer, PeerIndex, ProtocolId,
    SupportProtocols, TargetSession,
};
use ckb_shared::{Shared, SharedBuilder, Snapshot};
use ckb_store::ChainStore;
use ckb_sync::{Relayer, SyncShared};
use ckb_test_chain_utils::always_success_cell;
use ckb_types::{
    bytes::Bytes,
    core::{cell::resolve_transaction, capacity_bytes, BlockBuilder, BlockView, Capacity, EpochNumberWithFraction, HeaderBuilder, HeaderView, TransactionBuilder, TransactionView},
    packed::{self, CellDep, CellInput, CellOutputBuilder, OutPoint, Script},
    prelude::*,
    utilities::difficulty_to_compact,
    U256,
};
use ckb_verification_traits::Switch;
use std::collections::HashSet;
use std::future::Future;
use std::path::Path;
use std::pin::Pin;
use std::sync::{Arc, Mutex};
use std::time::Duration;

pub const T0: u64 = 1_760_000_000_000;
/// spendable always-success outputs per prepared block
pub const OUTS_PER_BLOCK: usize = 6;

pub struct Node {
    pub shared: Shared,
    pub chain: SimChain,
    pub relayer: Relayer,
    pub sync_shared: Arc<SyncShared>,
    pub always_success_out_point: OutPoint,
    pub always_success_script: Script,
    /// spendable cells (out point, capacity) created by the prepared chain's cellbases
    pub cells: Vec<(OutPoint, u64)>,
    /// side blocks known to the node (candidates for uncles the node can look up)
    pub forks: Vec<BlockView>,
    /// well-formed blocks the node has never seen (uncles it cannot look up)
    pub strangers: Vec<BlockView>,
    pub rt: ckb_network::tokio::runtime::Runtime,
    _net: NetworkController,
}

fn dummy_network(shared: &Shared, dir: &Path) -> NetworkController {
    let config = NetworkConfig {
        max_peers: 19,
        max_outbound_peers: 5,
        path: dir.join("net"),
        ping_interval_secs: 15,
        ping_timeout_secs: 20,
        connect_outbound_interval_secs: 1,
        discovery_local_address: true,
        bootnode_mode: true,
        reuse_port_on_linux: true,
        ..Default::default()
    };
    let network_state = Arc::new(NetworkState::from_config(config).expect("Init network state failed"));
    NetworkService::new(network_state, vec![], vec![], (shared.consensus().identify_name(), "test".to_string(), Flags::COMPATIBILITY), TransportType::Tcp)
        .start(shared.async_handle())
        .expect("Start network service failed")
}

pub fn new_header_builder(shared: &Shared, parent: &HeaderView) -> HeaderBuilder {
    let snapshot = shared.snapshot();
    let epoch = snapshot.consensus().next_epoch_ext(parent, &snapshot.borrow_as_data_loader()).unwrap().epoch();
    HeaderBuilder::default()
        .parent_hash(parent.hash())
        .number(parent.number() + 1)
        .timestamp(parent.timestamp() + 1000)
        .epoch(epoch.number_with_fraction(parent.number() + 1))
        .compact_target(epoch.compact_target())
}

fn cellbase(number: u64, script: &Script, tag: u64, outs: usize) -> TransactionView {
    let mut b = TransactionBuilder::default().input(CellInput::new_cellbase_input(number)).witness(
        packed::CellbaseWitness::new_builder().lock(script.clone()).message(Bytes::from(tag.to_le_bytes().to_vec()).pack()).build().as_bytes().pack(),
    );
    for _ in 0..outs {
        b = b.output(CellOutputBuilder::default().capacity(capacity_bytes!(50000)).lock(script.clone()).build()).output_data(Bytes::new().pack());
    }
    b.build()
}

impl Node {
    pub fn drain(&mut self) {
        loop {
            let mut p = false;
            while self.chain.step_insert_queued() {
                p = true;
            }
            while self.chain.step_preload() {
                p = true;
            }
            while self.chain.step_verify() {
                p = true;
            }
            if !p {
                return;
            }
        }
    }

    fn deliver(&mut self, block: &BlockView) -> Result<(), String> {
        let verdict: Arc<Mutex<Option<Result<bool, String>>>> = Arc::new(Mutex::new(None));
        let v = Arc::clone(&verdict);
        self.chain.step_insert(LonelyBlock {
            block: Arc::new(block.clone()),
            switch: Some(Switch::DISABLE_ALL),
            verify_callback: Some(Box::new(move |r| {
                *v.lock().unwrap() = Some(r.map_err(|e| e.to_string()));
            })),
        });
        self.drain();
        match verdict.lock().unwrap().take() {
            Some(Ok(_)) => Ok(()),
            Some(Err(e)) => Err(format!("prepared block {} refused: {e}", block.number())),
            None => Err(format!("prepared block {}: no verdict", block.number())),
        }
    }

    fn build_block(&self, parent: &HeaderView, tag: u64, outs: usize) -> BlockView {
        let cb = cellbase(parent.number() + 1, &self.always_success_script, tag, outs);
        let header = new_header_builder(&self.shared, parent).build();
        let dao = {
            let snapshot: &Snapshot = &self.shared.snapshot();
            let rtx = resolve_transaction(cb.clone(), &mut HashSet::new(), snapshot, snapshot).unwrap();
            let dl = snapshot.borrow_as_data_loader();
            DaoCalculator::new(self.shared.consensus(), &dl).dao_field([rtx].iter(), parent).unwrap_or_default()
        };
        BlockBuilder::default().header(header).dao(dao).transaction(cb).build()
    }

    pub fn open(dir: &Path, height: u64, n_forks: usize) -> Result<Node, String> {
        std::fs::create_dir_all(dir.join("hm")).map_err(|e| e.to_string())?;
        let ft = ckb_systemtime::faketime();
        ft.set_faketime(T0);
        std::mem::forget(ft);
        let (as_cell, as_data, as_script) = always_success_cell();
        let always_success_tx = TransactionBuilder::default()
            .input(CellInput::new(OutPoint::null(), 0))
            .output(as_cell.clone())
            .output_data(as_data.pack())
            .witness(as_script.clone().into_witness())
            .build();
        let always_success_out_point = OutPoint::new(always_success_tx.hash(), 0);
        let dao = genesis_dao_data(vec![&always_success_tx]).map_err(|e| e.to_string())?;
        let genesis = BlockBuilder::default()
            .timestamp(T0 - 3_600_000)
            .dao(dao)
            .compact_target(difficulty_to_compact(U256::from(1000u64)))
            .transaction(always_success_tx)
            .build();
        let epoch_ext = build_genesis_epoch_ext(Capacity::shannons(191_780_821_917_808), 0x20800000, 1, 4 * 60 * 60, (1, 40));
        let consensus = ConsensusBuilder::new(genesis, epoch_ext).cellbase_maturity(EpochNumberWithFraction::new(0, 0, 1)).build();
        let db_config = DBConfig { path: dir.join("db"), ..Default::default() };
        let handle = ckb_async_runtime::new_background_runtime();
        let (shared, mut pack) = SharedBuilder::new("simpeer", dir, &db_config, None, handle, consensus)
            .map_err(|e| format!("open db: {e:?}"))?
            .header_map_tmp_dir(Some(dir.join("hm")))
            .build()
            .map_err(|e| format!("build shared: {e:?}"))?;
        let net = dummy_network(&shared, dir);
        pack.take_tx_pool_builder().start(net.clone());
        let chain = SimChain::new(pack.take_chain_services_builder());
        let relay_rx = pack.take_relay_tx_receiver();
        let sync_shared = Arc::new(SyncShared::new(shared.clone(), Default::default(), relay_rx));
        let relayer = Relayer::new(chain.controller().clone(), Arc::clone(&sync_shared));
        let rt = ckb_network::tokio::runtime::Builder::new_multi_thread().worker_threads(1).enable_all().build().map_err(|e| e.to_string())?;
        let mut node = Node {
            shared,
            chain,
            relayer,
            sync_shared,
            always_success_out_point,
            always_success_script: as_script.clone(),
            cells: Vec::new(),
            forks: Vec::new(),
            strangers: Vec::new(),
            rt,
            _net: net,
        };
        // main chain
        for i in 0..height {
            let parent = node.shared.snapshot().tip_header().clone();
            let b = node.build_block(&parent, i, OUTS_PER_BLOCK);
            node.deliver(&b)?;
            if node.shared.snapshot().tip_hash() != b.hash() {
                return Err(format!("prepared block {} did not become the tip", b.number()));
            }
            let cb = b.transactions()[0].clone();
            for (k, o) in cb.outputs().into_iter().enumerate() {
                let cap: u64 = o.capacity().into();
                node.cells.push((OutPoint::new(cb.hash(), k as u32), cap));
            }
        }
        // side blocks at the last heights: the node stores them, the main chain stays
        let tip = node.shared.snapshot().tip_header().clone();
        for f in 0..n_forks {
            let back = 1 + (f as u64 % 2);
            if tip.number() < back + 1 {
                break;
            }
            let parent_hash = node.shared.store().get_block_hash(tip.number() - back).ok_or("no parent for fork")?;
            let parent = node.shared.store().get_block_header(&parent_hash).ok_or("no parent header for fork")?;
            let b = node.build_block(&parent, 1000 + f as u64, 1);
            node.deliver(&b)?;
            if node.shared.snapshot().tip_hash() != tip.hash() {
                return Err("a side block displaced the tip".into());
            }
            node.forks.push(b);
        }
        for s in 0..3u64 {
            let b = node.build_block(&tip, 5000 + s, 1);
            node.strangers.push(b);
        }
        // the pool follows the chain asynchronously: wait until it has caught up
        let want = node.shared.snapshot().tip_hash();
        let mut ok = false;
        for _ in 0..4000 {
            let info = node.shared.tx_pool_controller().get_tx_pool_info().map_err(|e| e.to_string())?;
            if info.tip_hash == want {
                ok = true;
                break;
            }
            std::thread::sleep(Duration::from_millis(1));
        }
        if !ok {
            return Err("tx-pool did not catch up with the prepared chain".into());
        }
        if node.sync_shared.active_chain().is_initial_block_download() {
            return Err("node still in IBD after the prepared chain".into());
        }
        Ok(node)
    }

    /// a transaction spending `cell`, paying `fee`, tagged by `tag` in its output data
    pub fn spend(&self, input: OutPoint, input_cap: u64, fee: u64, tag: u64) -> TransactionView {
        TransactionBuilder::default()
            .input(CellInput::new(input, 0))
            .output(CellOutputBuilder::default().capacity(Capacity::shannons(input_cap - fee)).lock(self.always_success_script.clone()).build())
            .output_data(Bytes::from(tag.to_le_bytes().to_vec()).pack())
            .cell_dep(CellDep::new_builder().out_point(self.always_success_out_point.clone()).build())
            .build()
    }
}

// ------------------------------------------------------------------ the peer side

#[derive(Default)]
pub struct NetLog {
    pub sent: Vec<(ProtocolId, PeerIndex, P2pBytes)>,
    pub banned: Vec<(PeerIndex, String)>,
}

/// SimNetContext: every send is captured, nothing leaves the process
pub struct SimNetContext {
    protocol: SupportProtocols,
    pub log: Mutex<NetLog>,
}
impl SimNetContext {
    pub fn new(protocol: SupportProtocols) -> Self {
        SimNetContext { protocol, log: Mutex::new(NetLog::default()) }
    }
    fn push(&self, p: ProtocolId, peer: PeerIndex, data: P2pBytes) {
        self.log.lock().unwrap().sent.push((p, peer, data));
    }
}

#[async_trait]
impl CKBProtocolContext for SimNetContext {
    async fn set_notify(&self, _interval: Duration, _token: u64) -> Result<(), Error> {
        Ok(())
    }
    async fn remove_notify(&self, _token: u64) -> Result<(), Error> {
        Ok(())
    }
    async fn async_quick_send_message(&self, proto_id: ProtocolId, peer_index: PeerIndex, data: P2pBytes) -> Result<(), Error> {
        self.push(proto_id, peer_index, data);
        Ok(())
    }
    async fn async_quick_send_message_to(&self, peer_index: PeerIndex, data: P2pBytes) -> Result<(), Error> {
        self.push(self.protocol_id(), peer_index, data);
        Ok(())
    }
    async fn async_quick_filter_broadcast(&self, _target: TargetSession, _data: P2pBytes) -> Result<(), Error> {
        Ok(())
    }
    async fn async_future_task(&self, _task: Pin<Box<dyn Future<Output = ()> + 'static + Send>>, _blocking: bool) -> Result<(), Error> {
        Ok(())
    }
    async fn async_send_message(&self, proto_id: ProtocolId, peer_index: PeerIndex, data: P2pBytes) -> Result<(), Error> {
        self.push(proto_id, peer_index, data);
        Ok(())
    }
    async fn async_send_message_to(&self, peer_index: PeerIndex, data: P2pBytes) -> Result<(), Error> {
        self.push(self.protocol_id(), peer_index, data);
        Ok(())
    }
    async fn async_filter_broadcast(&self, _target: TargetSession, _data: P2pBytes) -> Result<(), Error> {
        Ok(())
    }
    async fn async_filter_broadcast_with_proto(&self, _proto_id: ProtocolId, _target: TargetSession, _data: P2pBytes) -> Result<(), Error> {
        Ok(())
    }
    async fn async_quick_filter_broadcast_with_proto(&self, _proto_id: ProtocolId, _target: TargetSession, _data: P2pBytes) -> Result<(), Error> {
        Ok(())
    }
    async fn async_disconnect(&self, _peer_index: PeerIndex, _message: &str) -> Result<(), Error> {
        Ok(())
    }
    fn quick_send_message(&self, proto_id: ProtocolId, peer_index: PeerIndex, data: P2pBytes) -> Result<(), Error> {
        self.push(proto_id, peer_index, data);
        Ok(())
    }
    fn quick_send_message_to(&self, peer_index: PeerIndex, data: P2pBytes) -> Result<(), Error> {
        self.push(self.protocol_id(), peer_index, data);
        Ok(())
    }
    fn quick_filter_broadcast(&self, _target: TargetSession, _data: P2pBytes) -> Result<(), Error> {
        Ok(())
    }
    fn quick_filter_broadcast_with_proto(&self, _proto_id: ProtocolId, _target: TargetSession, _data: P2pBytes) -> Result<(), Error> {
        Ok(())
    }
    fn future_task(&self, _task: Pin<Box<dyn Future<Output = ()> + 'static + Send>>, _blocking: bool) -> Result<(), Error> {
        Ok(())
    }
    fn send_message(&self, proto_id: ProtocolId, peer_index: PeerIndex, data: P2pBytes) -> Result<(), Error> {
        self.push(proto_id, peer_index, data);
        Ok(())
    }
    fn send_message_to(&self, peer_index: PeerIndex, data: P2pBytes) -> Result<(), Error> {
        self.push(self.protocol_id(), peer_index, data);
        Ok(())
    }
    fn filter_broadcast(&self, _target: TargetSession, _data: P2pBytes) -> Result<(), Error> {
        Ok(())
    }
    fn disconnect(&self, _peer_index: PeerIndex, _message: &str) -> Result<(), Error> {
        Ok(())
    }
    fn get_peer(&self, _peer_index: PeerIndex) -> Option<Peer> {
        None
    }
    fn with_peer_mut(&self, _peer_index: PeerIndex, _f: Box<dyn FnOnce(&mut Peer)>) {}
    fn connected_peers(&self) -> Vec<PeerIndex> {
        vec![]
    }
    fn full_relay_connected_peers(&self) -> Vec<PeerIndex> {
        vec![]
    }
    fn report_peer(&self, _peer_index: PeerIndex, _behaviour: Behaviour) {}
    fn ban_peer(&self, peer_index: PeerIndex, _duration: Duration, reason: String) {
        self.log.lock().unwrap().banned.push((peer_index, reason));
    }
    fn protocol_id(&self) -> ProtocolId {
        self.protocol.protocol_id()
    }
}
